CONSTANTS Subs = {"s1", "s2", "s3"}  Cap = 3  MaxEv = 100000  MaxLen = 0
CONSTANT KnownDeviations = ${KnownDeviations}
SPECIFICATION TraceSpec
CONSTRAINT HW
INVARIANTS TypeOK Ordered
PROPERTIES RecvOldest QuietWhenGone DropOnlyWhenFull
POSTCONDITION Accepted
CHECK_DEADLOCK FALSE
