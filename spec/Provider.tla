------------------------------- MODULE Provider -------------------------------
(***************************************************************************)
(* Provider-scoped routes /olla/<prefix>/...                               *)
(*   internal/app/handlers/handler_provider_common.go  providerProxyHandler,*)
(*       getProviderEndpoints, createProviderProfile, filterModelsByProvider*)
(*   internal/app/handlers/handler_proxy.go  filterEndpointsByProfile      *)
(*   config/profiles/*.yaml  routing.prefixes, api.openai_compatible       *)
(* allowed = the endpoint types the prefix may be served by (owning        *)
(* profile; for the openai prefixes every OpenAI-compatible profile);      *)
(* endpoints of type "auto" count as any provider.                         *)
(***************************************************************************)
EXTENDS Naturals, FiniteSets, Sequences, TLC, Json

CONSTANTS EP,        \* endpoint names
          Prefixes,  \* provider prefixes explored
          Types,     \* endpoint types explored
          AllowedChoices,  \* {{}} when generating (the table is data), SUBSET Types when model checking
          Focus,           \* GEN: only scenarios with a refusing endpoint among all-healthy ones
          Strats,          \* GEN: routing-strategy variants of the server ("plain", "disc_all")
          DropFocus,       \* GEN: only scenarios in which one endpoint re-lists without the shared model
          FlipFocus        \* GEN: only scenarios in which one endpoint turns unhealthy WHILE the request is being routed

VARIABLES prefix, allowed, typ, H,
          phase,     \* "cfg" | "sent" | "served" | "answered"
          served, scn
vars == <<prefix, allowed, typ, H, phase, served, scn>>

Lenient  == "strat" \in DOMAIN scn /\ scn.strat # "plain"
Refusing == IF "refuse" \in DOMAIN scn THEN scn.refuse ELSE {}
OfKind(e) == typ[e] \in allowed \/ typ[e] = "auto"
Eligible  == {e \in DOMAIN typ : e \in H /\ OfKind(e)}

\* `allowed` is data (read from the shipped YAML by the harness); generation leaves it empty
Init == /\ prefix \in Prefixes /\ allowed \in AllowedChoices
        /\ \E n \in 1..Cardinality(EP) : \E f \in [{"e" \o ToString(i) : i \in 1..n} -> Types] : typ = f
        /\ H \in SUBSET (DOMAIN typ)
        /\ phase = "cfg" /\ served = "none"
        \* refuse: endpoints that are healthy as far as olla knows but refuse the connection when the request
        \* comes (Focus: only the shape that matters for it -- everybody healthy, exactly one refusing)
        /\ \E R \in SUBSET H :
              /\ (Focus => Cardinality(DOMAIN typ) = Cardinality(EP) /\ H = DOMAIN typ /\ Cardinality(R) = 1)
              /\ (~Focus => R = {})
              \* strat "disc_all": the server runs the discovery routing strategy with fallback "all" and refresh on
              \* miss, and the request names a model nobody lists -- the lenient fallback must stay inside the provider
              \* drop: endpoints that re-list without the model all endpoints share (DropFocus: exactly one, all healthy)
              \* flip: endpoints whose health flips to "unhealthy" between two reads of the healthy set inside ONE
              \* request (the harness does it while olla re-lists the backends for the refresh on miss): candidates are
              \* those healthy at arrival; whatever olla re-reads later, it must not widen the request beyond its provider
              /\ \E st \in Strats : \E dr \in SUBSET (DOMAIN typ) : \E fl \in SUBSET (DOMAIN typ) :
                    /\ (DropFocus => Cardinality(dr) = 1 /\ H = DOMAIN typ /\ R = {})
                    /\ (~DropFocus => dr = {})
                    /\ (FlipFocus => Cardinality(fl) = 1 /\ H = DOMAIN typ /\ R = {} /\ st = "disc_all"
                                      /\ Cardinality(DOMAIN typ) = Cardinality(EP))
                    /\ (~FlipFocus => fl = {})
                    /\ scn = [prefix |-> prefix, types |-> typ, H |-> H, refuse |-> R, strat |-> st, drop |-> dr, flip |-> fl]

Send == phase = "cfg" /\ phase' = "sent" /\ UNCHANGED <<prefix, allowed, typ, H, served, scn>>
\* only a healthy endpoint of the provider's kind may be contacted
Dispatch(e) == /\ phase = "sent" /\ e \in Eligible
               /\ phase' = "served" /\ served' = e
               /\ UNCHANGED <<prefix, allowed, typ, H, scn>>
Answer(st) == /\ phase \in {"sent", "served"}
              /\ IF phase = "served" THEN st = 200
                 ELSE /\ st >= 400                            \* an error, and nobody of another kind was contacted
                      \* (whether an unknown model is an error under a lenient routing strategy is C09's business)
                      \* with a refusing endpoint in play the request may fail although another endpoint of the kind
                      \* remains: olla narrows the candidates further (by the capabilities a profile declares for the
                      \* path), and whether every remaining candidate is tried is C04's business, not this property's
                      /\ (Eligible \ Refusing) = {} \/ Lenient \/ (Eligible \cap Refusing) # {}
              /\ phase' = "answered" /\ UNCHANGED <<prefix, allowed, typ, H, served, scn>>
\* a model listing under the prefix: only models available on endpoints of that kind
Listing(ms, modelsOf) == /\ phase = "answered"
                         /\ ms \subseteq UNION {modelsOf[e] : e \in {x \in DOMAIN typ : OfKind(x)}}
                         /\ UNCHANGED vars

Next == Send \/ (\E e \in EP : Dispatch(e)) \/ Answer(200) \/ Answer(404)
Spec == Init /\ [][Next]_vars
StaysInside == served # "none" => (served \in H /\ OfKind(served))
GenNext == FALSE /\ UNCHANGED vars
Export == phase = "cfg" => PrintT(<<"SCN", ToJson(scn)>>)
=============================================================================
