CONSTANTS FailureThreshold = 5  SuccessThreshold = 2  HalfOpenRequests = 3  OpenDuration = 600  Ticks = {3, 601}  MaxLen = 0  Races = {}
CONSTANT KnownDeviations = ${KnownDeviations}
SPECIFICATION TraceSpec
CONSTRAINT HW
INVARIANT TypeOK
PROPERTIES OpensOnlyAfterThreshold HoldsWhileOpen ProbeAdmitted BoundedProbes ProbeCounted SuccCloses FailReopens ClosedAdmits SuccClears RaceBounded
POSTCONDITION Accepted
CHECK_DEADLOCK FALSE
