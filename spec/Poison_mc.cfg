CONSTANTS Classes = {"ok", "notjson", "nameless"}  HealthClasses = {}  Formats = {}  Fields = {}  FleetClasses = {}  Mutations = 0  ValueClasses = {}
SPECIFICATION Spec
INVARIANT Consistent
CHECK_DEADLOCK FALSE
