CONSTANTS Classes = {"ok", "notjson", "nameless"}  HealthClasses = {}  Formats = {}  Fields = {}  ValueClasses = {}
SPECIFICATION Spec
INVARIANT Consistent
CHECK_DEADLOCK FALSE
