CONSTANTS CIs = {1, 5, 20}  Outcomes = {"ok", "http5xx", "refuse"}  Ticks = {1, 5, 30, 61}
          MaxBackoff = 60  MaxMult = 12  CapCF = 7  CapCB = 1000
SPECIFICATION SchedSpec
VIEW View
INVARIANTS TypeOK Schedule BoundedProbing
CHECK_DEADLOCK FALSE
