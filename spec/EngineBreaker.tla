---------------------------- MODULE EngineBreaker ----------------------------
(***************************************************************************)
(* Per-endpoint circuit breaker of the olla proxy engine                   *)
(*   internal/adapter/proxy/olla/service.go  (olla.circuitBreaker)         *)
(* closed(0) / open(1) / half-open(2).  Half-open admits everything until  *)
(* a result is recorded.                                                   *)
(***************************************************************************)
EXTENDS Naturals, Sequences, TLC, Json

CONSTANTS Threshold,   \* code: 5
          Timeout,     \* code: 30 s (health.DefaultCircuitBreakerTimeout)
          Ticks, MaxLen

VARIABLES failures,    \* saturates at Threshold
          st,          \* "closed" | "open" | "half"
          sinceFail,   \* saturating age of the last failure
          res, act, consec, scn

core == <<failures, st, sinceFail>>
vars == <<failures, st, sinceFail, res, act, consec, scn>>
SatF == Timeout + 1
Min(a, b) == IF a < b THEN a ELSE b

Init == /\ failures = 0 /\ st = "closed" /\ sinceFail = SatF
        /\ res = "none" /\ act = "Init" /\ consec = 0 /\ scn = <<>>

Ask == /\ act' = "Ask"
       /\ IF st = "open" /\ sinceFail > Timeout
            THEN st' = "half" /\ res' = "admit"
            ELSE st' = st /\ res' = (IF st = "open" THEN "refuse" ELSE "admit")
       /\ UNCHANGED <<failures, sinceFail, consec>>

Fail == /\ act' = "Fail"
        /\ failures' = Min(failures + 1, Threshold)
        /\ sinceFail' = 0
        /\ st' = IF failures' >= Threshold THEN "open" ELSE st
        /\ consec' = Min(consec + 1, Threshold)
        /\ res' = "none"

Succ == /\ act' = "Succ"
        /\ failures' = 0 /\ st' = "closed" /\ consec' = 0 /\ res' = "none"
        /\ UNCHANGED sinceFail

Tick(d) == /\ act' = "Tick"
           /\ sinceFail' = Min(sinceFail + d, SatF)
           /\ res' = "none"
           /\ UNCHANGED <<failures, st, consec>>

Log(tok) == scn' = Append(scn, tok)
Next == \/ Ask /\ Log("Ask")
        \/ Fail /\ Log("Fail")
        \/ Succ /\ Log("Succ")
        \/ \E d \in Ticks : Tick(d) /\ Log(<<"Tick", d>>)
Spec == Init /\ [][Next]_vars

\* n overlapping IsOpen() calls. Closed or half-open: everyone passes. Open, timeout not elapsed: nobody.
\* Open with the timeout elapsed: the caller that moves the breaker to half-open passes and so does everyone
\* who comes after it; a caller that loaded "open" and lost the move is refused -- C08 fixes no number of
\* probes for this breaker, so any count from 1 to n is the admitted behaviour (lo/hi bounds).
RaceSizes == {2, 6}
RaceLo(n) == IF st = "open" THEN (IF sinceFail > Timeout THEN 1 ELSE 0) ELSE n
RaceHi(n) == IF st = "open" /\ sinceFail <= Timeout THEN 0 ELSE n
Race(n) == /\ act' = "Race" /\ res' = "none"
           /\ st' = IF st = "open" /\ sinceFail > Timeout THEN "half" ELSE st
           /\ UNCHANGED <<failures, sinceFail, consec>>
NextR == Next \/ \E n \in RaceSizes : Race(n) /\ Log(<<"Race", n>>)
SpecR == Init /\ [][NextR]_vars

-----------------------------------------------------------------------------
(* Property C08, engine breaker *)
OpensOnlyAfterThreshold == [][(st = "closed" /\ st' = "open") => consec' >= Threshold]_vars
HoldsWhileOpen == [][(act' = "Ask" /\ st = "open" /\ sinceFail <= Timeout) => res' = "refuse"]_vars
ProbeAdmitted  == [][(act' = "Ask" /\ st = "open" /\ sinceFail > Timeout) => res' = "admit"]_vars
HalfAdmits     == [][(act' = "Ask" /\ st = "half") => res' = "admit"]_vars
SuccCloses     == [][act' = "Succ" => st' = "closed" /\ failures' = 0]_vars
FailReopens    == [][(act' = "Fail" /\ st \in {"half", "open"}) => st' = "open" /\ sinceFail' = 0]_vars
ClosedAdmits   == [][(act' = "Ask" /\ st = "closed") => res' = "admit"]_vars
TypeOK == /\ failures \in 0..Threshold /\ st \in {"closed", "open", "half"} /\ sinceFail \in 0..SatF
          /\ (st # "closed" => failures >= Threshold) /\ (st = "closed" => failures < Threshold)

GenConstraint == Len(scn) <= MaxLen
Export == Len(scn) = MaxLen => PrintT(<<"SCN", ToJson(scn)>>)
View == core

WorksNext == \/ (res # "admit" /\ Ask /\ UNCHANGED scn)
             \/ (res = "admit" /\ Succ /\ UNCHANGED scn)
             \/ (res # "admit" /\ \E d \in Ticks : Tick(d) /\ UNCHANGED scn)
WorksSpec == TypeOK /\ res = "none" /\ act = "Init" /\ consec = 0 /\ scn = <<>>
             /\ [][WorksNext]_vars /\ WF_vars(WorksNext)
             /\ \A d \in Ticks : SF_vars(res # "admit" /\ Tick(d) /\ UNCHANGED scn)
             /\ SF_vars(res # "admit" /\ Ask /\ UNCHANGED scn)
EventuallyClosed == <>[](st = "closed")
=============================================================================
