CONSTANTS EP = {"e1", "e2", "e3"}  Prefixes = {}  Types = {}
CONSTANT KnownDeviations = ${KnownDeviations}
CONSTANT Focus = FALSE
CONSTANT Strats = {"plain"}
CONSTANT FlipFocus = FALSE
CONSTANT DropFocus = FALSE
CONSTANT AllowedChoices = {{}}
SPECIFICATION TraceSpec
CONSTRAINT HW
INVARIANT StaysInside
POSTCONDITION Accepted
CHECK_DEADLOCK FALSE
