-------------------------------- MODULE Olla --------------------------------
(***************************************************************************)
(* The assembled server as ONE state machine: what the other modules       *)
(* specify piecewise (health state of endpoints -- HealthSched; the model   *)
(* catalogue -- Registry; provider scoping -- Provider; model routing --    *)
(* Routing; attempts and failover -- Dispatch) composed at the grain of     *)
(* their interactions.                                                      *)
(*                                                                         *)
(* The world (environment):                                                *)
(*   up[e]      "up" (answers everything), "sick" (serves requests but its  *)
(*              health endpoint says 503) or "down" (refuses connections)  *)
(*   lists[e]   the models the backend would list if asked                  *)
(* olla's knowledge:                                                       *)
(*   status[e]  "healthy" | "unhealthy" | "offline"  (endpoint repository)  *)
(*   known[e]   the models of e's most recent successful listing            *)
(* They are brought together by                                            *)
(*   Health     a health round: status follows `up`; an endpoint that       *)
(*              RECOVERS (offline -> healthy) is re-discovered: known       *)
(*              follows `lists` (C07's recovery clause + C10)               *)
(*   Request    strict model routing inside the route's provider scope:     *)
(*              candidates = healthy /\ kind allowed /\ model known (C03,   *)
(*              C09, C11); candidates are tried one after another: a        *)
(*              refusing one is marked offline and the next is tried (C04); *)
(*              the first that answers serves the request (C02); with no    *)
(*              candidate, or none answering, the client gets an error and  *)
(*              nobody else is contacted (C05, C11).                        *)
(*                                                                         *)
(* Growth of the specification (DESIGN.md section 16, id X03): bound to the *)
(* assembled server by seeded simulation walks replayed through the full    *)
(* stack, every observable step validated by OllaTrace.                     *)
(***************************************************************************)
EXTENDS Naturals, Sequences, FiniteSets, TLC, Json

CONSTANTS EP,         \* endpoint names
          Models,     \* model names backends may list
          Ask,        \* model names requests may ask for (a superset: some are listed nowhere)
          Kinds,      \* endpoint kinds (profile types)
          Routes,     \* route families: "proxy" (any kind) or a provider prefix (= a kind)
          Ops,        \* the kinds of step a generated walk may take (a filter inside Next: walks can be focused)
          MaxLen

VARIABLES kind,       \* [EP -> Kinds]            scenario constant
          cfg,        \* [engine, lb, prio]: the configured proxy engine and balancer, the endpoints' priorities (scenario
                      \* constant).  Both engines take the same steps at this grain -- that is part of the claim.
          up, lists,  \* the world
          status, known,
          hb,         \* [EP -> 0..HBThreshold]: consecutive failed health probes (the health checker's breaker, C08)
          req,        \* the request in flight: [route, model, cands, tried, phase, served] or NoReq
          cnt,        \* [EP -> [ok, fail]]: attempts booked per endpoint (C19)
          act, scn
vars == <<kind, cfg, up, lists, status, known, hb, req, cnt, act, scn>>

NoReq == [route |-> "", model |-> "", cands |-> {}, tried |-> {}, phase |-> "none", served |-> "none"]
\* "proxy" and the translated Anthropic route take any kind; a provider prefix only its own
Allowed(route, e) == route \in {"proxy", "anthropic"} \/ kind[e] = route
\* kinds whose profile declares native support for the Anthropic Messages API (C14): a request on the Anthropic
\* route reaches such a backend untranslated on /v1/messages, any other backend translated on the OpenAI chat path
Native == {"ollama"}     \* (of the kinds the system model explores: ollama declares it, sglang does not)
PathAt(route, e) == IF route = "anthropic" /\ kind[e] \in Native THEN "/v1/messages" ELSE "/v1/chat/completions"

Balancers == {"round-robin", "priority", "least-connections"}
Init == /\ kind \in [EP -> Kinds]
        /\ cfg \in [engine : {"sherpa", "olla"}, lb : Balancers, prio : [EP -> 1..2]]
        /\ up = [e \in EP |-> "up"]
        /\ lists \in [EP -> SUBSET Models]
        \* the server has booted: every endpoint was probed and listed once
        /\ status = [e \in EP |-> "healthy"] /\ known = lists
        /\ hb = [e \in EP |-> 0]
        /\ req = NoReq /\ act = "Init" /\ cnt = [e \in EP |-> [ok |-> 0, fail |-> 0]]
        /\ scn = <<[op |-> "boot", kind |-> kind, lists |-> lists, engine |-> cfg.engine, lb |-> cfg.lb, prio |-> cfg.prio]>>

Idle == req.phase = "none"

(* ---- the world ---- *)
SetUp(e, b) == /\ Idle /\ act' = "SetUp" /\ up[e] # b /\ up' = [up EXCEPT ![e] = b]   \* b \in Modes
               /\ UNCHANGED <<kind, cfg, lists, status, known, hb, req, cnt>>
Relist(e, S) == /\ Idle /\ act' = "Relist" /\ lists[e] # S /\ lists' = [lists EXCEPT ![e] = S]
                /\ UNCHANGED <<kind, cfg, up, status, known, hb, req, cnt>>

(* ---- a health round ---- *)
\* Every probe that does not say "healthy" counts against the endpoint's health breaker; at HBThreshold in a row
\* the breaker is open and -- for its 30 s window, longer than a scenario -- the endpoint is not probed at all:
\* it is reported offline whatever the world says, and cannot recover.
HBThreshold == 3
Probed(e) == hb[e] < HBThreshold
Health == /\ Idle /\ act' = "Health"
          /\ status' = [e \in EP |-> CASE ~Probed(e) -> "offline"
                                        [] up[e] = "up" -> "healthy" [] up[e] = "sick" -> "unhealthy" [] OTHER -> "offline"]
          /\ hb' = [e \in EP |-> IF ~Probed(e) THEN hb[e] ELSE IF up[e] = "up" THEN 0 ELSE hb[e] + 1]
          /\ known' = [e \in EP |-> IF Probed(e) /\ up[e] = "up" /\ status[e] # "healthy" THEN lists[e] ELSE known[e]]
          /\ UNCHANGED <<kind, cfg, up, lists, req, cnt>>

(* ---- a request ---- *)
\* On the Anthropic route a request is passed through when at least one candidate speaks the Messages API itself,
\* and then ONLY such candidates are tried (olla does not fall back to translation when they all fail: C14's
\* "chosen correctly and never mixed up"); without one, every candidate gets the translated request.
Cands(route, m) == LET base == {e \in EP : status[e] = "healthy" /\ Allowed(route, e) /\ m \in known[e]}
                       nat  == {e \in base : kind[e] \in Native}
                   IN  IF route = "anthropic" /\ nat # {} THEN nat ELSE base
Arrive(route, m) == /\ Idle /\ act' = "Arrive"
                    /\ req' = [route |-> route, model |-> m, cands |-> Cands(route, m), tried |-> {},
                               phase |-> "choosing", served |-> "none"]
                    /\ UNCHANGED <<kind, cfg, up, lists, status, known, hb, cnt>>
\* one attempt on a candidate not tried yet.  Under the priority balancer every attempt -- the first and each
\* failover -- goes to the highest priority tier of what is left (C06 inside the composition); the other balancers
\* may take any remaining candidate.
Left == req.cands \ req.tried
Pick(e) == e \in Left /\ (cfg.lb = "priority" => \A x \in Left : cfg.prio[x] <= cfg.prio[e])
Attempt(e) == /\ req.phase = "choosing" /\ Pick(e) /\ act' = "Attempt"
              /\ IF up[e] # "down"
                 THEN /\ req' = [req EXCEPT !.tried = @ \cup {e}, !.phase = "served", !.served = e] /\ UNCHANGED status
                      /\ cnt' = [cnt EXCEPT ![e].ok = @ + 1]                 \* every attempt is booked exactly once
                 ELSE /\ req' = [req EXCEPT !.tried = @ \cup {e}]
                      /\ status' = [status EXCEPT ![e] = "offline"]          \* out of rotation until readmitted
                      /\ cnt' = [cnt EXCEPT ![e].fail = @ + 1]
              /\ UNCHANGED <<kind, cfg, up, lists, known, hb>>
\* the client has its answer
Answer == /\ req.phase \in {"choosing", "served"} /\ act' = "Answer"
          /\ (req.phase = "choosing" => req.cands \subseteq req.tried)       \* an error only when nothing is left
          /\ req' = NoReq
          /\ UNCHANGED <<kind, cfg, up, lists, status, known, hb, cnt>>

\* a model listing under a provider prefix: only models olla knows on endpoints of that kind (C11)
ListOK(route, ms) == ms \subseteq UNION {known[e] : e \in {x \in EP : Allowed(route, x)}}
List(route) == /\ Idle /\ act' = "List" /\ UNCHANGED <<kind, cfg, up, lists, status, known, hb, req, cnt>>

Log(t) == scn' = Append(scn, t)
Modes == {"up", "sick", "down"}
Next == \/ \E e \in EP : \E b \in Modes : "up" \in Ops /\ SetUp(e, b) /\ Log([op |-> "up", e |-> e, b |-> b])
        \/ \E e \in EP : \E S \in SUBSET Models : "relist" \in Ops /\ Relist(e, S) /\ Log([op |-> "relist", e |-> e, S |-> S])
        \/ "health" \in Ops /\ Health /\ Log([op |-> "health"])
        \/ \E r \in Routes : \E m \in Ask : "req" \in Ops /\ Arrive(r, m) /\ Log([op |-> "req", route |-> r, model |-> m])
        \/ \E r \in Routes \ {"proxy", "anthropic"} : "list" \in Ops /\ List(r) /\ Log([op |-> "list", route |-> r])
        \/ \E e \in EP : Attempt(e) /\ UNCHANGED scn
        \/ Answer /\ UNCHANGED scn
Spec == Init /\ [][Next]_vars

-----------------------------------------------------------------------------
(* System-level invariants: what a user relies on, whatever the history *)
TypeOK == /\ hb \in [EP -> 0..HBThreshold] /\ status \in [EP -> {"healthy", "unhealthy", "offline"}] /\ known \in [EP -> SUBSET Models]
          /\ req.tried \subseteq req.cands
\* whoever serves a request was a candidate of it: healthy at arrival, of the route's kind, known to list the model
ServedByCandidate == req.served # "none" => req.served \in req.cands
\* candidates reflect olla's knowledge at arrival (nothing the world did behind olla's back leaks in)
CandsSound == req.phase # "none" => \A e \in req.cands : Allowed(req.route, e) /\ req.model \in known[e]
\* an endpoint found refusing is out of rotation at once
RefusedIsOut == \A e \in req.tried : (e # req.served) => status[e] = "offline"
\* olla's catalogue only ever holds what a backend really listed at some discovery: a model nobody ever listed
\* is never a reason to contact anybody
NeverListedNeverServed == (req.served # "none") => req.model \in Models
\* an endpoint whose health breaker is open is out of rotation: no round while it is open reports it healthy
OpenIsOut == \A e \in EP : hb[e] = HBThreshold => status[e] # "healthy"
\* under the priority balancer nobody is contacted while a strictly higher-priority candidate is still untried
TopTierFirst == cfg.lb = "priority" => \A e \in req.tried : \A x \in req.cands \ req.tried : cfg.prio[x] <= cfg.prio[e]

View == <<kind, cfg, up, lists, status, known, hb, req>>   \* (cnt only grows: left out of the bounded model's view)
GenConstraint == Len(scn) <= MaxLen
SimExport == (Len(scn) = MaxLen /\ Idle) => PrintT(<<"SCN", ToJson(scn)>>)
=============================================================================
