CONSTANTS EP = {"e1", "e2", "e3"}  Models = {}  Widths = {}
CONSTANT KnownDeviations = ${KnownDeviations}
SPECIFICATION TraceSpec
CONSTRAINT HW
POSTCONDITION Accepted
CHECK_DEADLOCK FALSE
