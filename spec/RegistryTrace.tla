---------------------------- MODULE RegistryTrace ----------------------------
(***************************************************************************)
(* Trace refinement of Registry.  The harness drives the real registry     *)
(* (registry.NewModelRegistry, unified and plain variant) through the real *)
(* discovery service and HTTP discovery client with scripted listings,     *)
(* waits until every asynchronous merge it started has run, and dumps the  *)
(* four views after every operation.  Every dump must agree with the       *)
(* reference attribution `last`.                                           *)
(*                                                                         *)
(* Whether an update succeeded is decided by what the ENVIRONMENT did      *)
(* (HTTP 200 + parsable listing = success; anything else = failure), not   *)
(* by what the code returned.                                              *)
(***************************************************************************)
EXTENDS Registry, TraceLib

CONSTANT KnownDeviations
VARIABLES l, variant,
          pend,    \* attributions registered since the last dump (ghost for KF-C10-2)
          regs,    \* <<endpoint, names>> of every registration since the last dump (ghost for KF-C10-5)
          ustore   \* attributions the unifier's own catalogue holds (ghost for KF-C10-4, -5)
tvars == <<vars, l, variant, pend, regs, ustore>>

Is(name) == l <= NEv /\ TLog[l].ev = name
E == TLog[l]
Consume == l' = l + 1 /\ UNCHANGED <<scn, variant>>
Listing(x) == [i \in 1..Len(x) |-> [n |-> x[i].n, d |-> x[i].d]]
FltOf(r) == [inc |-> r.inc, exc |-> r.exc]

TReset == /\ Is("Reset")
          /\ flt' = [e \in Eps |-> FltOf(E.flt[e])]
          /\ last' = [e \in Eps |-> {}] /\ lastN' = [e \in Eps |-> 0] /\ known' = {}
          /\ perEp' = [e \in Eps |-> {}] /\ idx' = {} /\ uni' = {} /\ dirty' = {}
          /\ act' = "Init" /\ variant' = E.variant /\ pend' = {} /\ regs' = {} /\ ustore' = {}
          /\ l' = l + 1 /\ UNCHANGED scn

-----------------------------------------------------------------------------
(* operations: the recorded event is turned into the step S = [endpoints -> op] of Registry   *)
OpEvents == {"Reg", "Fail", "Rm", "Par"}   \* a burst is recorded as two "Reg" without a dump between
ParEps(ops) == {ops[i].e : i \in 1..Len(ops)}
ParOp(o) == IF o.op = "Reg" THEN OpReg(Listing(o.L)) ELSE IF o.op = "Rm" THEN OpRm ELSE OpNone("Fail")
ParS(ops) == [e \in ParEps(ops) |-> ParOp(ops[CHOOSE i \in 1..Len(ops) : ops[i].e = e])]
EvS == CASE E.ev = "Reg"   -> E.e :> OpReg(Listing(E.L))
         [] E.ev = "Fail"  -> E.e :> OpNone("Fail")
         [] E.ev = "Rm"    -> E.e :> OpRm
         [] E.ev = "Par"   -> ParS(E.ops)
EvWellFormed == IF E.ev = "Par"
                THEN Cardinality(ParEps(E.ops)) = Len(E.ops) /\ \A i \in 1..Len(E.ops) : E.ops[i].op \in {"Reg", "Rm", "Fail"}
                ELSE TRUE
Removed(S) == {e \in DOMAIN S : S[e].op = "Rm"}
PendOf(S)  == UNION {Pairs(e, OpNames(e, S[e])) : e \in DOMAIN S}
RegsOf(S)  == {<<e, OpNames(e, S[e])>> : e \in {x \in DOMAIN S : S[x].op \in {"Reg", "Direct"}}}
OpCore == /\ l <= NEv /\ E.ev \in OpEvents /\ EvWellFormed
          /\ DOMAIN EvS \subseteq Eps
          /\ act' = E.ev /\ Apply(EvS)
          /\ pend' = pend \cup PendOf(EvS) /\ regs' = regs \cup RegsOf(EvS)
          /\ Consume
TOp == OpCore /\ ustore' = {p \in ustore : p[2] \notin Removed(EvS)}

\* a removal racing with a successful listing of the same endpoint: one of the two is the later one, for every view
RaceS == {E.e :> OpReg(Listing(E.L)), E.e :> OpRm}
TRace == /\ Is("Race") /\ E.e \in Eps /\ ~E.errRm /\ ~E.errReg
         /\ \E S \in RaceS : /\ act' = "Race" /\ Apply(S)
                              /\ pend' = pend \cup PendOf(S) /\ regs' = regs \cup RegsOf(S)
                              /\ ustore' = {p \in ustore : p[2] \notin Removed(S)}
         /\ Consume

\* a list with a nameless entry pushed through the registry API
TBad  == /\ Is("Bad") /\ E.e \in Eps
         /\ IF E.rejected THEN act' = "Bad" /\ Apply(E.e :> OpNone("Bad")) /\ UNCHANGED <<pend, regs>>
            ELSE LET L == SelectSeq(Listing(E.L), LAMBDA x : x.n # <<>>) IN
                 /\ act' = "Direct" /\ Apply(E.e :> OpDir(L))
                 /\ pend' = pend \cup Pairs(E.e, Names(L)) /\ regs' = regs \cup {<<E.e, Names(L)>>}
         /\ Consume /\ UNCHANGED ustore

-----------------------------------------------------------------------------
(* dumps *)
BaseViewsOK == /\ \A e \in Eps : PerEpOK(e, E.perEp[e]) /\ CountOK(e, E.cnt[e])
               /\ E.cntExtra = 0
               /\ TotalModelsOK(E.totM) /\ TotalEpsOK(E.totE)
\* base index alone, then the registry's own answer (which, for the unified registry, may also
\* consult the unified catalogue U = the model catalogue after this quiescence, and the unifier)
LookupsOK(U) == \A i \in 1..Len(E.look) :
                   LET k == E.look[i] IN
                   /\ Range(k.base) \subseteq Eps /\ Range(k.eps) \subseteq Eps
                   /\ LookupBaseOK(k.m, Range(k.base))
                   /\ AvailOK(k.m, k.availBase, idx, idx)
                   /\ LookupOK(k.m, Range(k.eps), idx \cap AllPairs, idx \cup U \cup ustore')
                   /\ AvailOK(k.m, k.avail, idx \cap AllPairs, idx \cup U \cup ustore')
UnifiedOK(U) == E.hasUni => UComplete(E.uni) /\ USound(E.uni, U)

\* mo / rs: the two known-finding variants of the merge (both FALSE = the specified merge)
StrictUni     == {p \in uni : p[2] \notin dirty} \cup UNION {Pairs(e, last[e]) : e \in dirty}
MergeOnlyUni  == uni \cup pend
Resurrected   == {p \in ustore : p[1] \notin last[p[2]] /\ \E r \in pend : LowerS(r[1]) = LowerS(p[1])}
QuiesceWith(mo, rs) ==
    /\ uni' = (IF mo THEN MergeOnlyUni ELSE StrictUni) \cup (IF rs THEN Resurrected ELSE {})
    /\ dirty' = {}
    /\ UNCHANGED <<flt, last, lastN, known, perEp, idx>>
\* which of its registrations since the last dump the unifier ends up with, per dirty endpoint
InOrder == [e \in dirty |-> last[e]]
Orders  == {f \in [dirty -> {r[2] : r \in regs}] : \A e \in dirty : <<e, f[e]>> \in regs}
DumpWith(mo, rs, ord) ==
    /\ Is("Dump") /\ E.quiet
    /\ QuiesceWith(mo, rs) /\ act' = "Dump" /\ pend' = {} /\ regs' = {}
    /\ ustore' = {p \in ustore : p[2] \notin dirty} \cup UNION {Pairs(e, ord[e]) : e \in dirty}
    /\ BaseViewsOK /\ LookupsOK(uni') /\ UnifiedOK(uni')
    /\ Consume
TDump == DumpWith(FALSE, FALSE, InOrder)

-----------------------------------------------------------------------------
(* Known findings (each only if listed in KnownDeviations)                                     *)

(* KF-C10-1: MemoryModelRegistry.RegisterModels removes the endpoint from the model index      *)
(* BEFORE it validates the new list, and indexes the entries that precede the nameless one.    *)
(* A rejected update therefore leaves per-endpoint listing and counts intact but corrupts the  *)
(* model -> endpoints lookup: the endpoint's current models are no longer found, the rejected  *)
(* list's leading entries are.  (Later updates only un-index what the per-endpoint listing     *)
(* names -- which is how Registry!Apply is written -- so the wrong entries persist.)           *)
FirstNameless(L) == CHOOSE i \in 1..Len(L) : L[i].n = <<>> /\ \A j \in 1..(i - 1) : L[j].n # <<>>
KF_C10_1 == /\ "KF-C10-1" \in KnownDeviations
            /\ Is("Bad") /\ E.e \in Eps /\ E.rejected /\ HasNameless(Listing(E.L))
            /\ act' = "Bad"
            /\ LET L == Listing(E.L) IN
               idx' = (idx \ Pairs(E.e, perEp[E.e])) \cup Pairs(E.e, Names(SubSeq(L, 1, FirstNameless(L) - 1)))
            /\ idx' # idx
            /\ UNCHANGED <<flt, last, lastN, known, perEp, uni, dirty, pend, regs, ustore>>
            /\ Consume /\ UseDeviation("KF-C10-1")

(* KF-C10-2: the unified registry merges a new listing INTO the existing global entries        *)
(* (unifyModelsAsync: group + MergeUnifiedModels with the stored entry) and never removes the  *)
(* endpoint from entries of models it no longer lists; only RemoveEndpoint does.  The merge    *)
(* is add-only: everything registered since the last dump is added, nothing is dropped.        *)
(*                                                                                             *)
(* KF-C10-4: UnifiedMemoryModelRegistry.RemoveEndpoint cleans the global unified entries but   *)
(* never tells the unifier, whose own catalogue (ustore) keeps the removed endpoint's models.  *)
(* (a) the registry's IsModelAvailable / GetEndpointsForModel fall back to that catalogue      *)
(* (GetUnifiedModel -> unifier.ResolveAlias) and keep finding them; (b) the next merge of a    *)
(* model with the same (case-folded) name copies the unifier's entry -- removed endpoint       *)
(* included -- back into the global catalogue.                                                 *)
(*                                                                                             *)
(* KF-C10-5: every RegisterModels starts its own merge goroutine; nothing orders the merges    *)
(* of two successive listings of one endpoint, so the unifier's catalogue can end up with the  *)
(* OLDER listing (any registration since the previous quiescence, instead of the last).        *)
Listed(id) == id \in KnownDeviations /\ variant = "unified"
KF_Dump == \E mo \in (IF Listed("KF-C10-2") THEN BOOLEAN ELSE {FALSE}) :
           \E rs \in (IF Listed("KF-C10-4") THEN BOOLEAN ELSE {FALSE}) :
           \E ord \in (IF Listed("KF-C10-5") THEN Orders ELSE {InOrder}) :
              /\ mo \/ rs \/ ord # InOrder
              /\ mo => MergeOnlyUni # StrictUni
              /\ rs => Resurrected # {}
              /\ DumpWith(mo, rs, ord)
              /\ mo => UseDeviation("KF-C10-2")
              /\ rs => UseDeviation("KF-C10-4")
              /\ ord # InOrder => UseDeviation("KF-C10-5")
KF_C10_4 == /\ Listed("KF-C10-4")
            /\ OpCore /\ \E p \in ustore : p[2] \in Removed(EvS)
            /\ UNCHANGED ustore /\ UseDeviation("KF-C10-4")

TraceInit == /\ flt = [e \in Eps |-> NoFilter]
             /\ last = [e \in Eps |-> {}] /\ lastN = [e \in Eps |-> 0] /\ known = {}
             /\ perEp = [e \in Eps |-> {}] /\ idx = {} /\ uni = {} /\ dirty = {}
             /\ act = "Init" /\ scn = <<>> /\ l = 1 /\ variant = "none" /\ pend = {} /\ regs = {} /\ ustore = {}
TraceNext == TReset \/ TOp \/ TRace \/ TBad \/ TDump \/ KF_C10_1 \/ KF_Dump \/ KF_C10_4
TraceSpec == TraceInit /\ [][TraceNext]_tvars
HW == HWMark(l)

\* the clause "a rejected or failed update leaves the previous attribution intact" on the reference
RejectedKeepsRef == [][act' \in {"Bad", "Fail"} => UNCHANGED <<last, lastN, perEp, uni>>]_tvars
=============================================================================
