---------------------------- MODULE RegistryTrace ----------------------------
(***************************************************************************)
(* Trace refinement of Registry.  The harness drives the real registry     *)
(* (unified and plain variant) through the real discovery service with     *)
(* scripted HTTP listings, waits until every asynchronous merge it started *)
(* has run, and dumps the four views after every operation.  Every dump    *)
(* must agree with the reference attribution `last`.                       *)
(*                                                                         *)
(* Whether an update succeeded is decided by what the ENVIRONMENT did      *)
(* (HTTP 200 + parsable listing = success; anything else = failure), not   *)
(* by what the code returned.                                              *)
(***************************************************************************)
EXTENDS Registry, TraceLib

CONSTANT KnownDeviations
VARIABLES l, variant
tvars == <<vars, l, variant>>

Is(name) == l <= NEv /\ TLog[l].ev = name
E == TLog[l]
Consume == l' = l + 1 /\ UNCHANGED <<scn, variant>>
Listing(x) == [i \in 1..Len(x) |-> [n |-> x[i].n, d |-> x[i].d]]
FltOf(r) == [inc |-> r.inc, exc |-> r.exc]

TReset == /\ Is("Reset")
          /\ flt' = [e \in Eps |-> FltOf(E.flt[e])]
          /\ last' = [e \in Eps |-> {}] /\ lastN' = [e \in Eps |-> 0] /\ known' = {}
          /\ perEp' = [e \in Eps |-> {}] /\ idx' = {} /\ uni' = {} /\ dirty' = {}
          /\ act' = "Init" /\ variant' = E.variant
          /\ l' = l + 1 /\ UNCHANGED scn

\* the model's own views follow the reference; the observed ones are compared in TDump
TReg  == Is("Reg") /\ E.e \in Eps /\ act' = "Reg" /\ Accept(E.e, Kept(Listing(E.L), flt[E.e])) /\ Consume
TBad  == /\ Is("Bad") /\ E.e \in Eps
         /\ IF E.rejected THEN act' = "Bad" /\ UNCHANGED core
            ELSE RegisterDirect(E.e, SelectSeq(Listing(E.L), LAMBDA x : x.n # <<>>))
         /\ Consume
TFail == Is("Fail") /\ E.e \in Eps /\ act' = "Fail" /\ UNCHANGED core /\ Consume
TRm   == /\ Is("Rm") /\ E.e \in Eps /\ act' = "Rm"
         /\ last'  = [last  EXCEPT ![E.e] = {}] /\ lastN' = [lastN EXCEPT ![E.e] = 0]
         /\ known' = known \ {E.e}
         /\ perEp' = [perEp EXCEPT ![E.e] = {}]
         /\ idx' = idx \ Pairs(E.e, perEp[E.e]) /\ uni' = NotOf(uni, E.e)
         /\ UNCHANGED <<flt, dirty>>
         /\ Consume

BaseViewsOK == /\ \A e \in Eps : PerEpOK(e, E.perEp[e]) /\ CountOK(e, E.cnt[e])
               /\ E.cntExtra = 0
               /\ TotalModelsOK(E.totM) /\ TotalEpsOK(E.totE)
\* base index alone, then the registry's own answer (which, for the unified registry, may also
\* consult the unified catalogue U = the model catalogue after this quiescence)
LookupsOK(U) == \A i \in 1..Len(E.look) :
                   LET k == E.look[i] IN
                   /\ Range(k.base) \subseteq Eps /\ Range(k.eps) \subseteq Eps
                   /\ LookupBaseOK(k.m, Range(k.base))
                   /\ AvailOK(k.m, k.availBase, idx, idx)
                   /\ LookupOK(k.m, Range(k.eps), idx \cap AllPairs, idx \cup U)
                   /\ AvailOK(k.m, k.avail, idx \cap AllPairs, idx \cup U)
UnifiedOK(U) == E.hasUni => UComplete(E.uni) /\ USound(E.uni, U)

DumpWith(Q) == /\ Is("Dump") /\ E.quiet
               /\ Q /\ act' = "Dump"
               /\ BaseViewsOK /\ LookupsOK(uni') /\ UnifiedOK(uni')
               /\ Consume
TDump == DumpWith(Quiesce)

-----------------------------------------------------------------------------
(* Known findings (each only if listed in KnownDeviations)                                     *)

(* KF-C10-1: MemoryModelRegistry.RegisterModels removes the endpoint from the model index      *)
(* BEFORE it validates the new list, and indexes the entries that precede the nameless one.    *)
(* A rejected update therefore leaves per-endpoint listing and counts intact but corrupts the  *)
(* model -> endpoints lookup: the endpoint's current models are no longer found, the rejected  *)
(* list's leading entries are.  (Later updates only un-index what the per-endpoint listing     *)
(* names, which is how Registry!Accept / Remove are written, so the wrong entries persist.)    *)
FirstNameless(L) == CHOOSE i \in 1..Len(L) : L[i].n = <<>> /\ \A j \in 1..(i - 1) : L[j].n # <<>>
KF_C10_1 == /\ "KF-C10-1" \in KnownDeviations
            /\ Is("Bad") /\ E.e \in Eps /\ E.rejected /\ HasNameless(Listing(E.L))
            /\ act' = "Bad"
            /\ LET L == Listing(E.L) IN
               idx' = (idx \ Pairs(E.e, perEp[E.e])) \cup Pairs(E.e, Names(SubSeq(L, 1, FirstNameless(L) - 1)))
            /\ idx' # idx
            /\ UNCHANGED <<flt, last, lastN, known, perEp, uni, dirty>>
            /\ Consume /\ UseDeviation("KF-C10-1")

(* KF-C10-2: the unified registry merges a new listing INTO the existing global entries        *)
(* (unifyModelsAsync: group + MergeUnifiedModels with the stored entry) and never removes the  *)
(* endpoint from entries of models it no longer lists; only RemoveEndpoint does.  The merge    *)
(* is therefore add-only.                                                                      *)
MergeOnlyQuiesce == /\ uni' = uni \cup UNION {Pairs(e, last[e]) : e \in dirty}
                    /\ dirty' = {}
                    /\ UNCHANGED <<flt, last, lastN, known, perEp, idx>>
KF_C10_2 == /\ "KF-C10-2" \in KnownDeviations /\ variant = "unified"
            /\ \E p \in uni : p[2] \in dirty /\ p[1] \notin last[p[2]]
            /\ DumpWith(MergeOnlyQuiesce)
            /\ UseDeviation("KF-C10-2")

TraceInit == /\ flt = [e \in Eps |-> NoFilter]
             /\ last = [e \in Eps |-> {}] /\ lastN = [e \in Eps |-> 0] /\ known = {}
             /\ perEp = [e \in Eps |-> {}] /\ idx = {} /\ uni = {} /\ dirty = {}
             /\ act = "Init" /\ scn = <<>> /\ l = 1 /\ variant = "none"
TraceNext == TReset \/ TReg \/ TBad \/ TFail \/ TRm \/ TDump \/ KF_C10_1 \/ KF_C10_2

\* the clause "a rejected or failed update leaves the previous attribution intact" on the reference
RejectedKeepsRef == [][act' \in {"Bad", "Fail"} => UNCHANGED <<last, lastN, perEp, uni>>]_tvars
TraceSpec == TraceInit /\ [][TraceNext]_tvars
HW == HWMark(l)
=============================================================================
