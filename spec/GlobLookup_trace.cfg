CONSTANTS Names = {}  Configs = {}  Strides = {}  MaxLen = 0
CONSTANT KnownDeviations = ${KnownDeviations}
SPECIFICATION TraceSpec
CONSTRAINT HW
INVARIANTS Inv_C10f Inv_Answer ExcludeWins EmptyIncludeAll
POSTCONDITION Accepted
CHECK_DEADLOCK FALSE
