CONSTANTS CIs = ${CIs}  Outcomes = ${Outcomes}  Ticks = ${Ticks}
          MaxBackoff = 60  MaxMult = 12  CapCF = 7  CapCB = 1000
CONSTANTS ReachLen = ${ReachLen}  SufLen = ${SufLen}
SPECIFICATION GSimSpec
INVARIANT GExportSim
CHECK_DEADLOCK FALSE
