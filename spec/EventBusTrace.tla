---------------------------- MODULE EventBusTrace ----------------------------
(* Trace refinement of EventBus: the calls recorded on the real eventbus.EventBus[int] and their results *)
EXTENDS EventBus, TraceLib
CONSTANT KnownDeviations
VARIABLE l
tvars == <<vars, l>>
E == TLog[l]
Is(name) == l <= NEv /\ TLog[l].ev = name
Consume == l' = l + 1 /\ UNCHANGED scn

TReset == /\ Is("Reset")
          /\ active' = {} /\ everSub' = {} /\ queue' = [s \in Subs |-> <<>>] /\ dropped' = [s \in Subs |-> 0]
          /\ down' = FALSE /\ next' = 1 /\ res' = "none" /\ act' = "Init" /\ Consume
TSubscribe   == Is("Subscribe") /\ E.s \in Subs /\ Subscribe(E.s) /\ res' = E.res /\ Consume
TUnsubscribe == Is("Unsubscribe") /\ E.s \in Subs /\ Unsubscribe(E.s) /\ Consume
TPublish     == Is("Publish") /\ E.n = next /\ Publish /\ res' = E.res /\ Consume
TRecv        == Is("Recv") /\ E.s \in Subs /\ Recv(E.s) /\ res' = E.res /\ Consume
TShutdown    == Is("Shutdown") /\ Shutdown /\ Consume
TStats       == Is("Stats") /\ Stats /\ res'.subs = E.subs /\ res'.drops = E.drops /\ res'.down = E.down /\ Consume
TraceInit == Init /\ l = 1
TraceNext == TReset \/ TSubscribe \/ TUnsubscribe \/ TPublish \/ TRecv \/ TShutdown \/ TStats
TraceSpec == TraceInit /\ [][TraceNext]_tvars
HW == HWMark(l)
=============================================================================
