--------------------------- MODULE GlobLookupTrace ---------------------------
(* Every recorded filter lookup (GlobFilter.Matches, or GlobFilter.Apply on a one-item list)  *)
(* on one filter instance must give the answer Glob!Passes gives -- whatever was asked before. *)
EXTENDS GlobLookup, TraceLib
CONSTANT KnownDeviations
VARIABLES l,
          memo    \* ghost for KF-C10-3: what the code has memoised, a function key -> answer
tvars == <<vars, l, memo>>
Is(name) == l <= NEv /\ TLog[l].ev = name
E == TLog[l]
Q == [n |-> E.n, inc |-> E.inc, exc |-> E.exc]

(* the code's evaluation order with its memo: include patterns in order until one matches     *)
(* (skipped when the include list is empty or holds "*"), then exclude patterns until one      *)
(* matches; every pattern test goes through the memo under the key  name ++ "::" ++ pattern.   *)
Key(n, p) == n \o <<":", ":">> \o p
RECURSIVE AnyMatch(_, _, _, _)
AnyMatch(n, ps, i, mm) ==
    IF i > Len(ps) THEN [hit |-> FALSE, memo |-> mm]
    ELSE LET k  == Key(n, ps[i])
             kn == k \in DOMAIN mm
             v  == IF kn THEN mm[k] ELSE MatchGlob(n, ps[i])
             m2 == IF kn THEN mm ELSE (k :> v) @@ mm
         IN  IF v THEN [hit |-> TRUE, memo |-> m2] ELSE AnyMatch(n, ps, i + 1, m2)
MemoPasses(x, mm) ==
    LET incAll == x.inc = <<>> \/ \E i \in 1..Len(x.inc) : x.inc[i] = <<"*">>
        r1 == IF incAll THEN [hit |-> TRUE, memo |-> mm] ELSE AnyMatch(x.n, x.inc, 1, mm)
    IN  IF ~r1.hit THEN [res |-> FALSE, memo |-> r1.memo]
        ELSE LET r2 == AnyMatch(x.n, x.exc, 1, r1.memo) IN [res |-> ~r2.hit, memo |-> r2.memo]

TReset == /\ Is("Reset") /\ q' = [n |-> <<>>, inc |-> <<>>, exc |-> <<>>] /\ res' = TRUE /\ asked' = {}
          /\ act' = "Init" /\ memo' = <<>> /\ l' = l + 1 /\ UNCHANGED scn
TLookup == /\ Is("Lookup")
           /\ act' = "Lookup" /\ q' = Q /\ res' = Answer(Q) /\ res' = E.res
           /\ UNCHANGED asked      \* (the answer is compared with the function of its arguments directly)
           /\ memo' = MemoPasses(Q, memo).memo
           /\ l' = l + 1 /\ UNCHANGED scn

(* KF-C10-3: GlobFilter.matchesPattern memoises under the non-injective key                    *)
(* name + "::" + pattern, so (name "a", pattern "b::a*") and (name "a::b", pattern "a*") share *)
(* one memo slot; the later lookup gets the earlier one's answer.  The deviation explains a    *)
(* wrong answer only if it is exactly what that memo yields.                                   *)
KF_C10_3 == /\ "KF-C10-3" \in KnownDeviations
            /\ Is("Lookup")
            /\ E.res # Answer(Q) /\ E.res = MemoPasses(Q, memo).res
            /\ act' = "Memo" /\ q' = Q /\ res' = E.res
            /\ UNCHANGED asked
            /\ memo' = MemoPasses(Q, memo).memo
            /\ l' = l + 1 /\ UNCHANGED scn
            /\ UseDeviation("KF-C10-3")

TraceInit == Init /\ l = 1 /\ memo = <<>>
TraceNext == TReset \/ TLookup \/ KF_C10_3
TraceSpec == TraceInit /\ [][TraceNext]_tvars
HW == HWMark(l)
=============================================================================
