----------------------------- MODULE AdmissionGen -----------------------------
(* scenario grid for Admission: rate scenarios (who sends how) and size scenarios *)
EXTENDS Naturals, Sequences, TLC, Json
CONSTANTS Rates, Bursts, Behaviours, Sizes, LenModes, Routes, Kinds,
          Globals   \* global requests-per-minute settings explored next to the per-IP one (0 = no global limit)
VARIABLE scn
Init == \/ /\ "rate" \in Kinds
           /\ \E r \in Rates : \E b \in Bursts : \E bh \in Behaviours : \E g \in Globals :
                 scn = [kind |-> "rate", rate |-> r, burst |-> b, behaviour |-> bh, global |-> g]
        \/ /\ "bucket" \in Kinds
           /\ \E r \in Rates : \E b \in Bursts : \E k \in 1..3 :
                 scn = [kind |-> "bucket", rate |-> r, burst |-> b, rolls |-> k]
        \/ /\ "size" \in Kinds
           /\ \E s \in Sizes : \E m \in LenModes : \E rt \in Routes :
                 scn = [kind |-> "size", size |-> s, lenmode |-> m, route |-> rt]
\* (the "bucket" kind: component-level limiter across window roll-overs)
Next == FALSE /\ UNCHANGED scn
Export == PrintT(<<"SCN", ToJson(scn)>>)
=============================================================================
