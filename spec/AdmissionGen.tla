----------------------------- MODULE AdmissionGen -----------------------------
(* scenario grid for Admission: rate scenarios (who sends how) and size scenarios *)
EXTENDS Naturals, Sequences, TLC, Json
CONSTANTS Rates, Bursts, Behaviours, Sizes, LenModes, Routes, Kinds
VARIABLE scn
Init == \/ /\ "rate" \in Kinds
           /\ \E r \in Rates : \E b \in Bursts : \E bh \in Behaviours :
                 scn = [kind |-> "rate", rate |-> r, burst |-> b, behaviour |-> bh]
        \/ /\ "size" \in Kinds
           /\ \E s \in Sizes : \E m \in LenModes : \E rt \in Routes :
                 scn = [kind |-> "size", size |-> s, lenmode |-> m, route |-> rt]
Next == FALSE /\ UNCHANGED scn
Export == PrintT(<<"SCN", ToJson(scn)>>)
=============================================================================
