CONSTANTS
  Alphabet = ${Alphabet}
  Plain = {"a", "b"}
  MaxLen = ${MaxLen}
  BaseIds = ${BaseIds}
  Preserves = ${Preserves}
  Rels = ${Rels}
  Prefixes = ${Prefixes}
  Forms = ${Forms}
  Queries = ${Queries}
  Engines = ${Engines}
  Kinds = ${Kinds}
SPECIFICATION GenSpec
INVARIANT Export
CHECK_DEADLOCK FALSE
