CONSTANTS Threshold = 5  Timeout = 300  Ticks = {3, 301}  MaxLen = 0
SPECIFICATION SpecR
VIEW View
INVARIANT TypeOK
PROPERTIES OpensOnlyAfterThreshold HoldsWhileOpen ProbeAdmitted HalfAdmits SuccCloses FailReopens ClosedAdmits
CHECK_DEADLOCK FALSE
