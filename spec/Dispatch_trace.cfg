CONSTANTS EP = {"e1", "e2", "e3", "e4"}  REQ = {}  Kinds = {}  EBThreshold = 5  Engines = {"sherpa", "olla"}
CONSTANT KnownDeviations = ${KnownDeviations}
CONSTANT Scopes = ${Scopes}
SPECIFICATION TraceSpec
CONSTRAINT HW
INVARIANTS GaugeExact AtMostOnce FailOnlyWhenExhausted Conserved
PROPERTIES NoRedispatch
POSTCONDITION Accepted
CHECK_DEADLOCK FALSE
