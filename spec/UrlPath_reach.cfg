CONSTANTS
  Alphabet = {"a", "b", "", "%2e%2e", "..%2f"}
  Plain = {"a", "b"}
  MaxLen = 2
  BaseIds = {"none", "root", "base", "nested", "bquery", "nquery"}
  Preserves = {TRUE, FALSE}
  Rels = {"slash"}
  Prefixes = {"/olla/proxy/"}
  Forms = {"origin"}
  Queries = {""}
  Engines = {"olla"}
  Kinds = {"cfg", "req"}
SPECIFICATION Spec
INVARIANTS ${Reach}
CHECK_DEADLOCK FALSE
