------------------------------ MODULE TraceLib ------------------------------
(***************************************************************************)
(* Shared plumbing for every *Trace.tla module.                            *)
(*                                                                         *)
(* A trace is an NDJSON file recorded from the real code (path in env var  *)
(* VERIF_TRACE).  A trace spec consumes it line by line: variable `l` is   *)
(* the index of the next unconsumed line; every trace action is            *)
(*   Ev("Name") /\ <bind logged fields> /\ SpecAction(args) /\ Consume     *)
(* Acceptance is a high-water mark of `l` kept in TLC register 1 (updated  *)
(* from a CONSTRAINT, -workers 1): the trace is accepted iff some          *)
(* behaviour of the trace spec consumed every line.  Register 2 collects   *)
(* the ids of named deviation actions (known findings) that fired.         *)
(***************************************************************************)
EXTENDS Json, IOUtils, TLC, Sequences, Naturals, FiniteSets

TLog == ndJsonDeserialize(IOEnv.VERIF_TRACE)
NEv  == Len(TLog)

Has(r, f) == f \in DOMAIN r

HWMark(l) == TLCSet(1, IF TLCGet(1) < l THEN l ELSE TLCGet(1))

Accepted ==
    IF TLCGet(1) = NEv + 1
    THEN PrintT(<<"ACCEPTED", NEv, "DEVIATIONS", TLCGet(2)>>)
    ELSE PrintT(<<"REJECTED-AT", TLCGet(1), "DEVIATIONS", TLCGet(2)>>) /\ FALSE

UseDeviation(id) == TLCSet(2, TLCGet(2) \cup {id})

ASSUME TLCSet(1, 0) /\ TLCSet(2, {})
=============================================================================
