CONSTANTS Engines = {"sherpa", "olla"}  Profiles = ${Profiles}  CTs = ${CTs}  Kinds = ${Kinds}
          ChunkSizes = ${ChunkSizes}  StallPoints = ${StallPoints}
INIT Init
NEXT Next
INVARIANT Export
CHECK_DEADLOCK FALSE
