CONSTANTS Engines = {"sherpa", "olla"}  Profiles = ${Profiles}  CTs = ${CTs}  Kinds = ${Kinds}
          ChunkSizes = ${ChunkSizes}  StallPoints = ${StallPoints}  Routes = ${Routes}
INIT Init
NEXT Next
INVARIANT Export
CHECK_DEADLOCK FALSE
