------------------------------ MODULE DispatchGen ------------------------------
(* Scenario generator for Dispatch: the environment part only.  A scenario fixes the stack  *)
(* (engine, balancer, framing, endpoints) and a sequence of steps; a "req" step assigns to   *)
(* EVERY endpoint the fault its next attempt will meet (olla chooses the endpoint, not we). *)
EXTENDS Naturals, Sequences, FiniteSets, TLC, Json
CONSTANTS NEPs,       \* set of endpoint counts, e.g. {2, 3}
          GKinds,     \* fault alphabet incl. "refuse"
          Engines, Balancers, Framings, Routes,
          NSteps,     \* number of steps (Pattern 0)
          WithHealth, \* may a health round be inserted between requests (Pattern 0)
          Pattern,    \* 0: free sequence of NSteps steps; 1: req, burst; 2: req, health, burst
          BurstN      \* concurrent requests in a burst
VARIABLE scn
EPS == {[i \in 1..n |-> "e" \o ToString(i)] : n \in NEPs}
Range(s) == {s[i] : i \in 1..Len(s)}
Init == \E eps \in EPS : \E en \in Engines : \E lb \in Balancers : \E fr \in Framings :
           scn = [engine |-> en, lb |-> lb, framing |-> fr, eps |-> eps, steps |-> <<>>]
Step(op) == \E f \in [Range(scn.eps) -> GKinds] : \E rt \in Routes :
              scn' = [scn EXCEPT !.steps = Append(@, [op |-> op, route |-> rt, plans |-> f, n |-> IF op = "burst" THEN BurstN ELSE 1])]
HealthStep == scn' = [scn EXCEPT !.steps = Append(@, [op |-> "health"])]
Shape == CASE Pattern = 1 -> <<"req", "burst">>
           [] Pattern = 2 -> <<"req", "health", "burst">>
           [] Pattern = 3 -> <<"burst">>
           [] OTHER -> <<>>
Len0 == IF Pattern = 0 THEN NSteps ELSE Len(Shape)
Next == /\ Len(scn.steps) < Len0
        /\ IF Pattern = 0
           THEN Step("req") \/ (WithHealth /\ Len(scn.steps) > 0 /\ scn.steps[Len(scn.steps)].op = "req" /\ HealthStep)
           ELSE LET op == Shape[Len(scn.steps) + 1] IN IF op = "health" THEN HealthStep ELSE Step(op)
Spec == Init /\ [][Next]_scn
Export == (Len(scn.steps) = Len0 /\ scn.steps[Len0].op # "health") => PrintT(<<"SCN", ToJson(scn)>>)
=============================================================================
