------------------------------ MODULE DispatchGen ------------------------------
(* Scenario generator for Dispatch: the environment part only.  A scenario fixes the stack  *)
(* (engine, balancer, framing, endpoints) and a sequence of steps; a "req" step assigns to   *)
(* EVERY endpoint the fault its next attempt will meet (olla chooses the endpoint, not we). *)
EXTENDS Naturals, Sequences, FiniteSets, TLC, Json
CONSTANTS NEPs,       \* set of endpoint counts, e.g. {2, 3}
          GKinds,     \* fault alphabet incl. "refuse"
          Engines, Balancers, Framings, Routes,
          NSteps,     \* number of steps (Pattern 0)
          WithHealth, \* may a health round be inserted between requests (Pattern 0)
          Pattern,    \* 0: free sequence of NSteps steps; 1: req, burst; 2: req, health, burst
          BurstN,     \* concurrent requests in a burst
          Placements, \* "all": every endpoint lists m1; "split": e1 lists m1, the others m2
          ReqModels,  \* model names requests may ask for ("mx" is listed nowhere)
          EpTypes,    \* endpoint type of the whole stack: "openai-compatible" | "vllm" (native Anthropic support)
          BootKinds,  \* per endpoint at boot: "up" | "sick" (health 503) | "dead" (connection refused)
          Twins       \* may all endpoints carry the same configured name (a subset of BOOLEAN)
VARIABLE scn
EPS == {[i \in 1..n |-> "e" \o ToString(i)] : n \in NEPs}
Range(s) == {s[i] : i \in 1..Len(s)}
Init == \E eps \in EPS : \E en \in Engines : \E lb \in Balancers : \E fr \in Framings :
        \E pl \in Placements : \E bt \in [Range(eps) -> BootKinds] : \E ty \in EpTypes : \E tw \in Twins :
           scn = [engine |-> en, lb |-> lb, framing |-> fr, eps |-> eps, placement |-> pl, boot |-> bt, eptype |-> ty, twins |-> tw, steps |-> <<>>]
Step(op) == \E f \in [Range(scn.eps) -> GKinds] : \E rt \in Routes : \E m \in ReqModels :
              /\ (Pattern = 4 /\ Len(scn.steps) > 0) =>
                     (f = scn.steps[1].plans /\ rt = scn.steps[1].route /\ m = scn.steps[1].model)
              /\ scn' = [scn EXCEPT !.steps = Append(@, [op |-> op, route |-> rt, model |-> m, plans |-> f,
                                                       n |-> IF op = "burst" THEN BurstN ELSE 1])]
HealthStep == scn' = [scn EXCEPT !.steps = Append(@, [op |-> "health"])]
Shape == CASE Pattern = 1 -> <<"req", "burst">>
           [] Pattern = 2 -> <<"req", "health", "burst">>
           [] Pattern = 3 -> <<"burst">>
           [] Pattern = 5 -> <<"req", "burst", "burst", "burst">>   \* one request, then three waves of concurrent ones
           [] Pattern = 4 -> [i \in 1..11 |-> "req"]      \* long enough to open an engine breaker (threshold 5) under round-robin
           [] OTHER -> <<>>
Len0 == IF Pattern = 0 THEN NSteps ELSE Len(Shape)
Next == /\ Len(scn.steps) < Len0
        /\ IF Pattern = 0
           THEN Step("req") \/ (WithHealth /\ Len(scn.steps) > 0 /\ scn.steps[Len(scn.steps)].op = "req" /\ HealthStep)
           ELSE LET op == Shape[Len(scn.steps) + 1] IN IF op = "health" THEN HealthStep ELSE Step(op)
Spec == Init /\ [][Next]_scn
Export == (Len(scn.steps) = Len0 /\ scn.steps[Len0].op # "health") => PrintT(<<"SCN", ToJson(scn)>>)
=============================================================================
