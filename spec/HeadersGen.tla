------------------------------ MODULE HeadersGen ------------------------------
(* Scenario generator for Headers (C15).  A scenario fixes the request path (engine x path kind) and the    *)
(* named part of the client's header block: a sequence of header specs                                        *)
(*     [name, m, v, w, e]   m lines (1|2), case variant v of the first line (0 as written, 1 lower, 2 UPPER,  *)
(*                          3 aLtErNaTe), the second line uses variant (v+w)%4, e = 0 no empty value,         *)
(*                          1 first line empty, 2 last line empty                                             *)
(* plus the number of random token-named padding headers the harness mixes in (seeded).  The harness turns a  *)
(* spec into literal header lines; values are unique per line.                                                *)
EXTENDS Naturals, Sequences, FiniteSets, TLC, Json, SequencesExt
CONSTANTS Engines, Paths,
          SensNames, HopNames, FwdNames, OtherNames,   \* names to draw from (as written, canonical case)
          Variants,                                     \* case variants explored
          Shape,   \* "single": at most one named header; "all": every name at once, one common config;
                   \* "triple": one credential x one hop-by-hop x one forwarded header, independent configs;
                   \* "pairF": two forwarded headers, independent configs
          Pads,    \* numbers of padding headers
          Stride   \* thinning: keep the scenarios whose code is 0 modulo Stride (1 = keep all); the code mixes
                   \* every field, so each header configuration stays represented on some of the request paths
VARIABLE scn

Cfgs == [m : {1}, v : Variants, w : {0}, e : {0, 1}] \cup [m : {2}, v : Variants, w : {0, 1}, e : {0, 1, 2}]
\* the only Transfer-Encoding Go's server accepts is a single "chunked" line (sent with a chunked body)
OkFor(n, c) == n = "Transfer-Encoding" => (c.m = 1 /\ c.e = 0)
HS(n, c) == [name |-> n, m |-> IF n = "Transfer-Encoding" THEN 1 ELSE c.m, v |-> c.v, w |-> c.w,
             e |-> IF n = "Transfer-Encoding" THEN 0 ELSE c.e]
AllNames == SensNames \cup HopNames \cup FwdNames \cup OtherNames
Order    == SetToSeq(AllNames)

Singles == {<<>>} \cup {<<HS(p[1], p[2])>> : p \in {q \in AllNames \X Cfgs : OkFor(q[1], q[2])}}
Alls    == {[i \in 1..Len(Order) |-> HS(Order[i], c)] : c \in Cfgs}
Triples == {<<HS(p[1], p[4]), HS(p[2], p[5]), HS(p[3], p[6])>> :
               p \in {q \in SensNames \X HopNames \X FwdNames \X Cfgs \X Cfgs \X Cfgs : OkFor(q[2], q[5])}}
PairsF  == {<<HS(p[1], p[3]), HS(p[2], p[4])>> : p \in {q \in FwdNames \X FwdNames \X Cfgs \X Cfgs : q[1] # q[2]}}

HsSet == CASE Shape = "single" -> Singles
           [] Shape = "all"    -> Alls
           [] Shape = "triple" -> Triples
           [] Shape = "pairF"  -> PairsF

Idx(seq, x) == CHOOSE i \in 1..Len(seq) : seq[i] = x
EngOrder  == SetToSeq(Engines)
PathOrder == SetToSeq(Paths)
HCode(h)  == (((Idx(Order, h.name) * 3 + h.m) * 4 + h.v) * 2 + h.w) * 3 + h.e
RECURSIVE Mix(_, _)
Mix(acc, hs) == IF hs = <<>> THEN acc ELSE Mix((acc * 31 + HCode(Head(hs))) % 65521, Tail(hs))
Code(en, p, hs, pad) == ((((Mix(7, hs) * 31 + Idx(EngOrder, en)) % 65521) * 31 + Idx(PathOrder, p)) % 65521) * 31 + pad
Init == \E en \in Engines : \E p \in Paths : \E hs \in HsSet : \E pad \in Pads :
           /\ Code(en, p, hs, pad) % Stride = 0
           /\ scn = [engine |-> en, path |-> p, hs |-> hs, pad |-> pad]
Next == FALSE /\ UNCHANGED scn
Spec == Init /\ [][Next]_scn
Export == PrintT(<<"SCN", ToJson(scn)>>)
=============================================================================
