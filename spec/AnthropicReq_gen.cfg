CONSTANTS MaxMsgs = ${MaxMsgs}  MaxBlocks = ${MaxBlocks}  Alphabet = "${Alphabet}"  Roles = "${Roles}"
          Bases = ${Bases}  MaxDev = ${MaxDev}  OnlyBases = ${OnlyBases}  DevAnywhere = ${DevAnywhere}  WalkLen = ${WalkLen}
SPECIFICATION GSpec
INVARIANT GExport
CHECK_DEADLOCK FALSE
