CONSTANTS Subs = {"s1", "s2"}  Cap = 2  MaxEv = 4  MaxLen = 0
SPECIFICATION Spec
VIEW View
INVARIANTS TypeOK Ordered
PROPERTIES RecvOldest QuietWhenGone DropOnlyWhenFull
CHECK_DEADLOCK FALSE
