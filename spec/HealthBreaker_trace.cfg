CONSTANTS Threshold = 3  Timeout = 300  ProbeWindow = 10  Ticks = {3, 11, 301}  MaxLen = 0
CONSTANT KnownDeviations = ${KnownDeviations}
SPECIFICATION TraceSpec
CONSTRAINT HW
INVARIANT TypeOK
PROPERTIES OpensOnlyAfterThreshold HoldsWhileOpen ProbeAdmitted ProbeSpacing SuccCloses FailReopens ClosedAdmits
POSTCONDITION Accepted
CHECK_DEADLOCK FALSE
