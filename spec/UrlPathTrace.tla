---------------------------- MODULE UrlPathTrace ----------------------------
(* Every line recorded by harness/app/urlpath_test.go must be a step of UrlPath with the logged   *)
(* values: what the endpoint's listener (or the decoy) received is bound to Forward / Probe, whose *)
(* guards are the clauses of C16.  There is no step for a request received by the decoy.          *)
EXTENDS UrlPath, TraceLib
CONSTANT KnownDeviations
VARIABLE l
tvars == <<vars, l>>
Is(name) == l <= NEv /\ TLog[l].ev = name
Consume  == l' = l + 1 /\ UNCHANGED scn
E == TLog[l]

\* JSON [] arrives as an empty sequence/function; normalise to a TLA+ sequence
SeqOf(a) == [i \in 1..Len(a) |-> a[i]]

\* Reset carries the configuration of the stack and, for a request scenario, the request (the echo of
\* the scenario).  kind: "cfg" (boot observations), "req", "tail" (traffic outside any request).
TReset ==
    /\ Is("Reset")
    /\ cfg' = [engine |-> E.engine, bid |-> E.bid, preserve |-> E.preserve, rel |-> E.rel]
    /\ req' = IF E.kind = "req"
              THEN [prefix |-> E.prefix, form |-> E.form, segs |-> SeqOf(E.segs), query |-> E.query]
              ELSE NoReq
    /\ pc' = IF ~E.booted THEN "dead"
             ELSE CASE E.kind = "cfg" -> "cfg" [] E.kind = "req" -> "ready" [] OTHER -> "tail"
    /\ fwd' = NoObs /\ aux' = NoAux
    /\ Consume

TResolved == Is("Resolved") /\ Resolve(E.which, E.listener, E.rooted, SeqOf(E.segs)) /\ Consume
TAux      == Is("AuxRecv")  /\ Probe(E.which, E.listener, E.rooted, SeqOf(E.segs)) /\ Consume
\* informational: stored endpoint status after the forced health round
TStatuses == Is("Statuses") /\ pc = "cfg" /\ UNCHANGED <<cfg, req, pc, fwd, aux>> /\ Consume
TSend     == Is("Send") /\ Send /\ Consume
TForward  == Is("BackendRecv") /\ Forward(E.listener, E.rooted, SeqOf(E.segs), E.query) /\ Consume
\* the client has its answer (any status, also none at all: C16 does not say whether olla forwards)
TDone     == Is("Done") /\ Answer /\ Consume
\* a proxied request seen after its client was answered: only the request-independent clauses apply
TLate     == /\ Is("BackendRecv") /\ pc = "tail"
             /\ C16a(E.listener, E.rooted) /\ C16b(SeqOf(E.segs))
             /\ UNCHANGED <<cfg, req, pc, fwd, aux>> /\ Consume

(* Known finding KF-C16-1 (only if listed): BuildTargetURL's preserve_path branch joins the base    *)
(* path and the decoded remainder with path.Join and has no traversal guard, so dot segments in the *)
(* remainder (which reach the handler only when percent-encoded) climb out of the base path.  The   *)
(* deviation explains exactly that: preserve_path with a non-root base, right host and query, and   *)
(* the received path is precisely Clean(base/rest) - and that path is outside the base.             *)
KF_C16_1 ==
    /\ "KF-C16-1" \in KnownDeviations
    /\ Is("BackendRecv") /\ pc \in {"sent", "handler"}
    /\ cfg.preserve /\ BaseSegs(cfg.bid) # <<>>
    /\ C16a(E.listener, E.rooted) /\ C16d(E.query)
    /\ ~Under(SeqOf(E.segs), BaseSegs(cfg.bid))
    /\ SeqOf(E.segs) = Enc(ResDec(BaseSegs(cfg.bid) \o Rest(req), TRUE))
    /\ fwd' = [h |-> E.listener, rooted |-> E.rooted, p |-> SeqOf(E.segs), q |-> E.query, dev |-> "KF-C16-1"]
    /\ pc' = "handler"
    /\ UNCHANGED <<cfg, req, aux>>
    /\ Consume
    /\ UseDeviation("KF-C16-1")

TraceInit == /\ cfg = [engine |-> "olla", bid |-> "none", preserve |-> FALSE, rel |-> "slash"]
             /\ req = NoReq /\ pc = "dead" /\ fwd = NoObs /\ aux = NoAux /\ scn = <<>> /\ l = 1
TraceNext == TReset \/ TResolved \/ TAux \/ TStatuses \/ TSend \/ TForward \/ TDone \/ TLate \/ KF_C16_1
TraceSpec == TraceInit /\ [][TraceNext]_tvars
HW == HWMark(l)
=============================================================================
