CONSTANTS Intervals = {}  Modes = {}
CONSTANT KnownDeviations = ${KnownDeviations}
SPECIFICATION TraceSpec
CONSTRAINT HW
POSTCONDITION Accepted
CHECK_DEADLOCK FALSE
