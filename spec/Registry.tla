------------------------------- MODULE Registry -------------------------------
(***************************************************************************)
(* The model catalogue of olla:                                            *)
(*   internal/adapter/discovery/service.go   (DiscoverEndpoint: fetch a    *)
(*        listing, apply the endpoint's include/exclude filter, register)  *)
(*   internal/adapter/registry/memory_registry.go   (per-endpoint listing, *)
(*        model -> endpoints index, statistics)                            *)
(*   internal/adapter/registry/unified_memory_registry.go + unifier/       *)
(*        (asynchronous merge into the unified catalogue)                  *)
(*                                                                         *)
(* last[e] is the reference: the set of model names of e's most recent     *)
(* SUCCESSFUL listing that pass e's filter (empty after removal).  The     *)
(* four views (perEp, idx, uni, counts) must attribute a model to an       *)
(* endpoint iff it is in last[e]; the unified view is only required to     *)
(* agree at quiescence (all asynchronous merges applied).                  *)
(*                                                                         *)
(* Model names and patterns are sequences of one-character strings (see    *)
(* Glob).  A listing is a sequence of entries [n |-> name, d |-> digest].  *)
(***************************************************************************)
EXTENDS Glob, TLC, Json

CONSTANTS Eps,          \* endpoint ids
          Listings,     \* listings a backend may report (all entries named)
          BadLists,     \* lists with a nameless entry, pushed through the registry API
          FailKinds,    \* ways a discovery can fail (non-200, unparsable, connection cut)
          FilterChoices,\* filter configurations an endpoint may have
          FailBodies,   \* listings sent along with a failure (must be ignored)
          WithConcurrency, \* generate Burst / Par steps too
          MaxLen,       \* number of environment operations per scenario
          Probe         \* names looked up in every dump (scenario payload only)

VARIABLES flt,    \* flt[e] = [inc, exc]  (both empty = no filter)
          last,   \* reference attribution
          lastN,  \* number of entries (with repetitions) accepted from the last successful listing
          known,  \* endpoints with a successful listing since their last removal
          perEp,  \* view 1: per-endpoint listing
          idx,    \* view 2: model -> endpoints index, as a set of <<model, endpoint>>
          uni,    \* view 3: unified catalogue sources, as a set of <<model, endpoint>>
          dirty,  \* endpoints whose latest listing is not merged into uni yet
          act,    \* last action
          scn     \* scenario being built (generator payload)

vars  == <<flt, last, lastN, known, perEp, idx, uni, dirty, act, scn>>
core  == <<flt, last, lastN, known, perEp, idx, uni, dirty>>

NoFilter == [inc |-> <<>>, exc |-> <<>>]
Range(s) == {s[i] : i \in 1..Len(s)}
Names(L) == {L[i].n : i \in 1..Len(L)} \ {<<>>}
Kept(L, f) == SelectSeq(L, LAMBDA x : Passes(x.n, f.inc, f.exc))
HasNameless(L) == \E i \in 1..Len(L) : L[i].n = <<>>
Pairs(e, ns) == {<<m, e>> : m \in ns}
NotOf(S, e) == {p \in S : p[2] # e}

Init == /\ flt \in [Eps -> FilterChoices]
        /\ last = [e \in Eps |-> {}] /\ lastN = [e \in Eps |-> 0] /\ known = {}
        /\ perEp = [e \in Eps |-> {}] /\ idx = {} /\ uni = {} /\ dirty = {}
        /\ act = "Init"
        /\ scn = [flt |-> flt, ops |-> <<>>, probe |-> Probe]

Log(tok) == scn' = [scn EXCEPT !.ops = Append(@, tok)]

(* One environment step is a set of operations on pairwise distinct endpoints, S = [D -> op],  *)
(* issued concurrently (|D| = 1: a single operation).  Operations on different endpoints touch *)
(* disjoint parts of the catalogue, so their combined effect does not depend on the            *)
(* interleaving.  op = [op, L]:                                                                *)
(*   "Reg"    successful discovery (HTTP 200, parsable listing L): filter, then replace         *)
(*   "Direct" list L pushed through the registry API and accepted (no filter on that path)     *)
(*   "Rm"     endpoint removed                                                                 *)
(*   "Fail"   failed discovery / "Bad" rejected list: nothing changes                          *)
OpReg(L)  == [op |-> "Reg", L |-> L]
OpDir(L)  == [op |-> "Direct", L |-> L]
OpRm      == [op |-> "Rm", L |-> <<>>]
OpNone(o) == [op |-> o, L |-> <<>>]

\* names an operation makes e list (nothing for failures and removals)
OpNames(e, o) == IF o.op = "Reg" THEN Names(Kept(o.L, flt[e]))
                 ELSE IF o.op = "Direct" THEN Names(o.L) ELSE {}

Apply(S) ==
    LET D == DOMAIN S
        R == {e \in D : S[e].op \in {"Reg", "Direct"}}       \* accepted lists
        X == {e \in D : S[e].op = "Rm"}
        K(e) == IF S[e].op = "Reg" THEN Kept(S[e].L, flt[e]) ELSE S[e].L
        NewNames(e) == IF e \in R THEN Names(K(e)) ELSE IF e \in X THEN {} ELSE last[e]
    IN  /\ D \subseteq Eps
        /\ last'  = [e \in Eps |-> NewNames(e)]
        /\ lastN' = [e \in Eps |-> IF e \in R THEN Len(K(e)) ELSE IF e \in X THEN 0 ELSE lastN[e]]
        /\ known' = (known \cup R) \ X
        /\ perEp' = [e \in Eps |-> NewNames(e)]
        \* replace semantics: validate first, then drop the old index entries, then add the new
        /\ idx'   = (idx \ UNION {Pairs(e, perEp[e]) : e \in R \cup X}) \cup UNION {Pairs(e, NewNames(e)) : e \in R}
        /\ uni'   = {p \in uni : p[2] \notin X}
        /\ dirty' = dirty \cup R
        /\ UNCHANGED flt

\* a successful discovery: HTTP 200 with a parsable listing
Register(e, L) == act' = "Reg" /\ Apply(e :> OpReg(L)) /\ Log(<<"Reg", e, L>>)
\* a list with a nameless entry is rejected as a whole: nothing changes
RegisterBad(e, L) == HasNameless(L) /\ act' = "Bad" /\ Apply(e :> OpNone("Bad")) /\ Log(<<"Bad", e, L>>)
\* a failed discovery (kind k; L is whatever body the backend sent along): nothing changes
DiscoveryFails(e, k, L) == act' = "Fail" /\ Apply(e :> OpNone("Fail")) /\ Log(<<"Fail", e, k, L>>)
Remove(e) == act' = "Rm" /\ Apply(e :> OpRm) /\ Log(<<"Rm", e>>)
\* two successive successful discoveries of e with no pause in between: the second one counts
Burst(e, L1, L2) == act' = "Burst" /\ Apply(e :> OpReg(L2)) /\ Log(<<"Burst", e, L1, L2>>)
\* a successful discovery of e chased by a rejected list for e before the background merge of the first has
\* run: the rejected update changes nothing, so the listing L still counts -- also in the unified catalogue
Chase(e, L, B) == HasNameless(B) /\ act' = "Chase" /\ Apply(e :> OpReg(L)) /\ Log(<<"Chase", e, L, B>>)
\* two successive successful discoveries of e whose background merges run in the opposite order: still the
\* second listing counts
Swap(e, L1, L2) == act' = "Swap" /\ Apply(e :> OpReg(L2)) /\ Log(<<"Swap", e, L1, L2>>)
\* e is removed WHILE a successful listing L of it is registered: either may be taken for the later one, but all
\* views follow the same one
Race(e, L) == act' = "Race" /\ (Apply(e :> OpReg(L)) \/ Apply(e :> OpRm)) /\ Log(<<"Race", e, L>>)
\* concurrent operations on distinct endpoints; T = [D -> scenario token]
TokOp(t) == IF t[1] = "Reg" THEN OpReg(t[3]) ELSE IF t[1] = "Rm" THEN OpRm ELSE OpNone("Fail")
Par(T) == /\ act' = "Par" /\ Apply([e \in DOMAIN T |-> TokOp(T[e])])
          /\ Log(<<"Par", T>>)

\* the asynchronous merge of e's latest listing (idempotent; reads the latest state, so late or
\* reordered merges are harmless)
Merge(e) == /\ e \in dirty /\ act' = "Merge"
            /\ uni' = NotOf(uni, e) \cup Pairs(e, last[e])
            /\ dirty' = dirty \ {e}
            /\ UNCHANGED <<flt, last, lastN, known, perEp, idx, scn>>

\* all outstanding merges at once (what the harness waits for before it dumps)
Quiesce == /\ uni' = {p \in uni : p[2] \notin dirty} \cup UNION {Pairs(e, last[e]) : e \in dirty}
           /\ dirty' = {}
           /\ UNCHANGED <<flt, last, lastN, known, perEp, idx>>

SingleTok(e) == {<<"Reg", e, L>> : L \in Listings}
                \cup {<<"Fail", e, k, L>> : k \in FailKinds, L \in FailBodies}
                \cup {<<"Rm", e>>}
Single == \E e \in Eps :
             \/ \E L \in Listings : Register(e, L)
             \/ \E L \in BadLists : RegisterBad(e, L)
             \/ \E k \in FailKinds : \E L \in FailBodies : DiscoveryFails(e, k, L)
             \/ Remove(e)
ParOf(D) == LET a == CHOOSE x \in D : TRUE
                b == CHOOSE x \in D : x # a
            IN  IF Cardinality(D) = 2
                THEN \E ta \in SingleTok(a), tb \in SingleTok(b) : Par((a :> ta) @@ (b :> tb))
                ELSE LET c == CHOOSE x \in D : x # a /\ x # b IN
                     \E ta \in SingleTok(a), tb \in SingleTok(b), tc \in SingleTok(c) :
                         Par((a :> ta) @@ (b :> tb) @@ (c :> tc))
Concurrent == \/ \E e \in Eps : \E L1, L2 \in Listings : L1 # L2 /\ Burst(e, L1, L2)
              \/ \E e \in Eps : \E L \in Listings : \E B \in BadLists : Chase(e, L, B)
              \/ \E e \in Eps : \E L1, L2 \in Listings : L1 # L2 /\ Swap(e, L1, L2)
              \/ \E e \in Eps : \E L \in Listings : Race(e, L)
              \/ \E D \in SUBSET Eps : Cardinality(D) \in {2, 3} /\ ParOf(D)
Env  == Single \/ (WithConcurrency /\ Concurrent)
Next == (Len(scn.ops) < MaxLen /\ Env) \/ \E e \in Eps : Merge(e)
Spec == Init /\ [][Next]_vars

-----------------------------------------------------------------------------
(* Property C10 *)

AllPairs == UNION {Pairs(e, last[e]) : e \in Eps}

\* per-endpoint listing <=> lookup index <=> reference, at all times
Inv_C10_base == \A e \in Eps : /\ perEp[e] = last[e]
                               /\ {p[1] : p \in {q \in idx : q[2] = e}} = last[e]
\* unified catalogue <=> reference once the merges have drained
Inv_C10_unified == dirty = {} => uni = AllPairs
\* nothing is attributed to an endpoint that is not in the listing it last reported
Inv_C10_nostale == \A p \in uni \cup idx : p[1] \in last[p[2]] \/ p[2] \in dirty
Inv_C10_count == \A e \in Eps : Cardinality(last[e]) <= lastN[e]
\* a rejected or failed update leaves the previous attribution intact
RejectedKeeps == [][act' \in {"Bad", "Fail"} => UNCHANGED <<last, lastN, perEp, idx, uni>>]_vars
\* only an accepted listing or a removal ever changes an attribution (merges and failures never do)
OnlyUpdatesChange == [][(last' # last \/ perEp' # perEp \/ idx' # idx) => act' \in {"Reg", "Direct", "Rm", "Burst", "Par", "Chase", "Swap", "Race"}]_vars
\* what is attributed after a successful listing passed the endpoint's filter
OnlyFiltered == \A e \in Eps : \A m \in last[e] : Passes(m, flt[e].inc, flt[e].exc)

TypeOK == /\ dirty \subseteq Eps /\ known \subseteq Eps
          /\ \A p \in idx \cup uni : p[2] \in Eps

-----------------------------------------------------------------------------
(* What an observer may see at quiescence (used by RegistryTrace).  Names that differ only in  *)
(* letter case: the base registry keeps them apart, the unified catalogue deliberately treats  *)
(* them as one model; the property is silent, so lookups are only bounded:                     *)
(*   ExactOf(pairs, m)  \subseteq  answer  \subseteq  FoldOf(pairs, m)                             *)
FoldOf(S, m) == {e \in Eps : \E p \in S : p[2] = e /\ LowerS(p[1]) = LowerS(m)}
ExactOf(S, m) == {e \in Eps : <<m, e>> \in S}

PerEpOK(e, obs)  == Range(obs) \ {<<>>} = last[e]
CountOK(e, c)    == Cardinality(last[e]) <= c /\ c <= lastN[e]
\* the base index (view 2 proper)
LookupBaseOK(m, S) == ExactOf(idx, m) \subseteq S /\ S \subseteq FoldOf(idx, m)
\* a lookup that may also consult the unified catalogue: req = pairs that must be found,
\* alw = pairs that may be found
LookupOK(m, S, req, alw) == ExactOf(req, m) \subseteq S /\ S \subseteq FoldOf(alw, m)
AvailOK(m, b, req, alw)  == (ExactOf(req, m) # {} => b) /\ (b => FoldOf(alw, m) # {})
TotalModelsOK(n) == n = Cardinality(UNION {last[e] : e \in Eps})
TotalEpsOK(n)    == Cardinality({e \in Eps : last[e] # {}}) <= n /\ n <= Cardinality(known)

\* U: sequence of unified entries [id, al (aliases), src (sequence of [e, nat])]
UNames(u) == {u.id} \cup Range(u.al) \cup {u.src[i].nat : i \in 1..Len(u.src)}
USrcEps(u) == {u.src[i].e : i \in 1..Len(u.src)}
\* every attribution of the (quiescent) model catalogue is found in some entry that names the
\* model and has the endpoint as a source
UComplete(U) == \A p \in AllPairs :
                    \E i \in 1..Len(U) : p[2] \in USrcEps(U[i])
                                         /\ \E k \in UNames(U[i]) : LowerS(k) = LowerS(p[1])
\* every source of every entry is an attribution of the model catalogue: the endpoint lists the
\* model under the recorded native name
USrcPairs(u) == {<<u.src[j].nat, u.src[j].e>> : j \in 1..Len(u.src)}
USound(U, alw) == UNION {USrcPairs(U[i]) : i \in 1..Len(U)} \subseteq alw

-----------------------------------------------------------------------------
(* Model alphabet.  Entries: same name with two digests, a case variant, a name containing    *)
(* "::", a name containing "*".  Digests are never shared between different names.            *)
Ent(n, d) == [n |-> n, d |-> d]
m1  == Ent(<<"m">>, "d1")
m2  == Ent(<<"m">>, "d2")
m0  == Ent(<<"m">>, "")
MM  == Ent(<<"M">>, "")
xy  == Ent(<<"x", ":", ":", "y">>, "d3")
ps  == Ent(<<"p", "*">>, "")
nil == Ent(<<>>, "")

ProbeAll == {<<"m">>, <<"M">>, <<"x", ":", ":", "y">>, <<"p", "*">>, <<"z">>}

ListingsQuick == {<<m1, xy>>, <<m2>>, <<MM, ps>>, <<>>}
ListingsMid   == ListingsQuick \cup {<<xy, MM, m1>>, <<m1, m2>>, <<m0>>, <<xy>>}
Entries       == {m1, m2, m0, MM, xy, ps}
ListingsAll   == ListingsMid \cup {<<a, b>> : a, b \in Entries} \cup {<<a>> : a \in Entries}
BadQuick      == {<<xy, nil>>, <<nil, MM>>}
BadAll        == BadQuick \cup {<<nil>>, <<m2, nil, ps>>}
FailQuick     == {"h500", "h203", "garbage"}
BodiesOne     == {<<MM, ps>>}
BodiesTwo     == {<<MM, ps>>, <<m2, xy>>}
FailAll       == {"h500", "h404", "h203", "h204", "garbage", "trunc", "cut"}

F_none == NoFilter
F_exY  == [inc |-> <<>>, exc |-> <<<<"*", "y">>>>]                          \* exclude *y
F_incX == [inc |-> <<<<"x", "*">>, <<"p", "*">>>>, exc |-> <<>>]            \* include x*, p*
F_col  == [inc |-> <<<<"*">>>>, exc |-> <<<<"*", ":", "*">>>>]              \* include *, exclude *:*
F_exact == [inc |-> <<<<"x", ":", ":", "y">>, <<"z">>>>, exc |-> <<>>]      \* exact names
FiltersNone  == {F_none}
FiltersQuick == {F_none, F_exY, F_incX}
FiltersAll   == {F_none, F_exY, F_incX, F_col, F_exact}

\* the generated patterns are valid and their answers do not depend on letter case
ASSUME \A f \in FiltersAll : /\ \A p \in PatsOf(f.inc, f.exc) : ValidPattern(p)
                             /\ \A n \in ProbeAll : CaseIndependent(n, f.inc, f.exc)

-----------------------------------------------------------------------------
(* model checking / generation plumbing *)
View == <<core, act, Len(scn.ops)>>
Export == Len(scn.ops) = MaxLen => PrintT(<<"SCN", ToJson(scn)>>)
GenNext == Len(scn.ops) < MaxLen /\ Env
GenSpec == Init /\ [][GenNext]_vars
=============================================================================
