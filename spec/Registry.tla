------------------------------- MODULE Registry -------------------------------
(***************************************************************************)
(* The model catalogue of olla:                                            *)
(*   internal/adapter/discovery/service.go   (DiscoverEndpoint: fetch a    *)
(*        listing, apply the endpoint's include/exclude filter, register)  *)
(*   internal/adapter/registry/memory_registry.go   (per-endpoint listing, *)
(*        model -> endpoints index, statistics)                            *)
(*   internal/adapter/registry/unified_memory_registry.go + unifier/       *)
(*        (asynchronous merge into the unified catalogue)                  *)
(*                                                                         *)
(* last[e] is the reference: the set of model names of e's most recent     *)
(* SUCCESSFUL listing that pass e's filter (empty after removal).  The     *)
(* four views (perEp, idx, uni, counts) must attribute a model to an       *)
(* endpoint iff it is in last[e]; the unified view is only required to     *)
(* agree at quiescence (all asynchronous merges applied).                  *)
(*                                                                         *)
(* Model names and patterns are sequences of one-character strings (see    *)
(* Glob).  A listing is a sequence of entries [n |-> name, d |-> digest].  *)
(***************************************************************************)
EXTENDS Glob, TLC, Json

CONSTANTS Eps,          \* endpoint ids
          Listings,     \* listings a backend may report (all entries named)
          BadLists,     \* lists with a nameless entry, pushed through the registry API
          FailKinds,    \* ways a discovery can fail (non-200, unparsable, connection cut)
          FilterChoices,\* filter configurations an endpoint may have
          MaxLen,       \* number of environment operations per scenario
          Probe         \* names looked up in every dump (scenario payload only)

VARIABLES flt,    \* flt[e] = [inc, exc]  (both empty = no filter)
          last,   \* reference attribution
          lastN,  \* number of entries (with repetitions) accepted from the last successful listing
          known,  \* endpoints with a successful listing since their last removal
          perEp,  \* view 1: per-endpoint listing
          idx,    \* view 2: model -> endpoints index, as a set of <<model, endpoint>>
          uni,    \* view 3: unified catalogue sources, as a set of <<model, endpoint>>
          dirty,  \* endpoints whose latest listing is not merged into uni yet
          act,    \* last action
          scn     \* scenario being built (generator payload)

vars  == <<flt, last, lastN, known, perEp, idx, uni, dirty, act, scn>>
core  == <<flt, last, lastN, known, perEp, idx, uni, dirty>>

NoFilter == [inc |-> <<>>, exc |-> <<>>]
Range(s) == {s[i] : i \in 1..Len(s)}
Names(L) == {L[i].n : i \in 1..Len(L)} \ {<<>>}
Kept(L, f) == SelectSeq(L, LAMBDA x : Passes(x.n, f.inc, f.exc))
HasNameless(L) == \E i \in 1..Len(L) : L[i].n = <<>>
Pairs(e, ns) == {<<m, e>> : m \in ns}
NotOf(S, e) == {p \in S : p[2] # e}

Init == /\ flt \in [Eps -> FilterChoices]
        /\ last = [e \in Eps |-> {}] /\ lastN = [e \in Eps |-> 0] /\ known = {}
        /\ perEp = [e \in Eps |-> {}] /\ idx = {} /\ uni = {} /\ dirty = {}
        /\ act = "Init"
        /\ scn = [flt |-> flt, ops |-> <<>>, probe |-> Probe]

Log(tok) == scn' = [scn EXCEPT !.ops = Append(@, tok)]

\* an accepted list K (already filtered) replaces everything e had: validate, drop old, add new
Accept(e, K) ==
    /\ last'  = [last  EXCEPT ![e] = Names(K)]
    /\ lastN' = [lastN EXCEPT ![e] = Len(K)]
    /\ known' = known \cup {e}
    /\ perEp' = [perEp EXCEPT ![e] = Names(K)]
    /\ idx'   = (idx \ Pairs(e, perEp[e])) \cup Pairs(e, Names(K))   \* drop old entries, add new
    /\ dirty' = dirty \cup {e}
    /\ UNCHANGED <<flt, uni>>

\* a successful discovery: HTTP 200 with a parsable listing
Register(e, L) == act' = "Reg" /\ Accept(e, Kept(L, flt[e])) /\ Log(<<"Reg", e, L>>)

\* a list pushed through the registry API (no filter on that path)
RegisterDirect(e, L) == act' = "Direct" /\ Accept(e, L) /\ UNCHANGED scn

\* a list with a nameless entry is rejected as a whole: nothing changes
RegisterBad(e, L) == /\ HasNameless(L) /\ act' = "Bad"
                     /\ UNCHANGED core /\ Log(<<"Bad", e, L>>)

\* a failed discovery (kind k; L is whatever body the backend sent along): nothing changes
DiscoveryFails(e, k, L) == act' = "Fail" /\ UNCHANGED core /\ Log(<<"Fail", e, k, L>>)

Remove(e) == /\ act' = "Rm"
             /\ last'  = [last  EXCEPT ![e] = {}]
             /\ lastN' = [lastN EXCEPT ![e] = 0]
             /\ known' = known \ {e}
             /\ perEp' = [perEp EXCEPT ![e] = {}]
             /\ idx'   = idx \ Pairs(e, perEp[e])
             /\ uni'   = NotOf(uni, e)
             /\ UNCHANGED <<flt, dirty>>
             /\ Log(<<"Rm", e>>)

\* the asynchronous merge of e's latest listing (idempotent; reads the latest state, so late or
\* reordered merges are harmless)
Merge(e) == /\ e \in dirty /\ act' = "Merge"
            /\ uni' = NotOf(uni, e) \cup Pairs(e, last[e])
            /\ dirty' = dirty \ {e}
            /\ UNCHANGED <<flt, last, lastN, known, perEp, idx, scn>>

\* all outstanding merges at once (what the harness waits for before it dumps)
Quiesce == /\ uni' = {p \in uni : p[2] \notin dirty} \cup UNION {Pairs(e, last[e]) : e \in dirty}
           /\ dirty' = {}
           /\ UNCHANGED <<flt, last, lastN, known, perEp, idx>>

Env == \E e \in Eps :
          \/ \E L \in Listings : Register(e, L)
          \/ \E L \in BadLists : RegisterBad(e, L)
          \/ \E k \in FailKinds : \E L \in Listings \ {<<>>} : DiscoveryFails(e, k, L)
          \/ Remove(e)
Next == (Len(scn.ops) < MaxLen /\ Env) \/ \E e \in Eps : Merge(e)
Spec == Init /\ [][Next]_vars

-----------------------------------------------------------------------------
(* Property C10 *)

AllPairs == UNION {Pairs(e, last[e]) : e \in Eps}

\* per-endpoint listing <=> lookup index <=> reference, at all times
Inv_C10_base == \A e \in Eps : /\ perEp[e] = last[e]
                               /\ {p[1] : p \in {q \in idx : q[2] = e}} = last[e]
\* unified catalogue <=> reference once the merges have drained
Inv_C10_unified == dirty = {} => uni = AllPairs
\* nothing is attributed to an endpoint that is not in the listing it last reported
Inv_C10_nostale == \A p \in uni \cup idx : p[1] \in last[p[2]] \/ p[2] \in dirty
Inv_C10_count == \A e \in Eps : Cardinality(last[e]) <= lastN[e]
\* a rejected or failed update leaves the previous attribution intact
RejectedKeeps == [][act' \in {"Bad", "Fail"} => UNCHANGED <<last, lastN, perEp, idx, uni>>]_vars
\* what is attributed after a successful listing passed the endpoint's filter
OnlyFiltered == \A e \in Eps : \A m \in last[e] : Passes(m, flt[e].inc, flt[e].exc)

TypeOK == /\ dirty \subseteq Eps /\ known \subseteq Eps
          /\ \A p \in idx \cup uni : p[2] \in Eps

-----------------------------------------------------------------------------
(* What an observer may see at quiescence (used by RegistryTrace).  Names that differ only in  *)
(* letter case: the base registry keeps them apart, the unified catalogue deliberately treats  *)
(* them as one model; the property is silent, so lookups are only bounded:                     *)
(*   ExactOf(pairs, m)  \subseteq  answer  \subseteq  FoldOf(pairs, m)                             *)
FoldOf(S, m) == {e \in Eps : \E p \in S : p[2] = e /\ LowerS(p[1]) = LowerS(m)}
ExactOf(S, m) == {e \in Eps : <<m, e>> \in S}

PerEpOK(e, obs)  == Range(obs) \ {<<>>} = last[e]
CountOK(e, c)    == Cardinality(last[e]) <= c /\ c <= lastN[e]
\* the base index (view 2 proper)
LookupBaseOK(m, S) == ExactOf(idx, m) \subseteq S /\ S \subseteq FoldOf(idx, m)
\* a lookup that may also consult the unified catalogue: req = pairs that must be found,
\* alw = pairs that may be found
LookupOK(m, S, req, alw) == ExactOf(req, m) \subseteq S /\ S \subseteq FoldOf(alw, m)
AvailOK(m, b, req, alw)  == (ExactOf(req, m) # {} => b) /\ (b => FoldOf(alw, m) # {})
TotalModelsOK(n) == n = Cardinality(UNION {last[e] : e \in Eps})
TotalEpsOK(n)    == Cardinality({e \in Eps : last[e] # {}}) <= n /\ n <= Cardinality(known)

\* U: sequence of unified entries [id, al (aliases), src (sequence of [e, nat])]
UNames(u) == {u.id} \cup Range(u.al) \cup {u.src[i].nat : i \in 1..Len(u.src)}
USrcEps(u) == {u.src[i].e : i \in 1..Len(u.src)}
\* every attribution of the (quiescent) model catalogue is found in some entry that names the
\* model and has the endpoint as a source
UComplete(U) == \A p \in AllPairs :
                    \E i \in 1..Len(U) : p[2] \in USrcEps(U[i])
                                         /\ \E k \in UNames(U[i]) : LowerS(k) = LowerS(p[1])
\* every source of every entry is an attribution of the model catalogue: the endpoint lists the
\* model under the recorded native name
USrcPairs(u) == {<<u.src[j].nat, u.src[j].e>> : j \in 1..Len(u.src)}
USound(U, alw) == UNION {USrcPairs(U[i]) : i \in 1..Len(U)} \subseteq alw

-----------------------------------------------------------------------------
(* Model alphabet.  Entries: same name with two digests, a case variant, a name containing    *)
(* "::", a name containing "*".  Digests are never shared between different names.            *)
Ent(n, d) == [n |-> n, d |-> d]
m1  == Ent(<<"m">>, "d1")
m2  == Ent(<<"m">>, "d2")
m0  == Ent(<<"m">>, "")
MM  == Ent(<<"M">>, "")
xy  == Ent(<<"x", ":", ":", "y">>, "d3")
ps  == Ent(<<"p", "*">>, "")
nil == Ent(<<>>, "")

ProbeAll == {<<"m">>, <<"M">>, <<"x", ":", ":", "y">>, <<"p", "*">>, <<"z">>}

ListingsQuick == {<<m1, xy>>, <<m2>>, <<MM, ps>>, <<>>}
ListingsMid   == ListingsQuick \cup {<<xy, MM, m1>>, <<m1, m2>>, <<m0>>, <<xy>>}
Entries       == {m1, m2, m0, MM, xy, ps}
ListingsAll   == ListingsMid \cup {<<a, b>> : a, b \in Entries} \cup {<<a>> : a \in Entries}
BadQuick      == {<<xy, nil>>, <<nil, MM>>}
BadAll        == BadQuick \cup {<<nil>>, <<m2, nil, ps>>}
FailQuick     == {"h500", "h203", "garbage"}
FailAll       == {"h500", "h404", "h203", "h204", "garbage", "trunc", "cut"}

F_none == NoFilter
F_exY  == [inc |-> <<>>, exc |-> <<<<"*", "y">>>>]                          \* exclude *y
F_incX == [inc |-> <<<<"x", "*">>, <<"p", "*">>>>, exc |-> <<>>]            \* include x*, p*
F_col  == [inc |-> <<<<"*">>>>, exc |-> <<<<"*", ":", "*">>>>]              \* include *, exclude *:*
F_exact == [inc |-> <<<<"x", ":", ":", "y">>, <<"z">>>>, exc |-> <<>>]      \* exact names
FiltersNone  == {F_none}
FiltersQuick == {F_none, F_exY, F_incX}
FiltersAll   == {F_none, F_exY, F_incX, F_col, F_exact}

\* the generated patterns are valid and their answers do not depend on letter case
ASSUME \A f \in FiltersAll : /\ \A p \in PatsOf(f.inc, f.exc) : ValidPattern(p)
                             /\ \A n \in ProbeAll : CaseIndependent(n, f.inc, f.exc)

-----------------------------------------------------------------------------
(* model checking / generation plumbing *)
View == <<core, act, Len(scn.ops)>>
Export == Len(scn.ops) = MaxLen => PrintT(<<"SCN", ToJson(scn)>>)
GenNext == Len(scn.ops) < MaxLen /\ Env
GenSpec == Init /\ [][GenNext]_vars
=============================================================================
