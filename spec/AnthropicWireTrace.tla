-------------------------- MODULE AnthropicWireTrace --------------------------
EXTENDS AnthropicWire, TraceLib
CONSTANT KnownDeviations
VARIABLE l
tvars == <<scn, l>>
E == TLog[l]
TReset == l <= NEv /\ E.ev = "Reset" /\ l' = l + 1 /\ UNCHANGED scn
TWire  == l <= NEv /\ E.ev = "Wire" /\ WireOK(E) /\ l' = l + 1 /\ UNCHANGED scn
TraceInit == scn = <<>> /\ l = 1
TraceNext == TReset \/ TWire
TraceSpec == TraceInit /\ [][TraceNext]_tvars
HW == HWMark(l)
=============================================================================
