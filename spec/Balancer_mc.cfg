CONSTANTS MaxN = ${MaxN}  Statuses = {"healthy", "busy", "offline"}  Prios = {0, 1}  MaxGauge = 1  FairK = 3  HistLen = 6
SPECIFICATION Spec
CONSTRAINT MCConstraint
INVARIANTS MemberOrError ErrorIffNone PrioTop LCMin RRFair RRBatchOK
CHECK_DEADLOCK FALSE
