---------------------------- MODULE BalancerTrace ----------------------------
(* Every recorded selector call must be a step of Balancer with the logged result. *)
EXTENDS Balancer, TraceLib
CONSTANT KnownDeviations
VARIABLE l
tvars == <<vars, l>>
Is(name) == l <= NEv /\ TLog[l].ev = name
Consume  == l' = l + 1 /\ UNCHANGED scn
E == TLog[l]

\* Reset carries the list and the initial gauges; a fresh selector starts with ticket 0
TReset == /\ Is("Reset")
          /\ L' = [i \in 1..Len(E.L) |-> [st |-> E.L[i].st, pr |-> E.L[i].pr]]
          /\ gauge' = [i \in 1..Len(E.L) |-> E.g[i]]
          /\ rr' = 0 /\ res' = 0 /\ act' = "Init" /\ hist' = <<>>
          /\ Consume
TSelPrio == Is("SelPrio") /\ SelPrio /\ res' = E.res /\ Consume
TSelRR   == Is("SelRR")   /\ SelRR   /\ res' = E.res /\ Consume
TSelLC   == Is("SelLC")   /\ SelLC   /\ res' = E.res /\ Consume
TInc     == Is("Inc") /\ Inc(E.i) /\ Consume
TDec     == Is("Dec") /\ Dec(E.i) /\ Consume
\* the gauge reported by the collector after each Inc/Dec must equal the model's
TGauge   == /\ Is("Gauge") /\ \A i \in Idx : gauge[i] = E.g[i]
            /\ act' = "Gauge" /\ UNCHANGED <<L, gauge, rr, res, hist>> /\ Consume
SetOf(s) == {s[i] : i \in 1..Len(s)}
TPrioBatch == Is("PrioBatch") /\ PrioBatch(E.k, SetOf(E.picked)) /\ (E.err <=> RIdx = {}) /\ Consume
TRRBatch   == Is("RRBatch") /\ RRBatch(E.T, E.cnt) /\ Consume
TLCWindow  == Is("LCWindow") /\ LCWindow(E.lo, E.hi, SetOf(E.results)) /\ Consume

\* concurrent selections over different candidate lists on one selector: each returns a member of its own list
TForeign  == /\ Is("Foreign") /\ E.foreign = 0 /\ E.errs = 0
             /\ act' = "Foreign" /\ UNCHANGED <<L, gauge, rr, res, hist>> /\ Consume
\* a top tier of 20 members over 6000 selections: every member is picked, nobody from the lower tier
TWideTier == /\ Is("WideTier") /\ E.pickedTop = E.top /\ E.pickedLow = 0
             /\ act' = "WideTier" /\ UNCHANGED <<L, gauge, rr, res, hist>> /\ Consume

TraceInit == /\ L = <<[st |-> "unknown", pr |-> 0]>> /\ gauge = <<0>> /\ rr = 0 /\ res = 0
             /\ act = "Init" /\ hist = <<>> /\ scn = <<>> /\ l = 1
TraceNext == TReset \/ TSelPrio \/ TSelRR \/ TSelLC \/ TInc \/ TDec \/ TGauge
             \/ TPrioBatch \/ TRRBatch \/ TLCWindow \/ TForeign \/ TWideTier
TraceSpec == TraceInit /\ [][TraceNext]_tvars
HW == HWMark(l)
=============================================================================
