----------------------------- MODULE ProviderTrace -----------------------------
EXTENDS Provider, TraceLib
CONSTANT KnownDeviations
VARIABLE l
tvars == <<vars, l>>
Is(name) == l <= NEv /\ TLog[l].ev = name
Consume  == l' = l + 1 /\ UNCHANGED scn
E == TLog[l]
SetOf(s) == {s[i] : i \in 1..Len(s)}
TReset == /\ Is("Reset")
          /\ prefix' = E.prefix /\ allowed' = SetOf(E.allowed)
          /\ typ' = E.types /\ H' = SetOf(E.H)
          /\ phase' = "cfg" /\ served' = "none" /\ l' = l + 1 /\ scn' = [refuse |-> SetOf(E.refuse), strat |-> E.strat]
TSend == Is("ClientSend") /\ Send /\ Consume
\* endpoints turned unhealthy while the request is being routed: the candidates stay those of the arrival
TFlip == Is("Flip") /\ phase = "sent" /\ UNCHANGED <<prefix, allowed, typ, H, phase, served>> /\ Consume
TBackendRecv == Is("BackendRecv") /\ Dispatch(E.e) /\ Consume
TClientDone == Is("ClientDone") /\ Answer(E.st) /\ Consume
TListing == /\ Is("Listing")
            /\ Listing(SetOf(E.ids), [e \in DOMAIN E.models |-> SetOf(E.models[e])])
            /\ l' = l + 1

(* Known finding KF-C11-1 (only if listed): when NO healthy endpoint is of the provider's kind but other  *)
(* healthy endpoints exist, stage 1 of filterEndpointsByProfile falls back to ALL endpoints and the        *)
(* request is served by a backend of another kind.                                                        *)
KF_C11_1_Recv == /\ "KF-C11-1" \in KnownDeviations
                 /\ Is("BackendRecv") /\ phase = "sent" /\ Eligible = {} /\ E.e \in H
                 /\ phase' = "foreign" /\ served' = "none"
                 /\ UNCHANGED <<prefix, allowed, typ, H>> /\ Consume /\ UseDeviation("KF-C11-1")
KF_C11_1_Done == /\ "KF-C11-1" \in KnownDeviations
                 /\ Is("ClientDone") /\ phase = "foreign"
                 /\ phase' = "answered" /\ UNCHANGED <<prefix, allowed, typ, H, served>> /\ Consume

TraceInit == /\ prefix = "none" /\ allowed = {} /\ typ = <<>> /\ H = {} /\ phase = "answered"
             /\ served = "none" /\ scn = <<>> /\ l = 1
TraceNext == TReset \/ TSend \/ TFlip \/ TBackendRecv \/ TClientDone \/ TListing \/ KF_C11_1_Recv \/ KF_C11_1_Done
TraceSpec == TraceInit /\ [][TraceNext]_tvars
HW == HWMark(l)
=============================================================================
