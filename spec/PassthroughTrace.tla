--------------------------- MODULE PassthroughTrace ---------------------------
EXTENDS Passthrough, TraceLib
CONSTANT KnownDeviations
VARIABLE l
tvars == <<vars, l>>
Is(name) == l <= NEv /\ TLog[l].ev = name
Consume  == l' = l + 1 /\ UNCHANGED scn
E == TLog[l]
SetOf(s) == {s[i] : i \in 1..Len(s)}
TReset == /\ Is("Reset")
          /\ pt' = E.pt /\ stream' = E.stream /\ native' = SetOf(E.native)
          /\ typ' = E.types /\ H' = SetOf(E.H) /\ plan' = E.plans
          /\ phase' = "cfg" /\ contacted' = <<>> /\ Consume
TSend == Is("ClientSend") /\ Send /\ Consume
TRecv == Is("BackendRecv") /\ Recv(E.e, E.path, E.kind) /\ Consume
TDone == Is("ClientDone") /\ Done(E.st, E.mode) /\ Consume
TraceInit == /\ pt = FALSE /\ stream = FALSE /\ native = {} /\ typ = <<>> /\ H = {} /\ plan = <<>>
             /\ phase = "answered" /\ contacted = <<>> /\ scn = <<>> /\ l = 1
TraceNext == TReset \/ TSend \/ TRecv \/ TDone
TraceSpec == TraceInit /\ [][TraceNext]_tvars
HW == HWMark(l)
=============================================================================
