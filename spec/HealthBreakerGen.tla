--------------------------- MODULE HealthBreakerGen ---------------------------
(* Scenario generation for HealthBreaker: transition cover + distinguishing    *)
(* suffixes.  Phase "reach": the VIEW hides the scenario history, so TLC's BFS *)
(* keeps ONE shortest scenario per core state reachable within ReachLen steps. *)
(* Phase "suffix": from each such state every action sequence of length SufLen *)
(* is appended (history visible, so every sequence is a distinct state) and    *)
(* exported.                                                                   *)
EXTENDS HealthBreaker
CONSTANTS ReachLen, SufLen
VARIABLES phase, suf
gvars == <<vars, phase, suf>>
GInit == Init /\ phase = "reach" /\ suf = 0
GNext == \/ phase = "reach" /\ Len(scn) < ReachLen /\ NextR /\ UNCHANGED <<phase, suf>>
         \/ phase = "reach" /\ phase' = "suffix" /\ UNCHANGED <<vars, suf>>
         \/ phase = "suffix" /\ suf < SufLen /\ NextR /\ suf' = suf + 1 /\ UNCHANGED phase
GSpec == GInit /\ [][GNext]_gvars
GView == IF phase = "reach" THEN <<core, "r">> ELSE <<core, scn, suf>>
GExport == (phase = "suffix" /\ suf = SufLen) => PrintT(<<"SCN", ToJson(scn)>>)
=============================================================================
