CONSTANTS MCNames = {"authorization", "connection", "via", "x-forwarded-proto", "x-tok", "x-nom"}
          MCVals = {"", "a", "x-nom"}  MaxLines = 3  MaxAttempts = 2  FirstLineOnly = FALSE
SPECIFICATION Spec
VIEW View
INVARIANTS TypeOK Inv_C15a Inv_C15b Inv_C15c
CHECK_DEADLOCK FALSE
