--------------------------- MODULE EngineBreakerGen ---------------------------
(* transition cover + suffixes, see HealthBreakerGen *)
EXTENDS EngineBreaker
CONSTANTS ReachLen, SufLen
VARIABLES phase, suf
gvars == <<vars, phase, suf>>
GInit == Init /\ phase = "reach" /\ suf = 0
GNext == \/ phase = "reach" /\ Len(scn) < ReachLen /\ NextR /\ UNCHANGED <<phase, suf>>
         \/ phase = "reach" /\ phase' = "suffix" /\ UNCHANGED <<vars, suf>>
         \/ phase = "suffix" /\ suf < SufLen /\ NextR /\ suf' = suf + 1 /\ UNCHANGED phase
GSpec == GInit /\ [][GNext]_gvars
GView == IF phase = "reach" THEN <<core, "r">> ELSE <<core, scn, suf>>
GExport == (phase = "suffix" /\ suf = SufLen) => PrintT(<<"SCN", ToJson(scn)>>)
=============================================================================
