CONSTANTS Procs = {p1, p2, p3}  FailureThreshold = 2  SuccessThreshold = 2  HalfOpenRequests = 2  OpenDuration = 2
          Locked = TRUE  MaxOps = 9
SPECIFICATION Spec
INVARIANTS TypeOK BoundedProbes
CHECK_DEADLOCK FALSE
