CONSTANTS Svcs = ${Svcs}  Ghost = "ghost"  GhostAt = "a"
SPECIFICATION GenSpec
INVARIANT Export
CHECK_DEADLOCK FALSE
