--------------------------- MODULE HealthTickTrace ---------------------------
EXTENDS HealthTick, TraceLib
CONSTANT KnownDeviations
VARIABLE l
tvars == <<scn, l>>
Is(name) == l <= NEv /\ TLog[l].ev = name
E == TLog[l]
TReset  == Is("Reset") /\ scn' = scn /\ l' = l + 1
TProbes == Is("Probes") /\ GapsOK(E) /\ scn' = scn /\ l' = l + 1
TraceInit == scn = <<>> /\ l = 1
TraceNext == TReset \/ TProbes
TraceSpec == TraceInit /\ [][TraceNext]_tvars
HW == HWMark(l)
=============================================================================
