CONSTANTS Classes = {}  HealthClasses = {}  Formats = {}  Fields = {}  ValueClasses = {}
CONSTANT KnownDeviations = ${KnownDeviations}
SPECIFICATION TraceSpec
CONSTRAINT HW
POSTCONDITION Accepted
CHECK_DEADLOCK FALSE
