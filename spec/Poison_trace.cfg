CONSTANTS Classes = {}  HealthClasses = {}  Formats = {}  Fields = {}  FleetClasses = {}  Mutations = 0  ValueClasses = {}
CONSTANT KnownDeviations = ${KnownDeviations}
SPECIFICATION TraceSpec
CONSTRAINT HW
POSTCONDITION Accepted
CHECK_DEADLOCK FALSE
