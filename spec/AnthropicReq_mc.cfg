SPECIFICATION Spec
INVARIANTS ScalarsKept SystemFirst OrderKept ToolsKept ChoiceKept InvalidRefused InvalidRefused2 ValidTranslated
           FaithfulAccepted CodeLikeExact CorruptionRefused
CHECK_DEADLOCK FALSE
