-------------------------------- MODULE Glob --------------------------------
(***************************************************************************)
(* Include/exclude filters with glob patterns, as documented in            *)
(* docs/content/configuration/filters.md and implemented by                *)
(* internal/util/pattern/glob.go + internal/adapter/filter/glob_filter.go. *)
(*                                                                         *)
(* Names and patterns are SEQUENCES OF ONE-CHARACTER STRINGS (TLC cannot   *)
(* take strings apart); the harness joins / splits them.  This makes       *)
(* prefix / suffix / contains and the concatenation of a name with a       *)
(* pattern expressible.                                                    *)
(*                                                                         *)
(*   "*"      everything          "abc*"   starts with abc                 *)
(*   "*abc"   ends with abc       "*abc*"  contains abc                    *)
(*   "abc"    exactly abc                                                  *)
(* Exclude takes precedence over include; an empty include list includes   *)
(* everything.  Letter case: the documentation is silent, the code folds   *)
(* case; generators therefore only produce (name, pattern) pairs whose     *)
(* answer does not depend on case folding (CaseIndependent below).         *)
(***************************************************************************)
EXTENDS Naturals, Sequences, FiniteSets

UL == [A |-> "a", B |-> "b", M |-> "m", X |-> "x", Y |-> "y", P |-> "p"]
LowerC(c) == IF c \in DOMAIN UL THEN UL[c] ELSE c
LowerS(s) == [i \in 1..Len(s) |-> LowerC(s[i])]

IsPrefix(p, s) == Len(p) <= Len(s) /\ SubSeq(s, 1, Len(p)) = p
IsSuffix(p, s) == Len(p) <= Len(s) /\ SubSeq(s, Len(s) - Len(p) + 1, Len(s)) = p
Contains(c, s) == \E i \in 0..Len(s) : i + Len(c) <= Len(s) /\ SubSeq(s, i + 1, i + Len(c)) = c

\* what domain.FilterConfig.Validate accepts: non-empty, no "**", at most one wildcard at each end
ValidPattern(p) == /\ Len(p) > 0
                   /\ \A i \in 2..(Len(p) - 1) : p[i] # "*"
                   /\ p # <<"*", "*">>

MatchRaw(s, p) ==
    IF p = <<"*">> THEN TRUE
    ELSE IF p[1] = "*" /\ p[Len(p)] = "*" THEN Contains(SubSeq(p, 2, Len(p) - 1), s)
    ELSE IF p[1] = "*" THEN IsSuffix(Tail(p), s)
    ELSE IF p[Len(p)] = "*" THEN IsPrefix(SubSeq(p, 1, Len(p) - 1), s)
    ELSE s = p

MatchGlob(s, p) == MatchRaw(LowerS(s), LowerS(p))

\* inc, exc: sequences of valid patterns
Included(name, inc) == \/ inc = <<>>
                       \/ \E i \in 1..Len(inc) : inc[i] = <<"*">>
                       \/ \E i \in 1..Len(inc) : MatchGlob(name, inc[i])
Excluded(name, exc) == \E j \in 1..Len(exc) : MatchGlob(name, exc[j])
Passes(name, inc, exc) == Included(name, inc) /\ ~Excluded(name, exc)

PatsOf(inc, exc) == {inc[i] : i \in 1..Len(inc)} \cup {exc[j] : j \in 1..Len(exc)}
CaseIndependent(name, inc, exc) == \A p \in PatsOf(inc, exc) : MatchRaw(name, p) = MatchGlob(name, p)
=============================================================================
