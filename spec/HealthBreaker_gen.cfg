CONSTANTS Threshold = 3  Timeout = 300  ProbeWindow = 10  Ticks = {3, 11, 301}  MaxLen = ${MaxLen}
SPECIFICATION Spec
CONSTRAINT GenConstraint
INVARIANT Export
CHECK_DEADLOCK FALSE
