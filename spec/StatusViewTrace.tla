--------------------------- MODULE StatusViewTrace ---------------------------
EXTENDS StatusView, TraceLib
CONSTANT KnownDeviations
VARIABLE l
tvars == <<vars, l>>
Is(name) == l <= NEv /\ TLog[l].ev = name
E == TLog[l]
SetOf(s) == {s[i] : i \in 1..Len(s)}
TReset == /\ Is("Reset")
          /\ lists' = [e \in EP |-> IF e \in DOMAIN E.lists THEN SetOf(E.lists[e]) ELSE {}]
          /\ scn' = <<>> /\ l' = l + 1
TStatus == /\ Is("Status") /\ E.st = 200
           /\ Answer(E.total, [m \in DOMAIN E.eps |-> SetOf(E.eps[m])])
           /\ l' = l + 1
TraceInit == lists = [e \in EP |-> {}] /\ scn = <<>> /\ l = 1
TraceNext == TReset \/ TStatus
TraceSpec == TraceInit /\ [][TraceNext]_tvars
HW == HWMark(l)
=============================================================================
