---------------------------- MODULE HealthSchedGen ----------------------------
(* transition cover + suffixes for HealthSched, see HealthBreakerGen *)
EXTENDS HealthSched
CONSTANTS ReachLen, SufLen
VARIABLES phase, suf
gvars == <<vars, phase, suf>>
GInit == Init /\ phase = "reach" /\ suf = 0
\* a scenario step that matters: skip redundant SetBackend chains (SetBackend right after SetBackend)
\* scenarios follow the grammar ( [SetBackend] Tick Round | ProxyFailure | Round )*
Useful == /\ (act = "Tick" => act' \in {"Round", "SlowBegin", "RoundCut"})
          /\ (act' = "RoundCut" => act = "Tick")
          /\ (act = "SetBackend" => act' = "Tick")
          /\ (act' = "Round" /\ act # "Tick" => wait > 0 /\ act # "Round")
GNext == \/ phase = "reach" /\ Len(scn) < ReachLen /\ Next /\ Useful /\ UNCHANGED <<phase, suf>>
         \/ phase = "reach" /\ phase' = "suffix" /\ UNCHANGED <<vars, suf>>
         \/ phase = "suffix" /\ suf < SufLen /\ Next /\ Useful /\ suf' = suf + 1 /\ UNCHANGED phase
GSpec == GInit /\ [][GNext]_gvars
GView == IF phase = "reach" THEN <<core, act, "r">> ELSE <<core, scn, suf>>
GSimNext == phase = "reach" /\ Len(scn) < ReachLen /\ Next /\ Useful /\ UNCHANGED <<phase, suf>>
GSimSpec == GInit /\ [][GSimNext]_gvars
GExportSim == (phase = "reach" /\ Len(scn) = ReachLen) => PrintT(<<"SCN", ToJson(scn)>>)
GExport == (phase = "suffix" /\ suf = SufLen) => PrintT(<<"SCN", ToJson(scn)>>)
=============================================================================
