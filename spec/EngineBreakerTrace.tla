-------------------------- MODULE EngineBreakerTrace --------------------------
EXTENDS EngineBreaker, TraceLib
CONSTANT KnownDeviations
VARIABLE l
tvars == <<vars, l>>
Is(name) == l <= NEv /\ TLog[l].ev = name
Consume  == l' = l + 1 /\ UNCHANGED scn
StName(n) == IF n = 0 THEN "closed" ELSE IF n = 1 THEN "open" ELSE "half"
Projected == failures' = Min(TLog[l].f, Threshold) /\ st' = StName(TLog[l].st)
TReset == /\ Is("Reset")
          /\ failures' = 0 /\ st' = "closed" /\ sinceFail' = SatF
          /\ res' = "none" /\ act' = "Init" /\ consec' = 0 /\ Consume
TAsk  == Is("Ask")  /\ Ask  /\ res' = TLog[l].res /\ Projected /\ Consume
TRace == /\ Is("Race") /\ Race(TLog[l].n) /\ TLog[l].admits >= RaceLo(TLog[l].n) /\ TLog[l].admits <= RaceHi(TLog[l].n)
         /\ Projected /\ Consume
TFail == Is("Fail") /\ Fail /\ Projected /\ Consume
TSucc == Is("Succ") /\ Succ /\ Projected /\ Consume
TTick == Is("Tick") /\ Tick(TLog[l].d) /\ Consume
TraceInit == Init /\ l = 1
TraceNext == TReset \/ TAsk \/ TRace \/ TFail \/ TSucc \/ TTick
TraceSpec == TraceInit /\ [][TraceNext]_tvars
HW == HWMark(l)
=============================================================================
