CONSTANTS EP = {"e1", "e2", "e3"}  Types = {}  NativeChoices = {{}}  PlanKinds = {}
CONSTANT KnownDeviations = ${KnownDeviations}
SPECIFICATION TraceSpec
CONSTRAINT HW
INVARIANT NeverMixedUp
POSTCONDITION Accepted
CHECK_DEADLOCK FALSE
