--------------------------- MODULE LifecycleTrace ---------------------------
(* Trace refinement of Lifecycle: the fake services' Start/Stop calls and the manager's   *)
(* results, as recorded from the real ServiceManager, must be a behaviour of the contract. *)
EXTENDS Lifecycle, TraceLib
CONSTANT KnownDeviations
VARIABLE l
tvars == <<vars, l>>
E == TLog[l]
Is(name) == l <= NEv /\ TLog[l].ev = name
Consume == l' = l + 1
SetOf(seq) == {seq[i] : i \in 1..Len(seq)}

TReset == /\ Is("Reset")
          /\ deps' = [s \in Svcs |-> SetOf(E.deps[s])]
          /\ failStart' = SetOf(E.failStart) /\ failStop' = SetOf(E.failStop)
          /\ phase' = "init" /\ started' = {} /\ stopped' = {} /\ culprit' = "none" /\ Consume
TBegin    == Is("Begin") /\ Begin /\ Consume
TStartSvc == Is("StartSvc") /\ E.s \in Svcs /\ StartSvc(E.s) /\ (E.err <=> E.s \in failStart) /\ Consume
TStopSvc  == Is("StopSvc") /\ E.s \in Svcs /\ StopSvc(E.s) /\ Consume
TStartOK  == Is("StartRet") /\ ~E.err /\ Up /\ Consume
TStartErr == /\ Is("StartRet") /\ E.err
             /\ \/ phase = "failed" /\ UNCHANGED vars          \* invalid graph: Begin already failed it
                \/ phase = "rollback" /\ Done
             /\ Consume
TStopCall == Is("StopCall") /\ Down /\ Consume
TStopRet  == Is("StopRet") /\ phase = "stopping" /\ Done /\ (E.err <=> StopErr) /\ Consume

(* Known finding KF-X01-1 (only if listed): after a failed start the manager stops the services it had *)
(* started in START order (stopServices(started)), i.e. dependencies before their dependants.          *)
KF_X01_1 == /\ "KF-X01-1" \in KnownDeviations
            /\ Is("StopSvc") /\ phase = "rollback" /\ E.s \in Live
            /\ Dependants(E.s) \cap Live # {}
            /\ (deps[E.s] \cap Svcs) \cap Live = {}           \* exactly the start order: its own dependencies are gone already
            /\ stopped' = stopped \cup {E.s}
            /\ UNCHANGED <<deps, failStart, failStop, phase, started, culprit>>
            /\ Consume /\ UseDeviation("KF-X01-1")

TraceInit == /\ deps = [s \in Svcs |-> {}] /\ failStart = {} /\ failStop = {}
             /\ phase = "init" /\ started = {} /\ stopped = {} /\ culprit = "none" /\ l = 1
TraceNext == TReset \/ TBegin \/ TStartSvc \/ TStopSvc \/ TStartOK \/ TStartErr \/ TStopCall \/ TStopRet \/ KF_X01_1
TraceSpec == TraceInit /\ [][TraceNext]_tvars
HW == HWMark(l)
\* invariants that must hold along the recorded behaviour (DepsStillUp is what KF-X01-1 breaks)
TDepsStillUp == "KF-X01-1" \in KnownDeviations \/ DepsStillUp
=============================================================================
