CONSTANTS EP = ${EP}  Types = ${Types}  NativeChoices = {{}}  PlanKinds = {"ok", "reset_pre", "refuse"}
INIT Init
NEXT GenNext
INVARIANT Export
CHECK_DEADLOCK FALSE
