------------------------------ MODULE HealthTick ------------------------------
(***************************************************************************)
(* The timing clause of C07 against the RUNNING checker (StartChecking,    *)
(* its own ticker, real time): after f consecutive failed checks the next  *)
(* probe comes check_interval x 1,2,4,8,12,.. later, after a success       *)
(* check_interval later.  HealthSched.tla checks the same schedule with    *)
(* the scheduler driven by the harness and clocks rewound; this module     *)
(* checks that the checker's own loop honours it in real time.             *)
(*   internal/adapter/health/checker.go  StartChecking, healthCheckLoop,   *)
(*                                       performHealthChecks               *)
(* The harness only measures (gap between consecutive probes of one        *)
(* endpoint, in ms, as the backend saw them); the obligations are here.    *)
(***************************************************************************)
EXTENDS Naturals, Sequences, TLC, Json

CONSTANTS Intervals,   \* check_interval values in ms
          Modes        \* "healthy" (every probe answered 200) | "failing" (every probe answered 503)

VARIABLE scn
Init == \E ci \in Intervals : \E m \in Modes : scn = [ci |-> ci, mode |-> m]
GenNext == FALSE /\ UNCHANGED scn
Export == PrintT(<<"SCN", ToJson(scn)>>)

\* multiplier of the k-th gap: gap k separates probe k from probe k+1; in "failing" mode probe k was the k-th
\* consecutive failure
Mult(mode, k) == IF mode = "healthy" THEN 1
                 ELSE CASE k = 1 -> 1 [] k = 2 -> 2 [] k = 3 -> 4 [] k = 4 -> 8 [] OTHER -> 12
Cap == 60000
Min(a, b) == IF a < b THEN a ELSE b
Due(ci, mode, k) == Min(ci * Mult(mode, k), Cap)
\* the scheduler may look for due endpoints once a second, a failing probe is retried (about 0.5 s), and the machine
\* is shared: a probe is never early by more than Early and never later than Due + Late
Early == 300
Late  == 3000
GapsOK(e) == /\ Len(e.gaps) >= 2                      \* the checker kept probing on its own
             /\ \A k \in 1..Len(e.gaps) : /\ e.gaps[k] + Early >= Due(e.ci, e.mode, k)
                                          /\ e.gaps[k] <= Due(e.ci, e.mode, k) + Late
=============================================================================
