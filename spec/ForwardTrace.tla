----------------------------- MODULE ForwardTrace -----------------------------
EXTENDS Forward, TraceLib
CONSTANT KnownDeviations
VARIABLE l
tvars == <<vars, l>>
Is(name) == l <= NEv /\ TLog[l].ev = name
Consume  == l' = l + 1 /\ UNCHANGED scn
E == TLog[l]
TReset == Is("Reset") /\ sent' = <<>> /\ got' = <<>> /\ Consume
TSend == Is("ClientSend") /\ Send(E.r, E) /\ Consume
TUpstream == Is("Upstream") /\ Upstream(E.r, E) /\ Consume
\* the client's answer: a forwarded request must have reached a backend
TDone == /\ Is("ClientDone") /\ (E.st = 200 => E.r \in DOMAIN got)
         /\ UNCHANGED <<sent, got>> /\ Consume
TraceInit == Init /\ l = 1
TraceNext == TReset \/ TSend \/ TUpstream \/ TDone
TraceSpec == TraceInit /\ [][TraceNext]_tvars
HW == HWMark(l)
=============================================================================
