-------------------------- MODULE HealthBreakerTrace --------------------------
(* Trace refinement of HealthBreaker: every recorded call on the real          *)
(* health.CircuitBreaker must be a step of the specification with the logged   *)
(* answer and the logged projected state (failures, isOpen).                   *)
EXTENDS HealthBreaker, TraceLib

CONSTANT KnownDeviations
VARIABLE l
tvars == <<vars, l>>

Is(name) == l <= NEv /\ TLog[l].ev = name
Consume  == l' = l + 1 /\ UNCHANGED scn
Projected == failures' = Min(TLog[l].f, Threshold) /\ open' = TLog[l].o

TReset == /\ Is("Reset")
          /\ failures' = 0 /\ open' = FALSE /\ sinceFail' = SatF
          /\ probing' = FALSE /\ sinceProbe' = SatP
          /\ res' = "none" /\ act' = "Init" /\ consec' = 0
          /\ Consume
TAsk  == Is("Ask")  /\ Ask  /\ res' = TLog[l].res /\ Projected /\ Consume
\* the burst is repeated from the same state; admits / admitsMin = largest / smallest number admitted in a round
TRace == /\ Is("Race") /\ Race(TLog[l].n)
         /\ TLog[l].admits = RaceAdmits(TLog[l].n) /\ TLog[l].admitsMin = RaceAdmits(TLog[l].n)
         /\ Projected /\ Consume
TFail == Is("Fail") /\ Fail /\ Projected /\ Consume
TSucc == Is("Succ") /\ Succ /\ Projected /\ Consume
TTick == Is("Tick") /\ Tick(TLog[l].d) /\ Consume

(* Known finding KF-C08-1 (only if listed): once the outstanding half-open probe is older *)
(* than the probe window the code admits EVERY caller because lastAttempt is never        *)
(* refreshed.  The deviation explains exactly that: an admit that does not restart the    *)
(* probe clock.                                                                           *)
KF_C08_1 == /\ "KF-C08-1" \in KnownDeviations
            /\ Is("Ask") /\ act' = "Ask"
            /\ HalfOpenWindow /\ probing /\ sinceProbe >= ProbeWindow
            /\ TLog[l].res = "admit" /\ res' = "admit"
            /\ UNCHANGED <<failures, open, sinceFail, probing, sinceProbe, consec>>
            /\ Projected /\ Consume
            /\ UseDeviation("KF-C08-1")

TraceInit == Init /\ l = 1
TraceNext == TReset \/ TAsk \/ TRace \/ TFail \/ TSucc \/ TTick \/ KF_C08_1
TraceSpec == TraceInit /\ [][TraceNext]_tvars
HW == HWMark(l)
=============================================================================
