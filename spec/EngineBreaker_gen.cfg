CONSTANTS Threshold = 5  Timeout = 300  Ticks = {3, 301}  MaxLen = 0
CONSTANTS ReachLen = ${ReachLen}  SufLen = ${SufLen}
SPECIFICATION GSpec
VIEW GView
INVARIANT GExport
CHECK_DEADLOCK FALSE
