CONSTANTS
  Alphabet = {"a", "b", "", ".", "..", "%2e%2e", "%2E.", "..%2f", "%2f", "a;p", "%252e%252e"}
  Plain = {"a", "b"}
  MaxLen = ${MaxLen}
  BaseIds = {"none", "root", "base", "nested", "bquery", "nquery"}
  Preserves = {TRUE, FALSE}
  Rels = {"slash"}
  Prefixes = {"/olla/proxy/"}
  Forms = {"origin", "absolute"}
  Queries = {"", "x=1&y=%2F..%2F"}
  Engines = {"olla"}
  Kinds = {"cfg", "req"}
SPECIFICATION Spec
INVARIANTS TypeOK Inv_C16a Inv_C16b Inv_C16c Inv_C16d Inv_C16e Inv_Aux RefAllowed CleanUnder
CHECK_DEADLOCK FALSE
