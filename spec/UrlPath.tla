------------------------------- MODULE UrlPath -------------------------------
(***************************************************************************)
(* C16 — upstream URLs stay on the configured endpoint and under its base  *)
(* path.                                                                   *)
(*                                                                         *)
(* Mechanism (internal/app/handlers/handler_proxy.go,                      *)
(* handler_provider_common.go, internal/util/request.go StripPrefix,       *)
(* internal/adapter/proxy/common/url_builder.go BuildTargetURL,            *)
(* internal/adapter/discovery/repository.go LoadFromConfig +               *)
(* internal/util/url.go ResolveURLPath):                                   *)
(*                                                                         *)
(*   boot:    the endpoint's relative health_check_url / model_url are     *)
(*            resolved against the endpoint URL (Resolve) and then         *)
(*            requested (Probe);                                           *)
(*   request: the client sends a request target (Send); Go's mux either    *)
(*            answers itself - redirect for uncleaned paths, 4xx - or      *)
(*            hands the percent-DECODED path to the handler (Mux); the     *)
(*            handler strips the route prefix (the remainder `rest`) and   *)
(*            the URL builder produces the upstream URL (Forward); the     *)
(*            client gets an answer (Answer).                              *)
(*                                                                         *)
(* A path is a sequence of segments (the strings between slashes, as       *)
(* spelled on the wire).  The specification does not prescribe WHETHER a   *)
(* request is forwarded (Mux is free) nor how an unclean remainder is      *)
(* normalised; it prescribes what every forwarded request must satisfy     *)
(* (FwdOK) - the clauses of the property.  The model-checked mechanism     *)
(* forwards the reference construction RefPaths (decode once, resolve dot  *)
(* segments clamped at the root, place under the base path), which shows   *)
(* that the clauses are jointly implementable for every input.             *)
(***************************************************************************)
EXTENDS Naturals, Sequences, FiniteSets, TLC, Json

CONSTANTS Alphabet,   \* request path segments explored (as spelled by the client)
          Plain,      \* segments that need no normalisation at all ("clean" targets use only these)
          MaxLen,     \* max number of segments after the route prefix
          BaseIds,    \* endpoint base paths, by name: "none", "root", "base", "nested"
          Preserves,  \* preserve_path values
          Rels,       \* spelling of the relative health/model paths: "slash", "noslash"
          Prefixes,   \* route prefixes
          Forms,      \* "origin", "absolute" (http://decoy/...), "netpath" (//decoy/...)
          Queries,    \* raw query strings ("" = none)
          Engines,    \* proxy engines
          Kinds       \* scenario kinds explored: "cfg" (boot only), "req" (one request)

VARIABLES cfg,   \* [engine, bid, preserve, rel]
          req,   \* [prefix, form, segs, query] of the request in flight
          pc,    \* "cfg" | "ready" | "sent" | "handler" | "done" | "tail" | "dead"
          fwd,   \* what the backend received last for the request: [h, rooted, p, q, dev]
          aux,   \* last resolved / probed configuration URL: [which, h, rooted, p, dev]
          scn    \* the scenario (exported to the harness)

vars == <<cfg, req, pc, fwd, aux, scn>>

-----------------------------------------------------------------------------
(* Configuration data *)

BaseSegs(b) == CASE b = "none"   -> <<>>
                 [] b = "root"   -> <<>>
                 [] b = "base"   -> <<"base">>
                 [] b = "nested" -> <<"base", "nested">>
                 [] b = "bquery" -> <<"base">>          \* a base path AND a query in the configured endpoint URL
                 [] b = "nquery" -> <<>>                \* no base path, but a query
\* the base path as written in the endpoint URL
BaseStr(b)  == CASE b = "none"   -> ""
                 [] b = "root"   -> "/"
                 [] b = "base"   -> "/base"
                 [] b = "nested" -> "/base/nested/"
                 [] b = "bquery" -> "/base?cfgkey=1"
                 [] b = "nquery" -> "?cfgkey=1"
RelSegs(which) == IF which = "health" THEN <<"health">> ELSE <<"v1", "models">>

-----------------------------------------------------------------------------
(* Paths as an origin server reads them *)

\* every spelling of "." and ".." once %2e / %2E is decoded
Dot1 == {".", "%2e", "%2E"}
Dot2 == {"..", ".%2e", ".%2E", "%2e.", "%2E.", "%2e%2e", "%2e%2E", "%2E%2e", "%2E%2E"}

DropLast(s) == IF s = <<>> THEN s ELSE SubSeq(s, 1, Len(s) - 1)

\* resolve dot segments (d1 = spellings of ".", d2 = spellings of ".."), never above the root;
\* merge = also collapse empty segments (repeated slashes) first, as path.Clean / nginx merge_slashes
\* do; without merge this is RFC 3986 5.2.4
RECURSIVE ResD(_, _, _, _, _)
ResD(s, acc, merge, d1, d2) ==
    IF s = <<>> THEN acc
    ELSE LET h == Head(s)  t == Tail(s) IN
         IF h \in d1 THEN ResD(t, acc, merge, d1, d2)
         ELSE IF h \in d2 THEN ResD(t, DropLast(acc), merge, d1, d2)
         ELSE IF h = "" /\ merge THEN ResD(t, acc, merge, d1, d2)
         ELSE ResD(t, Append(acc, h), merge, d1, d2)
\* a path as spelled on the wire, read by an origin server that decodes %2e
Res(s, acc, merge) == ResD(s, acc, merge, Dot1, Dot2)
\* an already decoded path (URL.Path inside the proxy): only literal dots are dot segments
ResDec(s, merge)   == ResD(s, <<>>, merge, {"."}, {".."})

IsPrefix(b, p) == Len(b) <= Len(p) /\ SubSeq(p, 1, Len(b)) = b
\* the path stays under base b.  Servers differ in how they treat repeated slashes next to dot
\* segments; the property does not say, so a path counts as outside only if it is outside under
\* both readings.
Under(p, b) == IsPrefix(b, Res(p, <<>>, FALSE)) \/ IsPrefix(b, Res(p, <<>>, TRUE))

-----------------------------------------------------------------------------
(* The request side *)

NoObs == [h |-> "none", rooted |-> FALSE, p |-> <<>>, q |-> "", dev |-> ""]
NoAux == [which |-> "none", h |-> "none", rooted |-> FALSE, p |-> <<>>, dev |-> ""]
NoReq == [prefix |-> "", form |-> "", segs |-> <<>>, query |-> ""]

CleanReq(r) == \A i \in 1..Len(r.segs) : r.segs[i] \in Plain
Pre          == IF cfg.preserve THEN BaseSegs(cfg.bid) ELSE <<>>
ExpPath      == Pre \o req.segs

\* The clauses of the property on one request received by some listener h ("endpoint" = the
\* configured endpoint's listener; anything else is a different host), with request target
\* /p[1]/.../p[n]?q  (rooted = the target was in origin form, or absolute form naming the endpoint).
C16a(h, rooted)  == h = "endpoint" /\ rooted
C16b(p)          == cfg.preserve => Under(p, BaseSegs(cfg.bid))
C16c(p)          == CleanReq(req) => p = ExpPath
C16d(q)          == q = req.query
FwdOK(h, rooted, p, q) == C16a(h, rooted) /\ C16b(p) /\ C16c(p) /\ C16d(q)

\* configured relative health / model paths resolve to base (+) relative path on the endpoint
C16e(which, h, rooted, p) == h = "endpoint" /\ rooted /\ p = BaseSegs(cfg.bid) \o RelSegs(which)
\* any other request olla makes on its own must at least stay on the endpoint and under its base
AuxOK(h, rooted, p)       == h = "endpoint" /\ rooted /\ Under(p, BaseSegs(cfg.bid))

-----------------------------------------------------------------------------
(* Reference construction (what the model-checked mechanism forwards) *)

\* one level of percent-decoding as done by the HTTP server for URL.Path; %2f becomes a separator
Decode1(s) == CASE s = "%2e%2e"     -> <<"..">>
                [] s = "%2E."       -> <<"..">>
                [] s = "%2e"        -> <<".">>
                [] s = "..%2f"      -> <<"..", "">>
                [] s = "%2f"        -> <<"", "">>
                [] s = "%252e%252e" -> <<"%2e%2e">>
                [] OTHER            -> <<s>>
\* how a decoded segment is spelled again on the wire
Encode1(s) == IF s = "%2e%2e" THEN "%252e%252e" ELSE s

RECURSIVE Flat(_)
Flat(ss) == IF ss = <<>> THEN <<>> ELSE Decode1(Head(ss)) \o Flat(Tail(ss))
Rest(r)  == Flat(r.segs)
Enc(p)   == [i \in 1..Len(p) |-> Encode1(p[i])]

RefPaths == {Pre \o Enc(ResDec(Rest(req), TRUE)), Pre \o Enc(ResDec(Rest(req), FALSE))}

-----------------------------------------------------------------------------
(* Actions *)

Cfgs    == [engine : Engines, bid : BaseIds, preserve : Preserves, rel : Rels]
SegSeqs == UNION {[1..n -> Alphabet] : n \in 0..MaxLen}
Reqs    == [prefix : Prefixes, form : Forms, segs : SegSeqs, query : Queries]

ScnOf(kind, c, r) ==
    [kind |-> kind, engine |-> c.engine, bid |-> c.bid, base |-> BaseStr(c.bid), preserve |-> c.preserve,
     rel |-> c.rel, prefix |-> r.prefix, form |-> r.form, segs |-> r.segs, query |-> r.query]

Init == /\ cfg \in Cfgs
        /\ \/ "cfg" \in Kinds /\ req = NoReq /\ pc = "cfg" /\ scn = ScnOf("cfg", cfg, NoReq)
           \/ "req" \in Kinds /\ req \in Reqs /\ pc = "ready" /\ scn = ScnOf("req", cfg, req)
        /\ fwd = NoObs /\ aux = NoAux

\* LoadFromConfig resolved `which` to host h, path p
Resolve(which, h, rooted, p) ==
    /\ pc = "cfg"
    /\ C16e(which, h, rooted, p)
    /\ aux' = [which |-> which, h |-> h, rooted |-> rooted, p |-> p, dev |-> ""]
    /\ UNCHANGED <<cfg, req, pc, fwd, scn>>

\* the health checker / model discovery requested it
Probe(which, h, rooted, p) ==
    /\ pc \in {"cfg", "tail"}
    /\ IF which \in {"health", "models"} THEN C16e(which, h, rooted, p) ELSE AuxOK(h, rooted, p)
    /\ aux' = [which |-> which, h |-> h, rooted |-> rooted, p |-> p, dev |-> ""]
    /\ UNCHANGED <<cfg, req, pc, fwd, scn>>

Send == /\ pc = "ready" /\ pc' = "sent"
        /\ UNCHANGED <<cfg, req, fwd, aux, scn>>

\* the mux hands the request to the proxy handler - or not (redirect, 4xx): left free
Mux == /\ pc = "sent" /\ pc' \in {"handler", "done"}
       /\ UNCHANGED <<cfg, req, fwd, aux, scn>>

\* a listener received the upstream request; retries may repeat it
Forward(h, rooted, p, q) ==
    /\ pc \in {"sent", "handler"}
    /\ FwdOK(h, rooted, p, q)
    /\ fwd' = [h |-> h, rooted |-> rooted, p |-> p, q |-> q, dev |-> ""]
    /\ pc' = "handler"
    /\ UNCHANGED <<cfg, req, aux, scn>>

Answer == /\ pc \in {"sent", "handler"} /\ pc' = "done"
          /\ UNCHANGED <<cfg, req, fwd, aux, scn>>

Next == \/ \E w \in {"health", "models"} :
              \/ Resolve(w, "endpoint", TRUE, BaseSegs(cfg.bid) \o RelSegs(w))
              \/ Probe(w, "endpoint", TRUE, BaseSegs(cfg.bid) \o RelSegs(w))
        \/ Send \/ Mux \/ Answer
        \/ pc = "handler" /\ \E p \in RefPaths : Forward("endpoint", TRUE, p, req.query)

Spec == Init /\ [][Next]_vars

-----------------------------------------------------------------------------
(* Property C16, as state invariants over what was received last *)

Seen == fwd.h # "none" /\ fwd.dev = ""
\* the contacted backend is the configured endpoint - never the decoy, never another authority
Inv_C16a == Seen => fwd.h = "endpoint" /\ fwd.rooted
\* with preserve_path the received path, dot segments resolved and %2e decoded, is under the base path
Inv_C16b == Seen /\ cfg.preserve => Under(fwd.p, BaseSegs(cfg.bid))
\* clean targets arrive as exactly base (+) rest (preserve_path) or rest
Inv_C16c == Seen /\ CleanReq(req) => fwd.p = ExpPath
\* the raw query is identical
Inv_C16d == Seen => fwd.q = req.query
\* relative health_check_url / model_url resolve under the base path
Inv_C16e == aux.which \in {"health", "models"} /\ aux.dev = ""
                => aux.h = "endpoint" /\ aux.p = BaseSegs(cfg.bid) \o RelSegs(aux.which)
Inv_Aux  == aux.which \notin {"none", "health", "models"} /\ aux.dev = ""
                => aux.h = "endpoint" /\ Under(aux.p, BaseSegs(cfg.bid))

\* the reference construction satisfies every clause for every input (the clauses are implementable,
\* and agree with each other on clean targets)
RefAllowed == pc = "handler" => \A p \in RefPaths : FwdOK("endpoint", TRUE, p, req.query)
\* base (+) rest of a clean target is under the base path under either reading of repeated slashes
CleanUnder == CleanReq(req) => /\ IsPrefix(Pre, Res(ExpPath, <<>>, FALSE))
                               /\ IsPrefix(Pre, Res(ExpPath, <<>>, TRUE))

\* vacuity companions: TLC must VIOLATE these (UrlPath_reach.cfg)
Reach_Forwarded == ~(Seen /\ cfg.preserve /\ ~CleanReq(req) /\ Len(BaseSegs(cfg.bid)) = 2 /\ Len(fwd.p) = 2)
Reach_Clean     == ~(Seen /\ CleanReq(req) /\ Len(req.segs) = MaxLen /\ cfg.preserve)
Reach_Probe     == ~(aux.which = "models" /\ cfg.bid = "nested")

TypeOK == /\ cfg \in Cfgs
          /\ pc \in {"cfg", "ready", "sent", "handler", "done", "tail", "dead"}
          /\ fwd.h \in {"none", "endpoint"}

-----------------------------------------------------------------------------
(* Scenario export: every initial state is one scenario *)
Export  == PrintT(<<"SCN", ToJson(scn)>>)
GenNext == FALSE /\ UNCHANGED vars
GenSpec == Init /\ [][GenNext]_vars
=============================================================================
