CONSTANTS Procs = {p1, p2}  FailureThreshold = 2  SuccessThreshold = 2  HalfOpenRequests = 1  OpenDuration = 2
          Locked = FALSE  MaxOps = 6
SPECIFICATION Spec
INVARIANTS TypeOK BoundedProbes
CHECK_DEADLOCK FALSE
