CONSTANTS CIs = ${CIs}  Outcomes = ${Outcomes}  Ticks = ${Ticks}
          MaxBackoff = 60  MaxMult = 12  CapCF = 7  CapCB = 1000
CONSTANTS ReachLen = ${ReachLen}  SufLen = ${SufLen}
SPECIFICATION GSpec
VIEW GView
INVARIANT GExport
CHECK_DEADLOCK FALSE
