------------------------------- MODULE Routing -------------------------------
(***************************************************************************)
(* Model-aware routing: strategy x fallback decision table and what the    *)
(* handler does with it.                                                   *)
(*   internal/adapter/registry/routing/{strict,optimistic,discovery}_strategy.go *)
(*   internal/adapter/registry/{unified_memory_registry,routing_registry}.go     *)
(*   internal/app/handlers/handler_proxy.go  filterEndpointsByProfile            *)
(*   internal/adapter/proxy/core/common.go   routing-decision headers            *)
(* One request per behaviour: the environment fixes the configuration, the  *)
(* healthy set H and the set L of endpoints whose latest listing contains   *)
(* the requested model; olla decides, dispatches and answers.               *)
(***************************************************************************)
EXTENDS Naturals, FiniteSets, Sequences, TLC, Json

CONSTANTS EP, Strategies, Fallbacks,
          CTypes,     \* GEN: what the request says its body is ("json", "form" = curl -d's default, "none" = nothing;
                      \* "bigjson" = JSON of 1.6 MiB, more than the inspector reads; "oddpath" = JSON sent to a path
                      \* no profile declares)
          Spellings   \* GEN: how the request spells the model relative to the listings ("exact", "case", "tag", "uid", "alias")

VARIABLES strategy, fallback, refresh,   \* configuration
          H, L,                          \* healthy endpoints; endpoints listing the requested model
          phase,                         \* "cfg" | "sent" | "served" | "answered"
          served,                        \* endpoint that received the request, or "none"
          scn

vars == <<strategy, fallback, refresh, H, L, phase, served, scn>>

\* the decision the property prescribes, for the set Lx of endpoints taken to list the requested model
Lenient == strategy \in {"optimistic", "discovery"} /\ fallback = "all"
ActionOf(Lx)  == IF H \cap Lx # {} THEN "routed"
                 ELSE IF Lenient THEN "fallback" ELSE "rejected"
TargetsOf(Lx) == IF H \cap Lx # {} THEN H \cap Lx
                 ELSE IF Lenient THEN H ELSE {}
\* status the client must see when routing rejects: not found vs unavailable
RejectStatusOf(Lx) == IF Lx = {} THEN 404 ELSE 503
\* How the request spells the model.  By its native name, by the unified id or by an alias olla itself publishes
\* for it, the model IS listed by L (the property's own words).  A spelling olla does not publish -- another
\* letter case, a ":latest" tag added -- may be taken for the listed model or for an unknown one, but for nothing
\* else: the behaviour must be the prescribed one for L or for the empty set.
Spelling == IF "spelling" \in DOMAIN scn THEN scn.spelling ELSE "exact"
Ls == IF Spelling \in {"case", "tag"} THEN {L, {}} ELSE {L}
Action       == ActionOf(L)
Targets      == TargetsOf(L)
RejectStatus == RejectStatusOf(L)

Init == /\ strategy \in Strategies /\ fallback \in Fallbacks /\ refresh \in BOOLEAN
        /\ H \in SUBSET EP /\ L \in SUBSET EP
        /\ phase = "cfg" /\ served = "none"
        \* D: endpoints that listed the model at boot and dropped it in a later listing of the same size;
        \* ch: the client sends its body chunked
        \* rl: how the endpoints in D re-listed -- the model swapped for another one, or nothing listed at all
        /\ \E u \in BOOLEAN : \E rt \in {"proxy", "provider"} : \E D \in SUBSET (EP \ L) : \E ch \in BOOLEAN :
           \E rl \in {"swap", "empty"} : \E sp \in Spellings : \E ct \in CTypes : (D = {} => rl = "swap") /\
              \* a body that names its model is routed by it whatever Content-Type the client put on it
              (ct # "json" => (sp = "exact" /\ D = {} /\ ~ch)) /\
              \* spelling variants are explored on the plain shape (nothing dropped, body not chunked); a unified id or
              \* an alias exists only with the unified registry
              (sp # "exact" => (D = {} /\ ~ch /\ L # {})) /\ (sp \in {"uid", "alias"} => (u /\ rt = "proxy")) /\
              scn = [strategy |-> strategy, fallback |-> fallback, refresh |-> refresh,
                     H |-> H, L |-> L, unifier |-> u, route |-> rt, D |-> D, chunked |-> ch, relist |-> rl, spelling |-> sp, ctype |-> ct]

Send == phase = "cfg" /\ phase' = "sent" /\ UNCHANGED <<strategy, fallback, refresh, H, L, served, scn>>
\* the request reaches backend e: only a target of the decision may be contacted (C09 safety)
Dispatch(e) == /\ phase = "sent" /\ \E Lx \in Ls : e \in TargetsOf(Lx)
               /\ phase' = "served" /\ served' = e
               /\ UNCHANGED <<strategy, fallback, refresh, H, L, scn>>
\* the client's answer: st = status; hs/hd = routing strategy/decision headers ("" when absent)
Answer(st, hs, hd) ==
    /\ phase \in {"sent", "served"}
    /\ \E Lx \in Ls :
       /\ IF phase = "served"
          THEN st = 200 /\ served \in TargetsOf(Lx)        \* backends answer 200 in these scenarios
          ELSE /\ TargetsOf(Lx) = {} \/ H = {}              \* nobody was contacted only if nobody could be
               /\ st >= 400
               \* 404 not found / 503 unavailable; with no healthy endpoint at all AND nobody listing the model
               \* either reading is accepted ("no endpoint lists it" and "nothing is available" are both true)
               \* (on a provider route with no healthy endpoint the provider filter answers before model routing
               \* is consulted; C11 only asks for "an error" there)
               /\ (ActionOf(Lx) = "rejected" => IF H # {} \/ (Lx # {} /\ scn.route = "proxy") THEN st = RejectStatusOf(Lx) ELSE st \in {404, 503})
       \* the headers, whenever present, agree with what was actually done
       /\ (hs # "" => hs = strategy)
       \* (when there was nobody to send it to, reporting the outcome as "rejected" also agrees with what was done)
       /\ (hd # "" => (hd = ActionOf(Lx) \/ (TargetsOf(Lx) = {} /\ hd = "rejected")))
    /\ phase' = "answered"
    /\ UNCHANGED <<strategy, fallback, refresh, H, L, served, scn>>

Next == Send \/ (\E e \in EP : Dispatch(e))
        \/ (phase = "served" /\ Answer(200, strategy, Action))
        \/ (phase = "sent" /\ Targets = {} /\ Answer(IF Action = "rejected" THEN RejectStatus ELSE 502, strategy, Action))
Spec == Init /\ [][Next]_vars

-----------------------------------------------------------------------------
(* Property C09 *)
\* never sends a model where it is not served (unless the configuration asks for the healthy set)
ServedWhereListed == (served # "none" /\ phase # "stale") =>
                        /\ served \in H
                        /\ (~Lenient => served \in L)
                        /\ ((H \cap L # {} /\ Spelling \notin {"case", "tag"}) => served \in L)
TypeOK == phase \in {"cfg", "sent", "served", "answered", "stale"} /\ served \in EP \cup {"none"}
GenNext == FALSE /\ UNCHANGED vars
Export == phase = "cfg" => PrintT(<<"SCN", ToJson(scn)>>)
=============================================================================
