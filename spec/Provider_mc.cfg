CONSTANTS EP = {"e1", "e2"}  Prefixes = {"ollama", "openai"}  Types = {"ollama", "vllm", "auto"}
CONSTANT Focus = FALSE
CONSTANT Strats = {"plain"}
CONSTANT FlipFocus = FALSE
CONSTANT DropFocus = FALSE
CONSTANT AllowedChoices = {{}, {"ollama"}, {"ollama", "vllm"}}
SPECIFICATION Spec
INVARIANT StaysInside
CHECK_DEADLOCK FALSE
