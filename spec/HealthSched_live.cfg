CONSTANTS CIs = {5}  Outcomes = {"ok", "http5xx", "refuse"}  Ticks = {5, 61}
          MaxBackoff = 60  MaxMult = 12  CapCF = 6  CapCB = 1
SPECIFICATION LiveSpec
PROPERTY Recovers
CHECK_DEADLOCK FALSE
