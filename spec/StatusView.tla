------------------------------ MODULE StatusView ------------------------------
(***************************************************************************)
(* The catalogue as the status page shows it (C10: "... and the counts     *)
(* shown in statistics"): GET /internal/status/models over a catalogue     *)
(* that does not change, asked by one client or by several at once.        *)
(*   internal/app/handlers/handler_status_models.go  modelsStatusHandler   *)
(* Every answer -- whoever else is asking at the same moment -- names      *)
(* exactly the models some endpoint listed, each with exactly the          *)
(* endpoints that listed it.                                               *)
(***************************************************************************)
EXTENDS Naturals, FiniteSets, Sequences, TLC, Json

CONSTANTS EP, Models, Widths

VARIABLES lists,     \* [EP -> SUBSET Models]: what each endpoint listed at its (only) discovery
          scn
vars == <<lists, scn>>

Init == /\ lists \in [EP -> SUBSET Models]
        /\ \E w \in Widths : scn = [lists |-> lists, width |-> w]

Listed == UNION {lists[e] : e \in EP}
Sources(m) == {e \in EP : m \in lists[e]}
\* one answer of the status page: total = number of models it counts, eps = model -> endpoints it names
Answer(total, eps) == /\ total = Cardinality(Listed)
                      /\ DOMAIN eps = Listed
                      /\ \A m \in Listed : eps[m] = Sources(m)
                      /\ UNCHANGED vars

Next == Answer(Cardinality(Listed), [m \in Listed |-> Sources(m)])
Spec == Init /\ [][Next]_vars
GenNext == FALSE /\ UNCHANGED vars
Export == PrintT(<<"SCN", ToJson(scn)>>)
=============================================================================
