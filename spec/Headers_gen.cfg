CONSTANTS Engines = {"sherpa", "olla"}  Paths = ${Paths}
          SensNames = ${SensNames}  HopNames = ${HopNames}  FwdNames = ${FwdNames}  OtherNames = ${OtherNames}
          Variants = ${Variants}  Shape = "${Shape}"  Pads = ${Pads}  Stride = ${Stride}
SPECIFICATION Spec
INVARIANT Export
CHECK_DEADLOCK FALSE
