CONSTANTS Eps = {"e1", "e2", "e3"}  MaxLen = 0
CONSTANTS Listings = {}  BadLists = {}  FailKinds = {}  FilterChoices = {}  Probe = {}
CONSTANT KnownDeviations = ${KnownDeviations}
SPECIFICATION TraceSpec
CONSTRAINT HW
INVARIANTS TypeOK Inv_C10_count OnlyFiltered
PROPERTIES RejectedKeepsRef
POSTCONDITION Accepted
CHECK_DEADLOCK FALSE
