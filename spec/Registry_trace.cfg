CONSTANTS Eps = {"e1", "e2", "e3"}  MaxLen = 0
CONSTANTS Listings = {}  BadLists = {}  FailKinds = {}  FilterChoices = {}  Probe = {}  FailBodies = {}  WithConcurrency = FALSE
CONSTANT KnownDeviations = ${KnownDeviations}
SPECIFICATION TraceSpec
CONSTRAINT HW
INVARIANTS TypeOK Inv_C10_count
PROPERTIES RejectedKeepsRef
POSTCONDITION Accepted
CHECK_DEADLOCK FALSE
