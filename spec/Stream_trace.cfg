CONSTANTS RT = 0  N = 0  MaxGap = 0
CONSTANT KnownDeviations = ${KnownDeviations}
SPECIFICATION TraceSpec
CONSTRAINT HW
POSTCONDITION Accepted
CHECK_DEADLOCK FALSE
