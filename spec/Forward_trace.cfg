CONSTANTS BodyClasses = {}  LenModes = {}  Routes = {}  Queries = {}  Methods = {}
CONSTANT KnownDeviations = ${KnownDeviations}
SPECIFICATION TraceSpec
CONSTRAINT HW
INVARIANT NoCrossTalk
POSTCONDITION Accepted
CHECK_DEADLOCK FALSE
