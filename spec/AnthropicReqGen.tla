---------------------------- MODULE AnthropicReqGen ----------------------------
(***************************************************************************)
(* Enumerates abstract Anthropic requests for AnthropicReq.                *)
(* A request is built step by step and every state is exported:            *)
(*   AddMsg     appends one turn (conversation family; all prefixes,       *)
(*              including the empty conversation, are scenarios too)       *)
(*   Deviate    changes one configuration field of a base configuration to *)
(*              another value of its domain (fields in increasing order,   *)
(*              at most MaxDev of them: MaxDev = 2 is all pairs), on one   *)
(*              of the base conversations.                                 *)
(* With -simulate the same module gives random long conversations.         *)
(***************************************************************************)
EXTENDS AnthropicReq, Json

CONSTANTS MaxMsgs,     \* turns per conversation
          MaxBlocks,   \* blocks per turn
          Alphabet,    \* "small" | "full"
          Roles,       \* "alt" (user, assistant, user, ...) | "any"
          Bases,       \* base configurations for AddMsg / Deviate: subset of {"default", "rich"}
          MaxDev,      \* configuration fields changed (0 = conversation family only)
          OnlyBases,   \* TRUE: build only the base conversations (configuration family)
          DevAnywhere, \* TRUE: random-walk mode (-simulate): the request grows block by block and
                       \* configuration changes interleave freely; only walks of WalkLen steps are exported
          WalkLen

VARIABLES ndev, lastd, steps
gvars == <<vars, ndev, lastd, steps>>

UB == IF Alphabet = "small" THEN UserBlocksSmall ELSE UserBlocksFull
AB == IF Alphabet = "small" THEN AsstBlocksSmall ELSE AsstBlocksFull
StrForms == IF Alphabet = "small" THEN {Blk("text", 0, "na")} ELSE {Blk("text", 0, "na"), Blk("etext", 0, "na")}
GMsgs(role) == {[role |-> role, form |-> "blocks", blocks |-> bs] :
                   bs \in UNION {[1..q -> (IF role = "user" THEN UB ELSE AB)] : q \in 1..MaxBlocks}}
               \cup {[role |-> role, form |-> "str", blocks |-> <<b>>] : b \in StrForms}
               \* a turn whose content is JSON null / has no content member at all: not a Messages request
               \cup (IF Alphabet = "small" THEN {} ELSE {[role |-> role, form |-> f, blocks |-> <<>>] : f \in {"null", "absent"}})
RolesAt(n) == IF Roles = "alt" THEN {IF n % 2 = 1 THEN "user" ELSE "assistant"} ELSE {"user", "assistant"}
BaseCfg(b) == IF b = "rich" THEN RichCfg ELSE DefaultCfg

GInit == /\ req \in {[msgs |-> <<>>, cfg |-> BaseCfg(b)] : b \in Bases}
         /\ res = NoRes /\ hres = NoH /\ act = "Gen" /\ dev = {}
         /\ ndev = 0 /\ lastd = 0 /\ steps = 0

AddMsg == /\ ~DevAnywhere /\ ndev = 0 /\ Len(req.msgs) < MaxMsgs
          /\ \E role \in RolesAt(Len(req.msgs) + 1) : \E m \in GMsgs(role) :
                /\ req' = [req EXCEPT !.msgs = Append(@, m)]
                /\ OnlyBases => \E bc \in {BaseConv1, BaseConv2} :
                                    /\ Len(bc) > Len(req.msgs)
                                    /\ SubSeq(bc, 1, Len(req.msgs) + 1) = Append(req.msgs, m)
          /\ steps' = steps + 1
          /\ UNCHANGED <<res, hres, act, dev, ndev, lastd>>

Deviate == /\ ndev < MaxDev
           /\ (DevAnywhere \/ req.msgs \in {<<>>, BaseConv1, BaseConv2})
           /\ \E d \in (lastd + 1)..Len(DimNames) : \E v \in DimVals(DimNames[d]) \ {req.cfg[DimNames[d]]} :
                 /\ req' = [req EXCEPT !.cfg[DimNames[d]] = v]
                 /\ lastd' = d
           /\ ndev' = ndev + 1 /\ steps' = steps + 1
           /\ UNCHANGED <<res, hres, act, dev>>

\* random-walk mode: small fan-out per step (one block at a time)
NewMsg == /\ DevAnywhere /\ Len(req.msgs) < MaxMsgs
          /\ \E role \in RolesAt(Len(req.msgs) + 1) :
                \E m \in {[role |-> role, form |-> "blocks", blocks |-> <<b>>] : b \in (IF role = "user" THEN UB ELSE AB)}
                          \cup {[role |-> role, form |-> "str", blocks |-> <<b>>] : b \in StrForms}
                          \cup {[role |-> role, form |-> f, blocks |-> <<>>] : f \in {"null", "absent"}} :
                   req' = [req EXCEPT !.msgs = Append(@, m)]
          /\ steps' = steps + 1
          /\ UNCHANGED <<res, hres, act, dev, ndev, lastd>>
AddBlock == /\ DevAnywhere /\ Len(req.msgs) >= 1
            /\ LET n == Len(req.msgs) last == req.msgs[n] IN
                 /\ last.form = "blocks" /\ Len(last.blocks) < MaxBlocks
                 /\ \E b \in (IF last.role = "user" THEN UB ELSE AB) :
                       req' = [req EXCEPT !.msgs[n].blocks = Append(@, b)]
            /\ steps' = steps + 1
            /\ UNCHANGED <<res, hres, act, dev, ndev, lastd>>

GNext == AddMsg \/ Deviate \/ NewMsg \/ AddBlock
GSpec == GInit /\ [][GNext]_gvars
GExport == (DevAnywhere => steps = WalkLen) => PrintT(<<"SCN", ToJson(req)>>)
=============================================================================
