CONSTANT KnownDeviations = ${KnownDeviations}
SPECIFICATION TraceSpec
CONSTRAINT HW
INVARIANTS ScalarsKept SystemFirst OrderKept ToolsKept ChoiceKept InvalidRefused InvalidRefused2 ValidTranslated
POSTCONDITION Accepted
CHECK_DEADLOCK FALSE
