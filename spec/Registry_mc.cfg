CONSTANTS Eps = {"e1", "e2"}  MaxLen = ${MaxLen}
CONSTANTS Listings <- ListingsQuick  BadLists <- BadQuick  FailKinds <- FailQuick
CONSTANTS FilterChoices <- FiltersQuick  Probe <- ProbeAll  FailBodies <- BodiesOne  WithConcurrency = ${Conc}
SPECIFICATION Spec
VIEW View
INVARIANTS TypeOK Inv_C10_base Inv_C10_unified Inv_C10_nostale Inv_C10_count OnlyFiltered
PROPERTIES RejectedKeeps OnlyUpdatesChange
CHECK_DEADLOCK FALSE
