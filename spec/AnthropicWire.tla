---------------------------- MODULE AnthropicWire ----------------------------
(***************************************************************************)
(* C13 through the assembled server: the Anthropic event stream a client   *)
(* receives for a streamed OpenAI completion, however the BACKEND's bytes   *)
(* were cut into writes on their way through the proxy engine, the handler's *)
(* response recorder, the pipe and the translator                           *)
(*   internal/app/handlers/handler_translation.go                           *)
(*     executeTranslatedStreamingRequest, streamingResponseRecorder         *)
(* The translator's grammar is specified and checked event by event in      *)
(* AnthropicStream.tla; here the harness summarises the client's stream and *)
(* this module states what the summary must say.                            *)
(***************************************************************************)
EXTENDS Naturals, Sequences, TLC, Json

CONSTANTS Engines, Cuts, Fins, Shapes
VARIABLE scn

\* the summary s of one received stream, for a completion with the given text / tool call / finish reason
StopOf(fin, hasTool) == IF hasTool /\ fin = "tool_calls" THEN "tool_use"
                        ELSE IF fin = "length" THEN "max_tokens" ELSE "end_turn"
WireOK(s) ==
    /\ s.st = 200 /\ s.complete
    /\ s.first = "message_start" /\ s.last = "message_stop"          \* one start first, a final stop
    /\ s.starts = 1 /\ s.stops = 1 /\ s.deltas = 1
    /\ s.blockStarts = s.blockStops                                  \* every block opened is closed ...
    /\ s.nested = 0 /\ s.orphan = 0                                  \* ... before the next opens; deltas only while open
    /\ s.textOK                                                      \* the deltas reproduce the backend's text
    /\ (s.hasTool => s.toolOK)                                       \* ... and the tool call's id, name, arguments
    /\ s.stop = StopOf(s.fin, s.hasTool)
    /\ s.uout = s.expUout

\* only completions whose finish reason fits what they contain (a backend that says "tool_calls" without a
\* tool call, or "stop" after one, is outside the property)
Fits(sh, f) == IF sh = "text" THEN f \in {"stop", "length"} ELSE f \in {"tool_calls", "length"}
Init == \E en \in Engines : \E c \in Cuts : \E f \in Fins : \E sh \in Shapes :
           Fits(sh, f) /\ scn = [engine |-> en, cut |-> c, fin |-> f, shape |-> sh]
Next == FALSE /\ UNCHANGED scn
Export == PrintT(<<"SCN", ToJson(scn)>>)
=============================================================================
