----------------------------- MODULE RoutingTrace -----------------------------
EXTENDS Routing, TraceLib
CONSTANT KnownDeviations
VARIABLES l,
          unified, D     \* trace-only: unified registry in use; endpoints that dropped the model
tvars == <<vars, l, unified, D>>
Is(name) == l <= NEv /\ TLog[l].ev = name
Consume  == l' = l + 1 /\ UNCHANGED <<scn, unified, D>>
E == TLog[l]
SetOf(s) == {s[i] : i \in 1..Len(s)}

\* Reset carries the configuration and the observed H (repository) and L (what the backends list)
TReset == /\ Is("Reset")
          /\ strategy' = E.strategy /\ fallback' = E.fallback /\ refresh' = E.refresh
          /\ H' = SetOf(E.H) /\ L' = SetOf(E.L)
          /\ phase' = "cfg" /\ served' = "none"
          /\ unified' = E.unifier /\ D' = SetOf(E.D)
          /\ l' = l + 1 /\ scn' = [route |-> E.route, spelling |-> E.spelling]    \* Answer looks at the route family and the spelling
TSend == Is("ClientSend") /\ Send /\ Consume
TBackendRecv == Is("BackendRecv") /\ Dispatch(E.e) /\ Consume
TClientDone == Is("ClientDone") /\ Answer(E.st, E.hs, E.hd) /\ Consume

(* Known finding KF-C09-1 (only if listed): the discovery strategy with discovery_refresh_on_miss = false *)
(* rejects a request whose model no healthy endpoint lists even when fallback_behavior = "all" and healthy *)
(* endpoints exist; the property sends it to the healthy set.                                             *)
KF_C09_1 == /\ "KF-C09-1" \in KnownDeviations
            /\ Is("ClientDone") /\ phase = "sent"
            /\ strategy = "discovery" /\ fallback = "all" /\ ~refresh /\ H # {} /\ H \cap L = {}
            /\ E.st \in {404, 503} /\ E.hd \in {"", "rejected"} /\ E.hs \in {"", strategy}
            /\ phase' = "answered" /\ UNCHANGED <<strategy, fallback, refresh, H, L, served>>
            /\ Consume /\ UseDeviation("KF-C09-1")

(* Known finding KF-C09-5 (only if listed): with the unified registry an endpoint that dropped the model in  *)
(* a later listing stays a source of the unified model (unifyModelsAsync only ever merges), so a request  *)
(* for the model is still routed to it. D = endpoints that listed the model earlier and dropped it.         *)
KF_C09_5_Recv == /\ "KF-C09-5" \in KnownDeviations
                 /\ Is("BackendRecv") /\ phase = "sent" /\ unified /\ E.e \in (H \cap D) /\ E.e \notin Targets
                 /\ phase' = "stale" /\ served' = E.e
                 /\ UNCHANGED <<strategy, fallback, refresh, H, L>> /\ unified' = unified /\ D' = D
                 /\ l' = l + 1 /\ UNCHANGED scn /\ UseDeviation("KF-C09-5")
KF_C09_5_Done == /\ "KF-C09-5" \in KnownDeviations
                 /\ Is("ClientDone") /\ phase = "stale" /\ E.st = 200
                 /\ phase' = "answered" /\ served' = "none" /\ UNCHANGED <<strategy, fallback, refresh, H, L>> /\ unified' = unified /\ D' = D
                 /\ l' = l + 1 /\ UNCHANGED scn

\* same root cause seen through the header: the stale entry makes olla report "routed" although no
\* listing contains the model any more (the request went to a member of the lenient fallback set)
KF_C09_5_Hdr == /\ "KF-C09-5" \in KnownDeviations
                /\ Is("ClientDone") /\ phase = "served" /\ unified /\ served \in D /\ H \cap L = {}
                /\ E.st = 200 /\ E.hd = "routed" /\ E.hs \in {"", strategy}
                /\ phase' = "answered" /\ UNCHANGED <<strategy, fallback, refresh, H, L, served>> /\ unified' = unified /\ D' = D
                /\ l' = l + 1 /\ UNCHANGED scn /\ UseDeviation("KF-C09-5")

\* ... and through the status: a stale unhealthy "source" turns not-found (404) into unavailable (503)
KF_C09_5_Status == /\ "KF-C09-5" \in KnownDeviations
                   /\ Is("ClientDone") /\ phase = "sent" /\ unified /\ L = {} /\ D \ H # {} /\ H \cap D = {}
                   /\ Action = "rejected" /\ E.st = 503 /\ E.hd \in {"", "rejected"} /\ E.hs \in {"", strategy}
                   /\ phase' = "answered" /\ UNCHANGED <<strategy, fallback, refresh, H, L, served>> /\ unified' = unified /\ D' = D
                   /\ l' = l + 1 /\ UNCHANGED scn /\ UseDeviation("KF-C09-5")

TraceInit == /\ strategy = "strict" /\ fallback = "none" /\ refresh = FALSE /\ H = {} /\ L = {}
             /\ phase = "answered" /\ served = "none" /\ scn = <<>> /\ l = 1 /\ unified = FALSE /\ D = {}
TraceNext == TReset \/ TSend \/ TBackendRecv \/ TClientDone \/ KF_C09_1 \/ KF_C09_5_Recv \/ KF_C09_5_Done \/ KF_C09_5_Hdr \/ KF_C09_5_Status
TraceSpec == TraceInit /\ [][TraceNext]_tvars
HW == HWMark(l)
=============================================================================
