----------------------------- MODULE RoutingTrace -----------------------------
EXTENDS Routing, TraceLib
CONSTANT KnownDeviations
VARIABLE l
tvars == <<vars, l>>
Is(name) == l <= NEv /\ TLog[l].ev = name
Consume  == l' = l + 1 /\ UNCHANGED scn
E == TLog[l]
SetOf(s) == {s[i] : i \in 1..Len(s)}

\* Reset carries the configuration and the observed H (repository) and L (what the backends list)
TReset == /\ Is("Reset")
          /\ strategy' = E.strategy /\ fallback' = E.fallback /\ refresh' = E.refresh
          /\ H' = SetOf(E.H) /\ L' = SetOf(E.L)
          /\ phase' = "cfg" /\ served' = "none" /\ Consume
TSend == Is("ClientSend") /\ Send /\ Consume
TBackendRecv == Is("BackendRecv") /\ Dispatch(E.e) /\ Consume
TClientDone == Is("ClientDone") /\ Answer(E.st, E.hs, E.hd) /\ Consume

(* Known finding KF-C09-1 (only if listed): the discovery strategy with discovery_refresh_on_miss = false *)
(* rejects a request whose model no healthy endpoint lists even when fallback_behavior = "all" and healthy *)
(* endpoints exist; the property sends it to the healthy set.                                             *)
KF_C09_1 == /\ "KF-C09-1" \in KnownDeviations
            /\ Is("ClientDone") /\ phase = "sent"
            /\ strategy = "discovery" /\ fallback = "all" /\ ~refresh /\ H # {} /\ H \cap L = {}
            /\ E.st = (IF L = {} THEN 404 ELSE 503) /\ E.hd \in {"", "rejected"} /\ E.hs \in {"", strategy}
            /\ phase' = "answered" /\ UNCHANGED <<strategy, fallback, refresh, H, L, served>>
            /\ Consume /\ UseDeviation("KF-C09-1")

TraceInit == /\ strategy = "strict" /\ fallback = "none" /\ refresh = FALSE /\ H = {} /\ L = {}
             /\ phase = "answered" /\ served = "none" /\ scn = <<>> /\ l = 1
TraceNext == TReset \/ TSend \/ TBackendRecv \/ TClientDone \/ KF_C09_1
TraceSpec == TraceInit /\ [][TraceNext]_tvars
HW == HWMark(l)
=============================================================================
