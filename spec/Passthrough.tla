----------------------------- MODULE Passthrough -----------------------------
(***************************************************************************)
(* Anthropic route: passthrough vs translation.                            *)
(*   internal/app/handlers/handler_translation.go  translationHandler,     *)
(*       tryPassthrough, executePassthroughRequest, executeTranslationRequest*)
(*   internal/adapter/translator/anthropic  CanPassthrough, PreparePassthrough*)
(*   config/profiles/*.yaml  anthropic_support.enabled                     *)
(* native = endpoint types whose profile declares native Anthropic support *)
(* (data, read from the shipped YAML).                                     *)
(***************************************************************************)
EXTENDS Naturals, FiniteSets, Sequences, TLC, Json

CONSTANTS EP, Types, NativeChoices, PlanKinds

VARIABLES pt,        \* translators.anthropic.passthrough_enabled
          stream,    \* the client asked for a stream
          native,    \* set of native endpoint types
          typ, H, plan,
          phase,     \* "cfg" | "sent" | "answered"
          contacted, \* sequence of endpoints contacted so far
          scn
vars == <<pt, stream, native, typ, H, plan, phase, contacted, scn>>

NativeEps == {e \in H : typ[e] \in native}
Mode == IF pt /\ NativeEps # {} THEN "passthrough" ELSE "translation"
Range(s) == {s[i] : i \in 1..Len(s)}

Init == /\ pt \in BOOLEAN /\ stream \in BOOLEAN /\ native \in NativeChoices
        /\ \E n \in 1..Cardinality(EP) : \E f \in [{"e" \o ToString(i) : i \in 1..n} -> Types] : typ = f
        /\ H \in SUBSET (DOMAIN typ)
        /\ plan \in [DOMAIN typ -> PlanKinds]
        /\ phase = "cfg" /\ contacted = <<>>
        /\ scn = [pt |-> pt, stream |-> stream, types |-> typ, H |-> H, plans |-> plan]

Send == phase = "cfg" /\ phase' = "sent" /\ UNCHANGED <<pt, stream, native, typ, H, plan, contacted, scn>>
\* backend e receives the request at `path`; kind = "same" (the client's bytes) | "openai" (a chat request
\* with messages that is not the client's body) | "other"
Recv(e, path, kind) ==
    /\ phase = "sent" /\ e \in H /\ e \notin Range(contacted)
    /\ IF Mode = "passthrough"
       THEN e \in NativeEps /\ path = "/v1/messages" /\ kind = "same"
       ELSE path = "/v1/chat/completions" /\ kind = "openai"
    /\ contacted' = Append(contacted, e)
    /\ UNCHANGED <<pt, stream, native, typ, H, plan, phase, scn>>
\* X-Olla-Mode tells the client which path was taken
Done(st, hmode) ==
    /\ phase = "sent"
    /\ (hmode = "passthrough") <=> (Mode = "passthrough")
    /\ phase' = "answered"
    /\ UNCHANGED <<pt, stream, native, typ, H, plan, contacted, scn>>

Next == Send \/ (\E e \in EP : Recv(e, IF Mode = "passthrough" THEN "/v1/messages" ELSE "/v1/chat/completions",
                                    IF Mode = "passthrough" THEN "same" ELSE "openai"))
        \/ Done(200, IF Mode = "passthrough" THEN "passthrough" ELSE "")
Spec == Init /\ [][Next]_vars
\* a non-native endpoint never gets the Anthropic body / a passthrough never leaves the native subset
NeverMixedUp == Mode = "passthrough" => \A i \in 1..Len(contacted) : typ[contacted[i]] \in native
GenNext == FALSE /\ UNCHANGED vars
Export == phase = "cfg" => PrintT(<<"SCN", ToJson(scn)>>)
=============================================================================
