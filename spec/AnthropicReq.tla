----------------------------- MODULE AnthropicReq -----------------------------
(***************************************************************************)
(* Property C12: translation of an Anthropic Messages request into the     *)
(* OpenAI chat request that is sent upstream                               *)
(*   internal/adapter/translator/anthropic: Translator.TransformRequest    *)
(*   (strict decode + AnthropicRequest.Validate, convertMessages,          *)
(*   convertUserMessage / convertAssistantMessage / convertToolUse,        *)
(*   convertTools / convertToolChoice) and the translation handler         *)
(*   internal/app/handlers/handler_translation.go.                         *)
(*                                                                         *)
(* A request is ABSTRACT: req = [msgs, cfg].                               *)
(*   msgs  sequence of [role, form, blocks]; form "str" (content is a      *)
(*         JSON string) or "blocks"; a block is [k, i, c]:                 *)
(*           text / etext (empty text) / image                             *)
(*           use    (assistant tool_use:  id c<i>, name n<i>,              *)
(*                   input c = "obj" nested JSON | "empty" {})             *)
(*           result (user tool_result: tool_use_id c<i>, content           *)
(*                   c = "str" | "blocks" (two text blocks) | "absent")    *)
(*   cfg   one abstract value per top-level field (present / absent /      *)
(*         out of range / wrong type), system form, number of tools,       *)
(*         tool_choice form, unknown field, malformed body.                *)
(* Every text fragment is a TOKEN (an integer): fragment b of message m is *)
(* m*10+b, the second fragment of a structured tool result 100+m*10+b,     *)
(* system fragments 1 and 2, nested tool arguments m*10+b ({} is 0).  The  *)
(* harness concretises tokens into random strings / JSON and projects the  *)
(* produced OpenAI request back to tokens (-1 = not recoverable).          *)
(*                                                                         *)
(* State machine per request:  Submitted --Translate(result)--> Translate  *)
(* --Http(observation)--> Http --End--> End (either observation may be     *)
(* missing, not both).  Translate/Http are enabled only for                *)
(* results that the property allows (Judge / HttpJudge), so a recorded     *)
(* result is a step of this specification iff the property holds for it.   *)
(***************************************************************************)
EXTENDS Naturals, Integers, Sequences, FiniteSets, TLC

VARIABLES req,    \* the abstract request
          res,    \* result of TransformRequest: [ok, out]
          hres,   \* observation through the full handler: [st, shape, up, out]
          act,    \* "Submitted" | "Translate" | "Http"
          dev     \* named deviations used by the last step (always {} in this module)
vars == <<req, res, hres, act, dev>>

-----------------------------------------------------------------------------
(* Grammar *)

Blk(k, i, c) == [k |-> k, i |-> i, c |-> c]
UserBlocksFull == {Blk("text", 0, "na"), Blk("etext", 0, "na"), Blk("image", 0, "na")}
                  \cup {Blk("result", i, c) : i \in 1..2, c \in {"str", "blocks", "absent"}}
AsstBlocksFull == {Blk("text", 0, "na"), Blk("etext", 0, "na")}
                  \cup {Blk("use", i, c) : i \in 1..2, c \in {"obj", "empty"}}
UserBlocksSmall == {Blk("text", 0, "na"), Blk("image", 0, "na"), Blk("result", 1, "str"), Blk("result", 2, "blocks")}
AsstBlocksSmall == {Blk("text", 0, "na"), Blk("use", 1, "obj"), Blk("use", 2, "empty")}

DefaultCfg == [model |-> "ok", maxtok |-> "ok", temp |-> "absent", topp |-> "absent", stop |-> "absent",
               stream |-> "absent", sys |-> "absent", tools |-> 0, tc |-> "absent", unk |-> "none",
               body |-> "ok", extra |-> "none"]
RichCfg == [model |-> "ok", maxtok |-> "ok", temp |-> "mid", topp |-> "mid", stop |-> "two",
            stream |-> "true", sys |-> "b2", tools |-> 2, tc |-> "o_any", unk |-> "none",
            body |-> "ok", extra |-> "none"]

DimNames == <<"model", "maxtok", "temp", "topp", "stop", "stream", "sys", "tools", "tc", "unk", "body", "extra">>
DimVals(d) ==
    CASE d = "model"  -> {"ok", "absent", "empty", "wrongtype"}
      [] d = "maxtok" -> {"ok", "absent", "zero", "neg", "wrongtype"}
      [] d = "temp"   -> {"absent", "mid", "zero", "one", "hi", "neg"}
      [] d = "topp"   -> {"absent", "mid", "zero", "one", "hi", "neg"}
      [] d = "stop"   -> {"absent", "empty", "one", "two", "seven"}
      [] d = "stream" -> {"absent", "true", "false"}
      [] d = "sys"    -> {"absent", "str", "b1", "b2", "b0"}
      [] d = "tools"  -> {0, 1, 2}
      [] d = "tc"     -> {"absent", "s_auto", "s_any", "s_none", "o_auto", "o_any", "o_none", "o_tool", "o_tool_noname"}
      [] d = "unk"    -> {"none", "top"}
      [] d = "body"   -> {"ok", "trunc", "notjson", "array"}
      [] d = "extra"  -> {"none", "topk", "meta", "toolcc", "think"}   \* think: extended thinking with a budget below max_tokens

-----------------------------------------------------------------------------
(* Which requests are valid.                                               *)
(*   invalid: the statement's "out of range / absent" cases and bodies     *)
(*            that are not a JSON object: must be refused.                 *)
(*   either : the property does not say (unknown top-level field, string   *)
(*            tool_choice, tool_choice without tools, conversations the    *)
(*            Anthropic API itself refuses: empty text, results that do    *)
(*            not answer the preceding assistant turn, ..., a caching      *)
(*            marker on a tool definition): the request                    *)
(*            may be refused, but if it is translated it must be           *)
(*            translated faithfully.                                       *)
(*   valid  : must be translated faithfully.                               *)

SeqToSet(s) == {s[j] : j \in 1..Len(s)}
KindsOf(msg, k) == SelectSeq(msg.blocks, LAMBDA b : b.k = k)
IdsOf(msg, k)   == [j \in 1..Len(KindsOf(msg, k)) |-> KindsOf(msg, k)[j].i]
NoDup(s) == Cardinality(SeqToSet(s)) = Len(s)

\* results first in a user turn
ResultsFirst(msg) == \A a, b \in 1..Len(msg.blocks) :
                        (a < b /\ msg.blocks[b].k = "result") => msg.blocks[a].k = "result"

Conforming(msgs) ==
    /\ Len(msgs) >= 1
    /\ msgs[1].role = "user"
    /\ \A m \in 1..Len(msgs) :
        LET msg == msgs[m] IN
        /\ \A b \in 1..Len(msg.blocks) : msg.blocks[b].k # "etext"
        /\ msg.role = "user" =>
             /\ ResultsFirst(msg)
             /\ NoDup(IdsOf(msg, "result"))
             /\ SeqToSet(IdsOf(msg, "result")) =
                   (IF m > 1 /\ msgs[m - 1].role = "assistant" THEN SeqToSet(IdsOf(msgs[m - 1], "use")) ELSE {})
        /\ msg.role = "assistant" =>
             /\ NoDup(IdsOf(msg, "use"))
             /\ IdsOf(msg, "use") # <<>> => (m < Len(msgs) /\ msgs[m + 1].role = "user")

InvalidCfg(c, msgs) ==
    \/ c.body # "ok"
    \/ c.model # "ok"
    \/ c.maxtok # "ok"
    \/ c.temp \in {"hi", "neg"}
    \/ c.topp \in {"hi", "neg"}
    \/ msgs = <<>>
    \/ \E m \in 1..Len(msgs) : msgs[m].form \in {"null", "absent"}     \* content is required: a string or a block list
    \/ (c.tools > 0 /\ c.tc = "o_tool_noname")

Unspecified(c, msgs) ==
    \/ c.unk # "none"
    \/ (c.extra = "toolcc" /\ c.tools > 0)
    \/ c.tc \in {"s_auto", "s_any", "s_none"}
    \/ (c.tools = 0 /\ c.tc # "absent")
    \/ ~Conforming(msgs)

Class(r) == IF InvalidCfg(r.cfg, r.msgs) THEN "invalid"
            ELSE IF Unspecified(r.cfg, r.msgs) THEN "either" ELSE "valid"

-----------------------------------------------------------------------------
(* What the client said, as a sequence of items in the order given.        *)

It(t, v, id, nm, rs) == [t |-> t, v |-> v, id |-> id, nm |-> nm, rs |-> rs]
Tok(m, b) == m * 10 + b
ResToks(m, b, c) == CASE c = "str" -> <<Tok(m, b)>>
                      [] c = "blocks" -> <<Tok(m, b), 100 + Tok(m, b)>>
                      [] OTHER -> <<>>
ArgTok(m, b, c) == IF c = "empty" THEN 0 ELSE Tok(m, b)
SysToks(s) == CASE s \in {"str", "b1"} -> <<1>> [] s = "b2" -> <<1, 2>> [] OTHER -> <<>>

RECURSIVE Cat(_)
Cat(ss) == IF ss = <<>> THEN <<>> ELSE Head(ss) \o Cat(Tail(ss))

\* image blocks are documented as unsupported and empty text carries nothing: neither is demanded
BlockItems(role, m, b, blk) ==
    CASE blk.k = "text"   -> <<It(IF role = "user" THEN "utext" ELSE "atext", Tok(m, b), 0, 0, <<>>)>>
      [] blk.k = "use"    -> <<It("call", ArgTok(m, b, blk.c), blk.i, blk.i, <<>>)>>
      [] blk.k = "result" -> <<It("result", 0, blk.i, 0, ResToks(m, b, blk.c))>>
      [] OTHER -> <<>>

IsText(it)   == it.t \in {"utext", "atext", "sys"}
MsgItems(m, msg) == Cat([b \in 1..Len(msg.blocks) |-> BlockItems(msg.role, m, b, msg.blocks[b])])

(* Deviation KF-C12-1 (the code's convertUserMessage): a user turn is emitted as ALL its text  *)
(* first and its tool results after it, whatever order the client gave.                        *)
MsgItemsD(m, msg, D) ==
    IF "KF-C12-1" \in D /\ msg.role = "user"
    THEN SelectSeq(MsgItems(m, msg), IsText) \o SelectSeq(MsgItems(m, msg), LAMBDA it : ~IsText(it))
    ELSE MsgItems(m, msg)

ReqItems(r, D) ==
    [j \in 1..Len(SysToks(r.cfg.sys)) |-> It("sys", SysToks(r.cfg.sys)[j], 0, 0, <<>>)]
    \o Cat([m \in 1..Len(r.msgs) |-> MsgItemsD(m, r.msgs[m], D)])

(* What the produced OpenAI request says.  An out message is [role, text, calls, ref]:         *)
(* text = tokens of its content, calls = [id, nm, args] of tool_calls, ref = tool_call_id.     *)
OutMsgItems(om) ==
    IF om.role # "assistant" /\ om.calls # <<>> THEN <<It("bad", 0, 0, 0, <<>>)>>
    ELSE CASE om.role = "system"    -> [j \in 1..Len(om.text) |-> It("sys", om.text[j], 0, 0, <<>>)]
           [] om.role = "user"      -> [j \in 1..Len(om.text) |-> It("utext", om.text[j], 0, 0, <<>>)]
           [] om.role = "assistant" -> [j \in 1..Len(om.text) |-> It("atext", om.text[j], 0, 0, <<>>)]
                                       \o [j \in 1..Len(om.calls) |->
                                              It("call", om.calls[j].args, om.calls[j].id, om.calls[j].nm, <<>>)]
           [] om.role = "tool"      -> <<It("result", 0, om.ref, 0, om.text)>>
           [] OTHER                 -> <<It("bad", 0, 0, 0, <<>>)>>
OutItems(o) == Cat([j \in 1..Len(o.msgs) |-> OutMsgItems(o.msgs[j])])

(* Same items in the same order.  Adjacent text fragments may be merged or kept apart and a    *)
(* turn may become one or several messages (tokens are compared, not message boundaries).      *)
(* Inside one OpenAI assistant message the text/tool-call order cannot be expressed, so the    *)
(* order of assistant text relative to tool calls is not demanded: the sequence without the    *)
(* calls and the sequence without the assistant text must both be the client's.                *)
NotCall(it)  == it.t # "call"
NotAText(it) == it.t # "atext"
OrderOK(r, o, D) ==
    /\ SelectSeq(OutItems(o), NotCall)  = SelectSeq(ReqItems(r, D), NotCall)
    /\ SelectSeq(OutItems(o), NotAText) = SelectSeq(ReqItems(r, D), NotAText)

\* the system text comes first: no other item precedes a system item
SystemFirstOK(o) == \A a, b \in 1..Len(OutItems(o)) :
                        (a < b /\ OutItems(o)[b].t = "sys") => OutItems(o)[a].t = "sys"

(* Scalars.  "same" = the value the client sent (the harness compares concretely).  A field    *)
(* the client did not send is not constrained, except that no stop sequence may be invented.   *)
ScalarsOK(c, o) ==
    /\ o.model = "same"
    /\ o.maxtok = "same"
    /\ IF c.stream = "true" THEN o.stream = "true" ELSE o.stream \in {"false", "absent"}
    /\ c.temp # "absent" => o.temp = "same"
    /\ c.topp # "absent" => o.topp = "same"
    /\ CASE c.stop = "one" -> o.stop = <<1>>
         [] c.stop = "two" -> Len(o.stop) = 2 /\ SeqToSet(o.stop) = {1, 2}
         [] c.stop = "seven" -> Len(o.stop) = 7 /\ SeqToSet(o.stop) = 1..7     \* none dropped, none invented
         [] OTHER          -> o.stop = <<>>

\* tool k is [name n<k>, description present iff k = 1, nested schema]
ToolsOK(c, o) ==
    /\ Len(o.tools) = c.tools
    /\ \A k \in 1..c.tools : \E j \in 1..Len(o.tools) :
           o.tools[j] = [nm |-> k, desc |-> (IF k = 1 THEN "same" ELSE "absent"), schema |-> "same"]

(* tool_choice: auto (also the default) <-> "auto"/absent, any <-> "required" (projected as    *)
(* "any"), none <-> "none", {tool, n1} <-> function n1 (projected "tool1").                    *)
(* Deviation KF-C12-2 (convertToolChoice): the object form {"type":"none"} becomes "auto".     *)
ChoiceOK(c, o, D) ==
    IF c.tools = 0 THEN TRUE
    ELSE CASE c.tc \in {"absent", "s_auto", "o_auto"} -> o.tc \in {"absent", "auto"}
           [] c.tc \in {"s_any", "o_any"}   -> o.tc = "any"
           [] c.tc = "s_none"               -> o.tc = "none"
           [] c.tc = "o_none"               -> IF "KF-C12-2" \in D THEN o.tc = "auto" ELSE o.tc = "none"
           [] c.tc = "o_tool"               -> o.tc = "tool1"
           [] OTHER                         -> FALSE

Preserves(r, o, D) ==
    /\ ScalarsOK(r.cfg, o)
    /\ SystemFirstOK(o)
    /\ OrderOK(r, o, D)
    /\ ToolsOK(r.cfg, o)
    /\ ChoiceOK(r.cfg, o, D)

-----------------------------------------------------------------------------
(* Steps *)

NoOut == "none"
NoRes == [ok |-> FALSE, out |-> NoOut]
NoH   == [st |-> 0, shape |-> "none", up |-> 0, out |-> NoOut]

\* result x of TransformRequest: [ok, out]
Judge(r, x, D) ==
    CASE Class(r) = "invalid" -> ~x.ok
      [] Class(r) = "either"  -> ~x.ok \/ (x.ok /\ Preserves(r, x.out, D))
      [] OTHER                -> x.ok /\ Preserves(r, x.out, D)

\* observation h through the handler: client status, error body shape, number of upstream requests,
\* projection of the upstream body
Refused(h)  == h.st = 400 /\ h.shape = "anthropic_error" /\ h.up = 0
HttpJudge(r, h, D) ==
    CASE Class(r) = "invalid" -> Refused(h)
      [] Class(r) = "either"  -> Refused(h) \/ (h.up = 1 /\ Preserves(r, h.out, D))
      [] OTHER                -> h.up = 1 /\ Preserves(r, h.out, D)

Translate(x, D) == /\ act = "Submitted"
                   /\ Judge(req, x, D)
                   /\ res' = x /\ act' = "Translate" /\ dev' = D
                   /\ UNCHANGED <<req, hres>>

Http(h, D) == /\ act \in {"Submitted", "Translate"}
              /\ HttpJudge(req, h, D)
              /\ hres' = h /\ act' = "Http" /\ dev' = D
              /\ UNCHANGED <<req, res>>

\* a request is finished only after at least one observation
End == /\ act \in {"Translate", "Http"}
       /\ act' = "End" /\ dev' = {}
       /\ UNCHANGED <<req, res, hres>>

-----------------------------------------------------------------------------
(* Reference translators, used to model-check the relation itself: the     *)
(* outputs of two different faithful translators must be accepted, the     *)
(* code's text-first emission and corrupted outputs must not.              *)

OM(role, text, calls, ref) == [role |-> role, text |-> text, calls |-> calls, ref |-> ref]
ItemMsg(it) == CASE it.t = "sys"    -> OM("system", <<it.v>>, <<>>, 0)
                 [] it.t = "utext"  -> OM("user", <<it.v>>, <<>>, 0)
                 [] it.t = "atext"  -> OM("assistant", <<it.v>>, <<>>, 0)
                 [] it.t = "call"   -> OM("assistant", <<>>, <<[id |-> it.id, nm |-> it.nm, args |-> it.v]>>, 0)
                 [] it.t = "result" -> OM("tool", it.rs, <<>>, it.id)
\* one message per item
FineMsgs(items) == [j \in 1..Len(items) |-> ItemMsg(items[j])]
\* adjacent messages of the same role (not tool) merged: text concatenated, calls concatenated
RECURSIVE Merge(_)
Merge(ms) == IF Len(ms) <= 1 THEN ms
             ELSE LET rest == Merge(Tail(ms)) h == Head(ms) n == Head(rest) IN
                  IF h.role = n.role /\ h.role # "tool"
                  THEN <<OM(h.role, h.text \o n.text, h.calls \o n.calls, 0)>> \o Tail(rest)
                  ELSE <<h>> \o rest

RefTools(c) == [k \in 1..c.tools |-> [nm |-> k, desc |-> (IF k = 1 THEN "same" ELSE "absent"), schema |-> "same"]]
RefChoice(c) == CASE c.tools = 0 -> "absent"
                  [] c.tc \in {"s_any", "o_any"} -> "any"
                  [] c.tc \in {"s_none", "o_none"} -> "none"
                  [] c.tc = "o_tool" -> "tool1"
                  [] c.tc \in {"s_auto", "o_auto"} -> "auto"
                  [] OTHER -> "absent"
RefOut(r, msgs) == [model |-> "same", maxtok |-> "same",
                    stream |-> (IF r.cfg.stream = "true" THEN "true" ELSE "false"),
                    temp |-> (IF r.cfg.temp = "absent" THEN "absent" ELSE "same"),
                    topp |-> (IF r.cfg.topp = "absent" THEN "absent" ELSE "same"),
                    stop |-> (CASE r.cfg.stop = "one" -> <<1>> [] r.cfg.stop = "two" -> <<1, 2>>
                                  [] r.cfg.stop = "seven" -> <<1, 2, 3, 4, 5, 6, 7>> [] OTHER -> <<>>),
                    msgs |-> msgs, tools |-> RefTools(r.cfg), tc |-> RefChoice(r.cfg)]
RefFine(r)   == RefOut(r, FineMsgs(ReqItems(r, {})))
RefMerged(r) == RefOut(r, Merge(FineMsgs(ReqItems(r, {}))))
\* what the code does (text of a user turn first)
CodeLike(r)  == RefOut(r, Merge(FineMsgs(ReqItems(r, {"KF-C12-1"}))))
\* corruptions of a faithful output
DropMsg(o, j) == [o EXCEPT !.msgs = SubSeq(o.msgs, 1, j - 1) \o SubSeq(o.msgs, j + 1, Len(o.msgs))]
SwapMsg(o, j) == [o EXCEPT !.msgs = [q \in 1..Len(o.msgs) |->
                                       IF q = j THEN o.msgs[j + 1] ELSE IF q = j + 1 THEN o.msgs[j] ELSE o.msgs[q]]]

RefResults(r) == CASE Class(r) = "invalid" -> {NoRes}
                   [] Class(r) = "either"  -> {NoRes, [ok |-> TRUE, out |-> RefFine(r)], [ok |-> TRUE, out |-> RefMerged(r)]}
                   [] OTHER -> {[ok |-> TRUE, out |-> RefFine(r)], [ok |-> TRUE, out |-> RefMerged(r)]}
RefHttp(r) == CASE Class(r) = "invalid" -> {[st |-> 400, shape |-> "anthropic_error", up |-> 0, out |-> NoOut]}
                [] OTHER -> {[st |-> 200, shape |-> "message", up |-> 1, out |-> RefMerged(r)]}

(* Bounded request space for model checking: every single turn of <= 2 blocks and every two    *)
(* turns of one block (any roles, the full block alphabet), every user/assistant/user          *)
(* conversation over the small alphabet (so that valid tool-result turns exist), both with the *)
(* plain and the rich                                                                          *)
(* configuration; and every single-field deviation of both configurations on two base          *)
(* conversations.                                                                              *)
MsgsOver(role, B, n) == {[role |-> role, form |-> "blocks", blocks |-> bs] : bs \in UNION {[1..q -> B] : q \in 1..n}}
                        \cup {[role |-> role, form |-> "str", blocks |-> <<Blk("text", 0, "na")>>]}
MCFullMsgs(n) == MsgsOver("user", UserBlocksFull, n) \cup MsgsOver("assistant", AsstBlocksFull, n)
MCConvs == {<<>>} \cup [1..1 -> MCFullMsgs(2)] \cup [1..2 -> MCFullMsgs(1)]
           \cup {<<u1, a, u2>> : u1 \in MsgsOver("user", UserBlocksSmall, 1),
                                 a \in MsgsOver("assistant", AsstBlocksSmall, 2),
                                 u2 \in MsgsOver("user", UserBlocksSmall, 2)}
BaseConv1 == <<[role |-> "user", form |-> "str", blocks |-> <<Blk("text", 0, "na")>>]>>
BaseConv2 == <<[role |-> "user", form |-> "blocks", blocks |-> <<Blk("text", 0, "na")>>],
               [role |-> "assistant", form |-> "blocks", blocks |-> <<Blk("text", 0, "na"), Blk("use", 1, "obj")>>],
               [role |-> "user", form |-> "blocks", blocks |-> <<Blk("result", 1, "str")>>]>>
MCCfgs == UNION {{[b EXCEPT ![DimNames[d]] = v] : v \in DimVals(DimNames[d])} :
                    b \in {DefaultCfg, RichCfg}, d \in 1..Len(DimNames)}

Init == /\ req \in {[msgs |-> ms, cfg |-> c] : ms \in MCConvs, c \in {DefaultCfg, RichCfg}}
                    \cup {[msgs |-> ms, cfg |-> c] : ms \in {BaseConv1, BaseConv2}, c \in MCCfgs}
        /\ res = NoRes /\ hres = NoH /\ act = "Submitted" /\ dev = {}
Next == \/ \E x \in RefResults(req) : Translate(x, {})
        \/ \E h \in RefHttp(req) : Http(h, {})
        \/ End
Spec == Init /\ [][Next]_vars

-----------------------------------------------------------------------------
(* Property C12, clause by clause (checked on every step of a recorded     *)
(* trace; a step that used a named deviation is exempt from the clause the *)
(* deviation is about).                                                    *)

Translated == (act = "Translate" /\ res.ok) \/ (act = "Http" /\ hres.up >= 1)
Out        == IF act = "Http" THEN hres.out ELSE res.out

\* same model, max_tokens, stream flag, temperature, top_p and stop sequences
ScalarsKept == Translated => ScalarsOK(req.cfg, Out)
\* the system text first
SystemFirst == Translated => SystemFirstOK(Out)
\* turns in order; every text fragment, tool call (id, name, JSON-equal arguments) and tool result
\* (linked to its call id) in the order the client gave them
OrderKept   == (Translated /\ "KF-C12-1" \notin dev) => OrderOK(req, Out, {})
\* the same tool definitions and tool choice
ToolsKept   == Translated => ToolsOK(req.cfg, Out)
ChoiceKept  == (Translated /\ "KF-C12-2" \notin dev) => ChoiceOK(req.cfg, Out, {})
\* invalid requests are refused: 400 in Anthropic error format, nothing upstream
InvalidRefused  == (act = "Translate" /\ Class(req) = "invalid") => ~res.ok
InvalidRefused2 == (act = "Http" /\ Class(req) = "invalid") => Refused(hres)
\* valid requests are translated
ValidTranslated == (act = "Translate" /\ Class(req) = "valid") => res.ok

(* Model-checking only: the relation accepts faithful translators and rejects unfaithful ones. *)
FaithfulAccepted == act = "Submitted" => \A x \in RefResults(req) : Judge(req, x, {})
HasTextAfterResult(r) == \E m \in 1..Len(r.msgs) : r.msgs[m].role = "user" /\
                            \E a, b \in 1..Len(r.msgs[m].blocks) :
                                a < b /\ r.msgs[m].blocks[a].k = "result" /\ r.msgs[m].blocks[b].k = "text"
\* the code-like emission is refused exactly for requests with text after a result in a user turn,
\* and is exactly what deviation KF-C12-1 explains
CodeLikeExact == (act = "Submitted" /\ Class(req) # "invalid") =>
                    /\ Preserves(req, CodeLike(req), {}) <=> ~HasTextAfterResult(req)
                    /\ Preserves(req, CodeLike(req), {"KF-C12-1"})
                    /\ HasTextAfterResult(req) => ~Preserves(req, RefMerged(req), {"KF-C12-1"})
\* dropping any message that carries something, or swapping two neighbours that carry different
\* roles, is refused
CorruptionRefused == (act = "Submitted" /\ Class(req) = "valid") =>
                        LET o == RefFine(req) IN
                        /\ \A j \in 1..Len(o.msgs) : ~Preserves(req, DropMsg(o, j), {})
                        /\ \A j \in 1..(Len(o.msgs) - 1) :
                              (o.msgs[j].role # o.msgs[j + 1].role
                               /\ {o.msgs[j].role, o.msgs[j + 1].role} # {"assistant"})
                                  => ~Preserves(req, SwapMsg(o, j), {})
\* reachability companions (TLC must VIOLATE these): the antecedents above are not vacuous
Reach_Valid   == ~(act = "Translate" /\ Class(req) = "valid" /\ HasTextAfterResult(req))
Reach_Invalid == ~(act = "Http" /\ Class(req) = "invalid")
=============================================================================
