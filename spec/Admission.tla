------------------------------ MODULE Admission ------------------------------
(***************************************************************************)
(* Admission control in front of the proxy routes: per-client-IP token     *)
(* bucket and request size limits.                                         *)
(*   internal/app/handlers/application.go  SecurityAdapters.CreateChainMiddleware *)
(*   internal/adapter/security/request_rate_limit.go, request_size_limit.go *)
(*   internal/app/handlers/handler_translation.go  max_message_size (413)  *)
(* Time is integer milliseconds.  A request is known by the interval       *)
(* [send, recv] in which its admission decision was taken.                 *)
(***************************************************************************)
EXTENDS Naturals, Sequences, FiniteSets, TLC, Json

CONSTANTS MCBurst, MCHorizon     \* MC only

VARIABLES rate,      \* requests per minute per client IP (0 = unlimited)
          burst,
          maxBody,   \* request_limits.max_body_size (0 = unlimited)
          maxMsg,    \* translators.anthropic.max_message_size
          done,      \* sequence of finished requests
          now, tokens, admitted,   \* MC: a discrete token bucket (1 token per tick)
          scn
vars == <<rate, burst, maxBody, maxMsg, done, now, tokens, admitted, scn>>

Ceil(a, b) == (a + b - 1) \div b
\* the window bound: among the admitted requests of one client whose intervals lie inside [send_i, recv_j]
\* there are at most burst + rate x (recv_j - send_i) of them
WindowOK(D) ==
    rate > 0 =>
      \A i, j \in 1..Len(D) :
         (D[i].adm /\ D[j].adm /\ D[i].ip = D[j].ip /\ D[i].send <= D[j].send) =>
            Cardinality({k \in 1..Len(D) : D[k].adm /\ D[k].ip = D[i].ip
                                           /\ D[k].send >= D[i].send /\ D[k].recv <= D[j].recv})
              <= burst + Ceil(rate * (D[j].recv - D[i].send), 60000)

\* one finished request q = [ip, send, recv, st, adm (reached a backend), size, lenmode, route, upLen]
Finish(q) ==
    /\ done' = Append(done, q)
    \* body size: nothing larger than the maximum is forwarded, however its length was announced
    /\ (maxBody > 0 /\ q.size > maxBody) => (~q.adm /\ q.st >= 400)
    \* (on the translated Anthropic route the backend gets a re-written body, whose length is not the client's)
    /\ (q.adm /\ maxBody > 0 /\ q.route # "anthropic") => q.upLen <= maxBody
    \* Anthropic requests above max_message_size get 413 and go nowhere
    /\ (q.route = "anthropic" /\ q.size > maxMsg) => (q.st = 413 /\ ~q.adm)
    \* an excess request is refused with 429 (the backends of these scenarios always answer 200, so a
    \* request within the size limits that did not get through was refused by the rate limiter)
    /\ (~q.adm /\ rate > 0 /\ (maxBody = 0 \/ q.size <= maxBody) /\ (q.route # "anthropic" \/ q.size <= maxMsg))
          => q.st = 429
    /\ (q.adm => q.st = 200)
    /\ UNCHANGED <<rate, burst, maxBody, maxMsg, now, tokens, admitted, scn>>
\* end of scenario: the admitted set satisfies the window bound
End == WindowOK(done) /\ UNCHANGED vars

-----------------------------------------------------------------------------
(* MC: the token bucket design satisfies the window bound (1 token per tick, capacity MCBurst) *)
MCInit == /\ rate = 60000 /\ burst = MCBurst /\ maxBody = 0 /\ maxMsg = 0 /\ done = <<>>
          /\ now = 0 /\ tokens = MCBurst /\ admitted = <<>> /\ scn = <<>>
MCTick == /\ now < MCHorizon /\ now' = now + 1
          /\ tokens' = IF tokens < MCBurst THEN tokens + 1 ELSE tokens
          /\ UNCHANGED <<rate, burst, maxBody, maxMsg, done, admitted, scn>>
MCAdmit == /\ tokens > 0 /\ tokens' = tokens - 1 /\ admitted' = Append(admitted, now)
           /\ Len(admitted) < 2 * MCHorizon
           /\ UNCHANGED <<rate, burst, maxBody, maxMsg, done, now, scn>>
MCSpec == MCInit /\ [][MCTick \/ MCAdmit]_vars
MCWindow == \A i, j \in 1..Len(admitted) : i <= j => (j - i + 1) <= MCBurst + (admitted[j] - admitted[i])
=============================================================================
