CONSTANTS EP = {"e1", "e2", "e3"}  Models = {"alphaone", "bravotwo"}  Ask = {"alphaone", "bravotwo", "zuluniner"}
          Kinds = {"ollama", "sglang"}  Routes = {"proxy", "ollama", "sglang", "anthropic"}  Ops = {}  MaxLen = 0
CONSTANT KnownDeviations = ${KnownDeviations}
SPECIFICATION TraceSpec
CONSTRAINT HW
INVARIANTS TypeOK ServedByCandidate CandsSound RefusedIsOut NeverListedNeverServed TopTierFirst OpenIsOut
POSTCONDITION Accepted
CHECK_DEADLOCK FALSE
