----------------------------- MODULE RegistryGen -----------------------------
(***************************************************************************)
(* Random walks for TLC's simulation mode: every step draws ONE operation  *)
(* (weighted by kind) instead of enumerating all successors, so long       *)
(* scenarios over the full alphabet (3 endpoints, all listings, filters,   *)
(* bursts and concurrent steps) stay cheap.  The walk is a behaviour of    *)
(* Registry!Spec restricted to environment steps; the seed comes from      *)
(* `tlc -seed`.                                                            *)
(***************************************************************************)
EXTENDS Registry

Pick(S) == RandomElement(S)

RandTok(e) == LET k == Pick(1..8) IN
              IF k <= 4 THEN <<"Reg", e, Pick(Listings)>>
              ELSE IF k <= 6 THEN <<"Fail", e, Pick(FailKinds), Pick(FailBodies)>>
              ELSE <<"Rm", e>>

SimStep ==
    LET k == Pick(1..20)
        e == Pick(Eps)
    IN  IF k <= 7 THEN Register(e, Pick(Listings))
        ELSE IF k <= 9 THEN RegisterBad(e, Pick(BadLists))
        ELSE IF k <= 12 THEN DiscoveryFails(e, Pick(FailKinds), Pick(FailBodies))
        ELSE IF k <= 15 THEN Remove(e)
        ELSE IF k <= 17 /\ WithConcurrency
             THEN LET L1 == Pick(Listings) L2 == Pick(Listings) IN Burst(e, L1, L2)
        ELSE IF WithConcurrency /\ Cardinality(Eps) >= 2
             THEN LET D == Pick({X \in SUBSET Eps : Cardinality(X) >= 2}) IN
                  Par([x \in D |-> RandTok(x)])
        ELSE Remove(e)

SimNext == Len(scn.ops) < MaxLen /\ SimStep
SimSpec == Init /\ [][SimNext]_vars
=============================================================================
