----------------------------- MODULE RegistryGen -----------------------------
(***************************************************************************)
(* Random walks for TLC's simulation mode: every step draws ONE operation  *)
(* (weighted by kind) instead of enumerating all successors, so long       *)
(* scenarios over the full alphabet (3 endpoints, all listings, filters,   *)
(* bursts and concurrent steps) stay cheap.  The walk is a behaviour of    *)
(* Registry!Spec restricted to environment steps; the seed comes from      *)
(* `tlc -seed`.                                                            *)
(***************************************************************************)
EXTENDS Registry

\* RandomElement is re-evaluated at every occurrence of a LET name, so draws are bound by \E
One(S) == {RandomElement(S)}

TokOf(e, k, L, f, B) == IF k <= 4 THEN <<"Reg", e, L>>
                        ELSE IF k <= 6 THEN <<"Fail", e, f, B>>
                        ELSE <<"Rm", e>>
\* one random single-endpoint token per endpoint
RandToks == [e \in Eps |->
               CHOOSE t \in {TokOf(e, k, L, f, B) : k \in One(1..8), L \in One(Listings), f \in One(FailKinds), B \in One(FailBodies)} : TRUE]

SimStep ==
    \E k \in One(1..20) : \E e \in One(Eps) : \E L1 \in One(Listings) : \E L2 \in One(Listings) :
    \E B \in One(BadLists) : \E f \in One(FailKinds) : \E FB \in One(FailBodies) :
    \E D \in One({X \in SUBSET Eps : Cardinality(X) >= 2} \cup {{e}}) : \E T \in {RandToks} :
        IF k <= 7 THEN Register(e, L1)
        ELSE IF k <= 9 THEN RegisterBad(e, B)
        ELSE IF k <= 12 THEN DiscoveryFails(e, f, FB)
        ELSE IF k <= 15 \/ ~WithConcurrency THEN Remove(e)
        ELSE IF k <= 16 THEN (IF L1 # L2 /\ RandomElement({TRUE, FALSE}) THEN Swap(e, L1, L2) ELSE Burst(e, L1, L2))
        ELSE IF k <= 17 THEN (IF RandomElement({TRUE, FALSE}) THEN Chase(e, L1, B) ELSE Race(e, L1))
        ELSE IF Cardinality(D) >= 2 THEN Par([x \in D |-> T[x]])
        ELSE Remove(e)

SimNext == Len(scn.ops) < MaxLen /\ SimStep
SimSpec == Init /\ [][SimNext]_vars
=============================================================================
