----------------------------- MODULE PoisonTrace -----------------------------
EXTENDS Poison, TraceLib
CONSTANT KnownDeviations
VARIABLE l
tvars == <<vars, l>>
Is(name) == l <= NEv /\ TLog[l].ev = name
Consume  == l' = l + 1
E == TLog[l]
SetOf(s) == {s[i] : i \in 1..Len(s)}
TReset == Is("Reset") /\ last' = SetOf(E.known) /\ phase' = "idle" /\ offered' = {} /\ UNCHANGED scn /\ Consume
TListing == Is("Listing") /\ Listing(E.cls, SetOf(E.named)) /\ Consume
TDump == Is("Dump") /\ Dump(SetOf(E.perEp), SetOf(E.byModel), E.count) /\ Consume
TProbe == Is("Probe") /\ Probe(E.st) /\ Consume
THealth == Is("HealthDone") /\ HealthDone(E.status) /\ Consume
TFleet == Is("Fleet") /\ Fleet(SetOf(E.bystander), E.blamed, E.disabled) /\ Consume
TMetrics == Is("Metrics") /\ Metrics(E.kinds) /\ Consume
\* "Panic" and "Hang" events have no specification step: a trace containing one is rejected
TraceInit == Init /\ l = 1
TraceNext == TReset \/ TFleet \/ TListing \/ TDump \/ TProbe \/ THealth \/ TMetrics
TraceSpec == TraceInit /\ [][TraceNext]_tvars
HW == HWMark(l)
=============================================================================
