CONSTANTS Names <- NamesMC  Configs <- ConfigsMC  Strides = {1}  MaxLen = 3
SPECIFICATION Spec
VIEW View
INVARIANTS Inv_C10f Inv_Answer ExcludeWins EmptyIncludeAll ValidUniverse CaseFree
CHECK_DEADLOCK FALSE
