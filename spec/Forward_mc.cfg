CONSTANTS BodyClasses = {}  LenModes = {}  Routes = {}  Queries = {}  Methods = {}
SPECIFICATION MCSpec
INVARIANT NoCrossTalk
CHECK_DEADLOCK FALSE
