CONSTANTS EP = {"e1", "e2", "e3"}  Models = ${Models}  Widths = ${Widths}
INIT Init
NEXT GenNext
INVARIANT Export
CHECK_DEADLOCK FALSE
