CONSTANTS Subs = {"s1", "s2", "s3"}  Cap = 3  MaxEv = 1000  MaxLen = ${MaxLen}
SPECIFICATION Spec
INVARIANT SimExport
CONSTRAINT GenConstraint
CHECK_DEADLOCK FALSE
