CONSTANTS FailureThreshold = 5  SuccessThreshold = 2  HalfOpenRequests = 3  OpenDuration = 600  Ticks = {3, 601}  MaxLen = 0  Races = {2, 5}
SPECIFICATION Spec
VIEW View
INVARIANT TypeOK
PROPERTIES OpensOnlyAfterThreshold HoldsWhileOpen ProbeAdmitted BoundedProbes ProbeCounted SuccCloses FailReopens ClosedAdmits SuccClears RaceBounded
CHECK_DEADLOCK FALSE
