---------------------------- MODULE HealthBreaker ----------------------------
(***************************************************************************)
(* Circuit breaker of the health checker                                   *)
(*   internal/adapter/health/circuit_breaker.go  (health.CircuitBreaker)   *)
(* one instance per health-check URL.  Time is an integer number of        *)
(* `Unit`s (the trace cfg uses 100 ms); ages saturate just above the       *)
(* thresholds they are compared with, which keeps the model finite         *)
(* without changing any answer.                                            *)
(*                                                                         *)
(* Environment actions: Ask (IsOpen is consulted before a probe), Fail /   *)
(* Succ (a probe result is recorded), Tick(d) (time passes).               *)
(* Property C08 for this breaker is stated at the bottom.                  *)
(***************************************************************************)
EXTENDS Naturals, Sequences, TLC, Json

CONSTANTS Threshold,     \* consecutive failures that open the breaker  (code: 3)
          Timeout,       \* open period after the last failure          (code: 30 s)
          ProbeWindow,   \* min distance of half-open probes            (code: 1 s)
          Ticks,         \* set of tick sizes the environment may use
          MaxLen         \* GEN only: scenario length

VARIABLES failures,      \* consecutive failure counter (saturates at Threshold)
          open,          \* BOOLEAN
          sinceFail,     \* age of the last recorded failure (saturating)
          probing,       \* a half-open probe was admitted and no result recorded since
          sinceProbe,    \* age of that admission (saturating)
          res,           \* answer of the last Ask: "admit" | "refuse" | "none"
          act,           \* name of the last action (observation)
          consec,        \* ghost: failures since the last success / start, exact
          scn            \* GEN: sequence of environment actions so far

core == <<failures, open, sinceFail, probing, sinceProbe>>
vars == <<failures, open, sinceFail, probing, sinceProbe, res, act, consec, scn>>

SatF == Timeout + 1
SatP == ProbeWindow + 1
Min(a, b) == IF a < b THEN a ELSE b

Init == /\ failures = 0 /\ open = FALSE /\ sinceFail = SatF
        /\ probing = FALSE /\ sinceProbe = SatP
        /\ res = "none" /\ act = "Init" /\ consec = 0 /\ scn = <<>>

HalfOpenWindow == open /\ sinceFail > Timeout
\* would an Ask be admitted right now?
Admits == ~open \/ (sinceFail > Timeout /\ (~probing \/ sinceProbe >= ProbeWindow))

\* IsOpen(url) — answer "admit" means IsOpen returned false.
Ask ==
    /\ act' = "Ask"
    /\ IF ~open THEN
            res' = "admit" /\ UNCHANGED <<probing, sinceProbe>>
       ELSE IF sinceFail <= Timeout THEN
            res' = "refuse" /\ UNCHANGED <<probing, sinceProbe>>
       ELSE IF ~probing THEN
            res' = "admit" /\ probing' = TRUE /\ sinceProbe' = 0
       ELSE IF sinceProbe < ProbeWindow THEN
            res' = "refuse" /\ UNCHANGED <<probing, sinceProbe>>
       ELSE \* the outstanding probe is older than the window: admit ONE more
            res' = "admit" /\ sinceProbe' = 0 /\ UNCHANGED probing
    /\ UNCHANGED <<failures, open, sinceFail, consec>>

Fail ==
    /\ act' = "Fail"
    /\ failures' = Min(failures + 1, Threshold)
    /\ sinceFail' = 0
    /\ probing' = FALSE /\ sinceProbe' = SatP
    /\ open' = (open \/ failures' >= Threshold)
    /\ consec' = Min(consec + 1, Threshold)
    /\ res' = "none"

Succ ==
    /\ act' = "Succ"
    /\ failures' = 0 /\ open' = FALSE
    /\ probing' = FALSE /\ sinceProbe' = SatP
    /\ consec' = 0
    /\ res' = "none"
    /\ UNCHANGED sinceFail

Tick(d) ==
    /\ act' = "Tick"
    /\ sinceFail' = Min(sinceFail + d, SatF)
    /\ sinceProbe' = IF probing THEN Min(sinceProbe + d, SatP) ELSE sinceProbe
    /\ res' = "none"
    /\ UNCHANGED <<failures, open, probing, consec>>

Log(tok) == scn' = Append(scn, tok)

Next == \/ Ask /\ Log("Ask")
        \/ Fail /\ Log("Fail")
        \/ Succ /\ Log("Succ")
        \/ \E d \in Ticks : Tick(d) /\ Log(<<"Tick", d>>)

Spec == Init /\ [][Next]_vars

\* n overlapping IsOpen() calls (goroutines racing on the half-open permission). IsOpen is the same
\* operation for every caller and no time passes inside the burst, so in whatever order the calls take
\* effect the outcome is that of n consecutive Asks: everything while closed, nothing while open and the
\* timeout has not elapsed, and in the half-open window exactly one caller iff a single Ask would pass.
RaceSizes == {2, 6}
RaceAdmits(n) == IF ~open THEN n ELSE IF Admits THEN 1 ELSE 0
Race(n) == /\ act' = "Race" /\ res' = "none"
           /\ IF open /\ Admits THEN probing' = TRUE /\ sinceProbe' = 0 ELSE UNCHANGED <<probing, sinceProbe>>
           /\ UNCHANGED <<failures, open, sinceFail, consec>>
NextR == Next \/ \E n \in RaceSizes : Race(n) /\ Log(<<"Race", n>>)
SpecR == Init /\ [][NextR]_vars

-----------------------------------------------------------------------------
(* Property C08, health breaker *)

\* (a) opens only after Threshold consecutive failures with no success between
OpensOnlyAfterThreshold == [][(~open /\ open') => consec' >= Threshold]_vars
\* (b) while open and the timeout has not elapsed since the last failure nothing passes
HoldsWhileOpen == [][(act' = "Ask" /\ open /\ sinceFail <= Timeout) => res' = "refuse"]_vars
\* (c) after the timeout a probe is admitted; probes are >= ProbeWindow apart unless a
\*     result was recorded in between
ProbeAdmitted == [][(act' = "Ask" /\ HalfOpenWindow /\ ~probing) => res' = "admit"]_vars
ProbeSpacing  == [][(act' = "Ask" /\ HalfOpenWindow /\ probing /\ sinceProbe < ProbeWindow)
                        => res' = "refuse"]_vars
ProbeClock    == [][(act' = "Ask" /\ HalfOpenWindow /\ res' = "admit") => sinceProbe' = 0 /\ probing']_vars
\* (d) success closes, failure re-opens with a fresh timeout
SuccCloses    == [][act' = "Succ" => ~open' /\ failures' = 0]_vars
FailReopens   == [][(act' = "Fail" /\ open) => open' /\ sinceFail' = 0]_vars
\* (e) a success always clears the failure count: closed admits everything
ClosedAdmits  == [][(act' = "Ask" /\ ~open) => res' = "admit"]_vars
TypeOK == /\ failures \in 0..Threshold /\ open \in BOOLEAN /\ sinceFail \in 0..SatF
          /\ probing \in BOOLEAN /\ sinceProbe \in 0..SatP
          /\ (open <=> failures >= Threshold)
          /\ (probing => open)

-----------------------------------------------------------------------------
(* GEN: export every scenario of length MaxLen (all shorter ones are prefixes) *)
GenConstraint == Len(scn) <= MaxLen
Export == Len(scn) = MaxLen => PrintT(<<"SCN", ToJson(scn)>>)
View == core

(* Liveness: once the endpoint works again (only Ticks, Asks and a Succ after each admitted  *)
(* Ask), the breaker closes.                                                                 *)
WorksNext == \/ (res # "admit" /\ Ask /\ UNCHANGED scn)
             \/ (res = "admit" /\ Succ /\ UNCHANGED scn)
             \/ (res # "admit" /\ \E d \in Ticks : Tick(d) /\ UNCHANGED scn)
WorksSpec == TypeOK /\ res = "none" /\ act = "Init" /\ consec = 0 /\ scn = <<>>
             /\ [][WorksNext]_vars /\ WF_vars(WorksNext)
             /\ \A d \in Ticks : SF_vars(res # "admit" /\ Tick(d) /\ UNCHANGED scn)
             /\ SF_vars(res # "admit" /\ Ask /\ UNCHANGED scn)
EventuallyClosed == <>[](~open)
=============================================================================
