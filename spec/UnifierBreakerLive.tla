--------------------------- MODULE UnifierBreakerLive ---------------------------
(* Liveness of the unifier breaker under the caller protocol of                  *)
(* LifecycleUnifier.UnifyModels: every admitted Allow() is followed by exactly   *)
(* one RecordSuccess / RecordFailure (pend counts admitted calls still running); *)
(* RecordFailure may also arrive unsolicited (RecordEndpointFailure).            *)
(* mode "chaos": anything the protocol allows.  mode "works": the endpoint works *)
(* again — every pending and every newly admitted call succeeds.                 *)
(* Property: works ~> closed ("no history leaves the breaker open for ever").    *)
EXTENDS UnifierBreaker
CONSTANT MaxPend
VARIABLES mode, pend
lvars == <<vars, mode, pend>>
LInit == Init /\ mode = "chaos" /\ pend = 0
Quiet == UNCHANGED scn
LAsk  == Ask /\ Quiet /\ pend' = (IF res' = "admit" THEN pend + 1 ELSE pend) /\ pend' <= MaxPend
LSucc == pend > 0 /\ Succ /\ Quiet /\ pend' = pend - 1
LFailP == pend > 0 /\ Fail /\ Quiet /\ pend' = pend - 1
LFailX == Fail /\ Quiet /\ UNCHANGED pend
LTick == \E d \in Ticks : Tick(d) /\ Quiet /\ UNCHANGED pend
Chaos == mode = "chaos" /\ (LAsk \/ LSucc \/ LFailP \/ LFailX \/ LTick) /\ UNCHANGED mode
Switch == mode = "chaos" /\ mode' = "works" /\ UNCHANGED <<vars, pend>>
WAsk  == mode = "works" /\ pend = 0 /\ LAsk /\ UNCHANGED mode
WSucc == mode = "works" /\ LSucc /\ UNCHANGED mode
WTick == mode = "works" /\ pend = 0 /\ \E d \in Ticks : d > OpenDuration /\ Tick(d) /\ Quiet /\ UNCHANGED <<pend, mode>>
LNext == Chaos \/ Switch \/ WAsk \/ WSucc \/ WTick
LSpec == LInit /\ [][LNext]_lvars /\ WF_lvars(WSucc) /\ SF_lvars(WAsk) /\ SF_lvars(WTick)
WorksLeadsToClosed == (mode = "works") ~> (st = "closed")
=============================================================================
