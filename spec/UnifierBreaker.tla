---------------------------- MODULE UnifierBreaker ----------------------------
(***************************************************************************)
(* Per-endpoint circuit breaker of model unification                       *)
(*   internal/adapter/unifier/circuit_breaker.go (unifier.CircuitBreaker)  *)
(* closed / open / half-open with a bounded number of half-open admissions *)
(* and a success threshold to close.                                       *)
(***************************************************************************)
EXTENDS Naturals, Sequences, TLC, Json

CONSTANTS FailureThreshold,   \* default 5
          SuccessThreshold,   \* default 2
          HalfOpenRequests,   \* default 3
          OpenDuration,       \* default 60 s
          Ticks, MaxLen,
          Races               \* sizes of concurrent Allow() bursts ({} = none)

VARIABLES st, failures, successes, hoReq, sinceFail,
          res, act, consec, scn

core == <<st, failures, successes, hoReq, sinceFail>>
vars == <<st, failures, successes, hoReq, sinceFail, res, act, consec, scn>>
SatF == OpenDuration + 1
SatH == HalfOpenRequests + 1
Min(a, b) == IF a < b THEN a ELSE b

Init == /\ st = "closed" /\ failures = 0 /\ successes = 0 /\ hoReq = 0 /\ sinceFail = SatF
        /\ res = "none" /\ act = "Init" /\ consec = 0 /\ scn = <<>>

\* Allow()
Ask == /\ act' = "Ask"
       /\ CASE st = "closed" -> res' = "admit" /\ UNCHANGED <<st, failures, successes, hoReq>>
            [] st = "open" /\ sinceFail <= OpenDuration ->
                  res' = "refuse" /\ UNCHANGED <<st, failures, successes, hoReq>>
            [] st = "open" /\ sinceFail > OpenDuration ->
                  \* transitionToHalfOpen; allowHalfOpen
                  /\ st' = "half" /\ failures' = 0 /\ successes' = 0 /\ hoReq' = 1
                  /\ res' = IF 1 <= HalfOpenRequests THEN "admit" ELSE "refuse"
            [] st = "half" ->
                  /\ hoReq' = Min(hoReq + 1, SatH)
                  /\ res' = IF hoReq + 1 <= HalfOpenRequests THEN "admit" ELSE "refuse"
                  /\ UNCHANGED <<st, failures, successes>>
       /\ UNCHANGED <<sinceFail, consec>>

Succ == /\ act' = "Succ" /\ res' = "none" /\ consec' = 0
        /\ CASE st = "closed" -> failures' = 0 /\ UNCHANGED <<st, successes, hoReq>>
             [] st = "half" ->
                   IF successes + 1 >= SuccessThreshold
                   THEN st' = "closed" /\ failures' = 0 /\ successes' = 0 /\ hoReq' = 0
                   ELSE successes' = successes + 1 /\ UNCHANGED <<st, failures, hoReq>>
             [] st = "open" -> UNCHANGED <<st, failures, successes, hoReq>>
        /\ UNCHANGED sinceFail

Fail == /\ act' = "Fail" /\ res' = "none" /\ consec' = Min(consec + 1, FailureThreshold)
        /\ sinceFail' = 0
        /\ failures' = Min(failures + 1, FailureThreshold)
        /\ CASE st = "closed" ->
                   IF failures + 1 >= FailureThreshold
                   THEN st' = "open" /\ successes' = 0 /\ hoReq' = 0
                   ELSE UNCHANGED <<st, successes, hoReq>>
             [] st = "half" -> st' = "open" /\ successes' = 0 /\ hoReq' = 0
             [] st = "open" -> UNCHANGED <<st, successes, hoReq>>

Tick(d) == /\ act' = "Tick" /\ res' = "none"
           /\ sinceFail' = Min(sinceFail + d, SatF)
           /\ UNCHANGED <<st, failures, successes, hoReq, consec>>

\* n overlapping Allow() calls (goroutines racing on permission): Allow is the same operation for every
\* caller, so whatever order they take effect in, the outcome is that of n consecutive Asks. AskF is Ask
\* as a function on the breaker's state (same case analysis as Ask above).
AskF(s) == CASE s.st = "closed" -> [s |-> s, res |-> "admit"]
             [] s.st = "open" /\ sinceFail <= OpenDuration -> [s |-> s, res |-> "refuse"]
             [] s.st = "open" /\ sinceFail > OpenDuration ->
                   [s |-> [st |-> "half", failures |-> 0, successes |-> 0, hoReq |-> 1],
                    res |-> IF 1 <= HalfOpenRequests THEN "admit" ELSE "refuse"]
             [] s.st = "half" ->
                   [s |-> [s EXCEPT !.hoReq = Min(s.hoReq + 1, SatH)],
                    res |-> IF s.hoReq + 1 <= HalfOpenRequests THEN "admit" ELSE "refuse"]
RECURSIVE AskN(_, _)
AskN(s, n) == IF n = 0 THEN [s |-> s, admits |-> 0]
              ELSE LET one == AskF(s)  rest == AskN(one.s, n - 1)
                   IN [s |-> rest.s, admits |-> rest.admits + (IF one.res = "admit" THEN 1 ELSE 0)]
Cur == [st |-> st, failures |-> failures, successes |-> successes, hoReq |-> hoReq]
RaceAdmits(n) == AskN(Cur, n).admits
Race(n) == /\ act' = "Race" /\ res' = "none"
           /\ LET r == AskN(Cur, n).s IN st' = r.st /\ failures' = r.failures /\ successes' = r.successes /\ hoReq' = r.hoReq
           /\ UNCHANGED <<sinceFail, consec>>

Log(tok) == scn' = Append(scn, tok)
Next == \/ Ask /\ Log("Ask")
        \/ \E n \in Races : Race(n) /\ Log(<<"Race", n>>)
        \/ Fail /\ Log("Fail")
        \/ Succ /\ Log("Succ")
        \/ \E d \in Ticks : Tick(d) /\ Log(<<"Tick", d>>)
Spec == Init /\ [][Next]_vars

-----------------------------------------------------------------------------
(* Property C08, unifier breaker *)
OpensOnlyAfterThreshold == [][(st = "closed" /\ st' = "open") => consec' >= FailureThreshold]_vars
HoldsWhileOpen == [][(act' = "Ask" /\ st = "open" /\ sinceFail <= OpenDuration) => res' = "refuse"]_vars
ProbeAdmitted  == [][(act' = "Ask" /\ st = "open" /\ sinceFail > OpenDuration) => res' = "admit"]_vars
\* at most HalfOpenRequests admissions per half-open episode: ghost-free form — an admit in
\* half-open needs hoReq' <= HalfOpenRequests, and hoReq counts every Ask of the episode
BoundedProbes  == [][(act' = "Ask" /\ st' = "half" /\ res' = "admit") => hoReq' <= HalfOpenRequests]_vars
ProbeCounted   == [][(act' = "Ask" /\ st = "half") => hoReq' = Min(hoReq + 1, SatH)]_vars
SuccCloses     == [][(act' = "Succ" /\ st = "half" /\ successes + 1 >= SuccessThreshold) => st' = "closed"]_vars
FailReopens    == [][(act' = "Fail" /\ st = "half") => st' = "open" /\ sinceFail' = 0]_vars
\* concurrent callers: a burst of n overlapping Asks admits at most what is left of the half-open budget
RaceBounded    == [][(act' = "Race" /\ st' = "half") => hoReq' <= SatH /\ (st = "half" => hoReq' >= hoReq)]_vars
ClosedAdmits   == [][(act' = "Ask" /\ st = "closed") => res' = "admit"]_vars
SuccClears     == [][(act' = "Succ" /\ st = "closed") => failures' = 0]_vars
TypeOK == /\ st \in {"closed", "open", "half"} /\ failures \in 0..FailureThreshold
          /\ successes \in 0..SuccessThreshold /\ hoReq \in 0..SatH /\ sinceFail \in 0..SatF
          /\ (st = "closed" => failures < FailureThreshold)

GenConstraint == Len(scn) <= MaxLen
Export == Len(scn) = MaxLen => PrintT(<<"SCN", ToJson(scn)>>)
View == core

\* "works again": every admitted request succeeds; refused ones just wait
WorksNext == \/ (res # "admit" /\ Ask /\ UNCHANGED scn)
             \/ (res = "admit" /\ Succ /\ UNCHANGED scn)
             \/ (res # "admit" /\ \E d \in Ticks : Tick(d) /\ UNCHANGED scn)
WorksSpec == TypeOK /\ res = "none" /\ act = "Init" /\ consec = 0 /\ scn = <<>>
             /\ [][WorksNext]_vars /\ WF_vars(WorksNext)
             /\ \A d \in Ticks : SF_vars(res # "admit" /\ Tick(d) /\ UNCHANGED scn)
             /\ SF_vars(res # "admit" /\ Ask /\ UNCHANGED scn)
EventuallyClosed == <>[](st = "closed")
=============================================================================
