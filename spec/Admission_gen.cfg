CONSTANTS Rates = ${Rates}  Bursts = ${Bursts}  Behaviours = ${Behaviours}
          Sizes = {"max-1", "max", "max+1", "5max"}  LenModes = {"cl", "chunked"}  Routes = {"proxy", "provider", "anthropic"}
          Kinds = {"rate", "size"}
INIT Init
NEXT Next
INVARIANT Export
CHECK_DEADLOCK FALSE
