CONSTANTS Rates = ${Rates}  Bursts = ${Bursts}  Behaviours = ${Behaviours}
          Sizes = {"max-1", "max", "max+1", "5max"}  LenModes = {"cl", "chunked"}  Routes = {"proxy", "provider", "provider_get", "anthropic", "anthropic_eq"}
          Kinds = ${Kinds}  Globals = ${Globals}
INIT Init
NEXT Next
INVARIANT Export
CHECK_DEADLOCK FALSE
