CONSTANTS Intervals = ${Intervals}  Modes = {"healthy", "failing"}
INIT Init
NEXT GenNext
INVARIANT Export
CHECK_DEADLOCK FALSE
