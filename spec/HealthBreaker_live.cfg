CONSTANTS Threshold = 3  Timeout = 20  ProbeWindow = 10  Ticks = {3, 11, 21}  MaxLen = 0
SPECIFICATION WorksSpec
PROPERTY EventuallyClosed
CHECK_DEADLOCK FALSE
