------------------------ MODULE AnthropicStreamTrace ------------------------
(* Trace refinement of AnthropicStream.  Per scenario the harness records                      *)
(*   Reset     the completion the backend produces (items, finish reason, usage) and `strict`   *)
(*   Buffered  what TransformResponse returned for it (as the client sees it: JSON)             *)
(*   Out*      the SSE events TransformStreamingResponse wrote, tokenised                        *)
(*   End       the translator returned        (Hang / Panic instead: no step explains them)     *)
(* strict scenarios: every Out must be the grammar step it claims to be, with the recorded       *)
(* index/kind/payload; message_delta and End additionally demand preservation and agreement.     *)
(* non-strict scenarios (malformed / arbitrarily interleaved input): any output is accepted;     *)
(* only Hang and Panic are not.                                                                  *)
EXTENDS AnthropicStream, TraceLib

CONSTANT KnownDeviations
VARIABLE l
tvars == <<vars, l>>

E == TLog[l]
Is(name) == l <= NEv /\ E.ev = name
\* an SSE frame whose `event:` name equals the `type` of its data, as Anthropic defines the format
IsOut(t) == Is("Out") /\ strict /\ E.t = t /\ E.dt = t
Consume  == l' = l + 1

Blk(r)     == IF r.k = "text" THEN TextBlk(r.text) ELSE ToolBlk(r.id, r.name, r.args)
BlkSeq(rs) == [j \in 1..Len(rs) |-> Blk(rs[j])]
KindsOK(rs) == \A j \in 1..Len(rs) : rs[j].k \in {"text", "tool"}

TReset == /\ Is("Reset")
          /\ exp' = [items |-> BlkSeq(E.items), fin |-> E.fin, hasU |-> E.hasU, uin |-> E.uin, uout |-> E.uout]
          /\ strict' = E.strict
          /\ phase' = "init" /\ nextIdx' = 0 /\ open' = 0 /\ blocks' = <<>>
          /\ rep' = NoRep /\ buf' = NoBuf /\ hist' = <<>>
          /\ scn' = [usagePos |-> E.usagePos, both |-> E.both]
          /\ Consume

TBuffered == /\ Is("Buffered") /\ strict
             /\ E.ok /\ E.mtype = "message" /\ E.role = "assistant" /\ KindsOK(E.blocks)
             /\ Buffered(BlkSeq(E.blocks), E.stop, E.uin, E.uout)
             /\ Consume

TMessageStart == /\ IsOut("message_start") /\ E.mtype = "message" /\ E.role = "assistant"
                 /\ MessageStart(E.uin) /\ Consume
TBlockStart   == /\ IsOut("content_block_start") /\ E.bk \in {"text", "tool"}
                 /\ BlockStart(E.idx, IF E.bk = "text" THEN TextBlk(E.text) ELSE ToolBlk(E.id, E.name, ""))
                 /\ Consume
TDelta        == IsOut("content_block_delta") /\ E.dk \in {"text", "tool"} /\ Delta(E.idx, E.dk, E.d) /\ Consume
TBlockStop    == IsOut("content_block_stop") /\ BlockStop(E.idx) /\ Consume
TMessageDelta == /\ IsOut("message_delta")
                 /\ MessageDelta(E.stop, IF E.hasUin THEN E.uin ELSE rep.uin, E.uout)
                 /\ Consume
TMessageStop  == IsOut("message_stop") /\ MessageStop /\ Consume
TPing         == IsOut("ping") /\ UNCHANGED vars /\ Consume
TEnd          == Is("End") /\ strict /\ End /\ Consume

\* malformed / arbitrarily interleaved input: the property only promises that the translator comes back
TLax == /\ ~strict /\ (Is("Buffered") \/ Is("Out") \/ Is("End"))
        /\ UNCHANGED vars /\ Consume

(* Known finding KF-C13-1 (only if listed): a tool call that directly follows another tool call is   *)
(* opened while its predecessor is still open -- initializeToolBlock closes only a TEXT block -- and  *)
(* the predecessor never receives content_block_stop.  The deviation explains exactly that: a         *)
(* tool_use block with the next index starting while a tool_use block is open; it is read as the      *)
(* missing stop followed by the start.                                                                *)
KF_C13_1 == /\ "KF-C13-1" \in KnownDeviations
            /\ IsOut("content_block_start") /\ E.bk = "tool"
            /\ phase = "block" /\ blocks[Len(blocks)].k = "tool" /\ E.idx = open + 1
            /\ nextIdx' = nextIdx + 1 /\ open' = E.idx
            /\ blocks' = Append(blocks, ToolBlk(E.id, E.name, ""))
            /\ hist' = hist \o <<Ev("content_block_stop", open), Ev("content_block_start", E.idx)>>
            /\ UNCHANGED <<exp, strict, phase, rep, buf, scn>>
            /\ Consume /\ UseDeviation("KF-C13-1")

TraceInit == /\ exp = [items |-> <<>>, fin |-> "none", hasU |-> FALSE, uin |-> 0, uout |-> 0]
             /\ strict = FALSE /\ phase = "init" /\ nextIdx = 0 /\ open = 0 /\ blocks = <<>>
             /\ rep = NoRep /\ buf = NoBuf /\ hist = <<>> /\ scn = <<>> /\ l = 1
TraceNext == \/ TReset \/ TBuffered \/ TMessageStart \/ TBlockStart \/ TDelta \/ TBlockStop
             \/ TMessageDelta \/ TMessageStop \/ TPing \/ TEnd \/ TLax
             \/ KF_C13_1
TraceSpec == TraceInit /\ [][TraceNext]_tvars
HW == HWMark(l)
=============================================================================
