------------------------ MODULE AnthropicStreamTrace ------------------------
(* Trace refinement of AnthropicStream.  Per scenario the harness records                      *)
(*   Reset     the completion the backend produces (items, finish reason, usage) and `strict`   *)
(*   Buffered  what TransformResponse returned for it (as the client sees it: JSON)             *)
(*   Out*      the SSE events TransformStreamingResponse wrote, tokenised                        *)
(*   End       the translator returned        (Hang / Panic instead: no step explains them)     *)
(* strict scenarios: every Out must be the grammar step it claims to be, with the recorded       *)
(* index/kind/payload; message_delta and End additionally demand preservation and agreement.     *)
(* non-strict scenarios (malformed / arbitrarily interleaved input): any output is accepted;     *)
(* only Hang and Panic are not.                                                                  *)
EXTENDS AnthropicStream, TraceLib

CONSTANT KnownDeviations
VARIABLE l
tvars == <<vars, l>>

E == TLog[l]
Is(name) == l <= NEv /\ E.ev = name
\* an SSE frame whose `event:` name equals the `type` of its data, as Anthropic defines the format
IsOut(t) == Is("Out") /\ strict /\ E.t = t /\ E.dt = t
Consume  == l' = l + 1

Blk(r)     == IF r.k = "text" THEN TextBlk(r.text) ELSE ToolBlk(r.id, r.name, r.args)
BlkSeq(rs) == [j \in 1..Len(rs) |-> Blk(rs[j])]
KindsOK(rs) == \A j \in 1..Len(rs) : rs[j].k \in {"text", "tool"}

TReset == /\ Is("Reset")
          /\ exp' = [items |-> BlkSeq(E.items), fin |-> E.fin, hasU |-> E.hasU, uin |-> E.uin, uout |-> E.uout]
          /\ strict' = E.strict
          /\ phase' = "init" /\ nextIdx' = 0 /\ open' = 0 /\ blocks' = <<>>
          /\ rep' = NoRep /\ buf' = NoBuf /\ hist' = <<>>
          /\ scn' = [usagePos |-> E.usagePos, both |-> E.both]
          /\ Consume

TBuffered == /\ Is("Buffered") /\ strict
             /\ E.ok /\ E.mtype = "message" /\ E.role = "assistant" /\ KindsOK(E.blocks)
             \* well-formed on the wire: a tool_use block has its "input", a text block its "text", empty or not
             /\ ("wire" \in DOMAIN E => E.wire)
             /\ Buffered(BlkSeq(E.blocks), E.stop, E.uin, E.uout)
             /\ Consume

TMessageStart == /\ IsOut("message_start") /\ E.mtype = "message" /\ E.role = "assistant"
                 /\ MessageStart(E.uin) /\ Consume
TBlockStart   == /\ IsOut("content_block_start") /\ E.bk \in {"text", "tool"}
                 /\ BlockStart(E.idx, IF E.bk = "text" THEN TextBlk(E.text) ELSE ToolBlk(E.id, E.name, ""))
                 /\ Consume
TDelta        == IsOut("content_block_delta") /\ E.dk \in {"text", "tool"} /\ Delta(E.idx, E.dk, E.d) /\ Consume
TBlockStop    == IsOut("content_block_stop") /\ BlockStop(E.idx) /\ Consume
TMessageDelta == /\ IsOut("message_delta")
                 /\ MessageDelta(E.stop, IF E.hasUin THEN E.uin ELSE rep.uin, E.uout)
                 /\ Consume
TMessageStop  == IsOut("message_stop") /\ MessageStop /\ Consume
TPing         == IsOut("ping") /\ UNCHANGED vars /\ Consume
\* "never hang": a translation that reports success has read the backend's stream to its end -- the handler
\* waits for the proxy goroutine, which otherwise stays blocked writing into the pipe
TEnd          == Is("End") /\ strict /\ End /\ (~E.err => E.drained) /\ Consume

\* malformed / arbitrarily interleaved input: the property only promises that the translator comes back
TLax == /\ ~strict /\ (Is("Buffered") \/ Is("Out") \/ Is("End"))
        /\ (Is("End") /\ ~E.err => E.drained)
        /\ UNCHANGED vars /\ Consume

(* Known finding KF-C13-1 (only if listed): a tool call that directly follows another tool call is   *)
(* opened while its predecessor is still open -- initializeToolBlock closes only a TEXT block -- and  *)
(* the predecessor never receives content_block_stop.  The deviation explains exactly that: a         *)
(* tool_use block with the next index starting while a tool_use block is open; it is read as the      *)
(* missing stop followed by the start.                                                                *)
KF_C13_1 == /\ "KF-C13-1" \in KnownDeviations
            /\ IsOut("content_block_start") /\ E.bk = "tool"
            /\ phase = "block" /\ blocks[Len(blocks)].k = "tool" /\ E.idx = open + 1
            /\ nextIdx' = nextIdx + 1 /\ open' = E.idx
            /\ blocks' = Append(blocks, ToolBlk(E.id, E.name, ""))
            /\ hist' = hist \o <<Ev("content_block_stop", open), Ev("content_block_start", E.idx)>>
            /\ UNCHANGED <<exp, strict, phase, rep, buf, scn>>
            /\ Consume /\ UseDeviation("KF-C13-1")

(* Known finding KF-C13-2 (only if listed): usage that the backend sends in a chunk whose "choices" is  *)
(* empty (the OpenAI stream_options.include_usage form) is dropped -- processStreamLine returns on    *)
(* empty choices before it looks at "usage" -- so message_delta reports 0/0.  The deviation explains   *)
(* exactly that report for exactly such a completion; it is read as if the usage had been passed on.   *)
KF2Usage == /\ "KF-C13-2" \in KnownDeviations /\ scn.usagePos = "nochoices" /\ exp.hasU
            /\ E.hasUin /\ E.uin = 0 /\ E.uout = 0
KF_C13_2 == /\ IsOut("message_delta") /\ KF2Usage
            /\ MessageDelta(E.stop, exp.uin, exp.uout)
            /\ Consume /\ UseDeviation("KF-C13-2")

(* Known finding KF-C13-3 (only if listed): a delta that carries BOTH text content and the first chunk *)
(* of a tool call (id + name) -- processStreamLine handles the content and returns without looking at  *)
(* tool_calls -- loses that tool call: it is never announced, later argument fragments of it are sent  *)
(* as input_json_delta into the open TEXT block, and the message ends without it.  The deviation       *)
(* explains exactly that, only for completions rendered that way (scn.both): (a) an input_json_delta   *)
(* for the open text block is skipped, (b) message_delta is accepted when all text and every tool call *)
(* that does NOT directly follow a text item are intact; from there on the message is read as complete.*)
Dropped3 == {j \in 2..Len(exp.items) : exp.items[j].k = "tool" /\ exp.items[j - 1].k = "text"}
Surv3    == LET ix == SelectSeq([j \in 1..Len(exp.items) |-> j], LAMBDA j : j \notin Dropped3)
            IN  [n \in 1..Len(ix) |-> exp.items[ix[n]]]
KF_C13_3a == /\ "KF-C13-3" \in KnownDeviations
             /\ IsOut("content_block_delta") /\ scn.both /\ E.dk = "tool"
             /\ phase = "block" /\ E.idx = open /\ blocks[Len(blocks)].k = "text"
             /\ hist' = Append(hist, Ev("content_block_delta", E.idx))
             /\ UNCHANGED <<exp, strict, phase, nextIdx, open, blocks, rep, buf, scn>>
             /\ Consume /\ UseDeviation("KF-C13-3")
KF_C13_3b == /\ "KF-C13-3" \in KnownDeviations
             /\ IsOut("message_delta") /\ scn.both /\ Dropped3 # {} /\ phase = "msg"
             /\ Summary(blocks) = Summary(Surv3)
             /\ StopOK(E.stop) /\ E.hasUin
             /\ \/ UsageOK(E.uin, E.uout) /\ rep' = [stop |-> E.stop, uin |-> E.uin, uout |-> E.uout]
                \/ KF2Usage /\ rep' = [stop |-> E.stop, uin |-> exp.uin, uout |-> exp.uout]   \* both findings at once
                             /\ UseDeviation("KF-C13-2")
             /\ blocks' = exp.items /\ nextIdx' = Len(exp.items)
             /\ phase' = "closing" /\ hist' = Append(hist, Ev("message_delta", 0))
             /\ UNCHANGED <<exp, strict, open, buf, scn>>
             /\ Consume /\ UseDeviation("KF-C13-3")

TraceInit == /\ exp = [items |-> <<>>, fin |-> "none", hasU |-> FALSE, uin |-> 0, uout |-> 0]
             /\ strict = FALSE /\ phase = "init" /\ nextIdx = 0 /\ open = 0 /\ blocks = <<>>
             /\ rep = NoRep /\ buf = NoBuf /\ hist = <<>>
             /\ scn = [usagePos |-> "none", both |-> FALSE] /\ l = 1
TraceNext == \/ TReset \/ TBuffered \/ TMessageStart \/ TBlockStart \/ TDelta \/ TBlockStop
             \/ TMessageDelta \/ TMessageStop \/ TPing \/ TEnd \/ TLax
             \/ KF_C13_1 \/ KF_C13_2 \/ KF_C13_3a \/ KF_C13_3b
TraceSpec == TraceInit /\ [][TraceNext]_tvars
HW == HWMark(l)
=============================================================================
