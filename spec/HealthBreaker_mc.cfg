CONSTANTS Threshold = 3  Timeout = 300  ProbeWindow = 10  Ticks = {3, 11, 301}  MaxLen = 0
SPECIFICATION SpecR
VIEW View
INVARIANT TypeOK
PROPERTIES OpensOnlyAfterThreshold HoldsWhileOpen ProbeAdmitted ProbeSpacing ProbeClock SuccCloses FailReopens ClosedAdmits
CHECK_DEADLOCK FALSE
