------------------------------- MODULE Forward -------------------------------
(***************************************************************************)
(* What the backend must receive for a request olla forwards:              *)
(* method, path with the route prefix removed, raw query, and the body     *)
(* byte for byte (untranslated routes) or the same nonce and model         *)
(* (translated route) — whatever else is in flight.                        *)
(*   internal/adapter/inspector/body_inspector.go  (peek + restore, pool)  *)
(*   internal/app/handlers/handler_proxy.go, handler_provider_common.go,   *)
(*   handler_translation.go;  internal/adapter/proxy/core/retry.go         *)
(*   preserveRequestBody;  internal/adapter/proxy/common/url_builder.go    *)
(***************************************************************************)
EXTENDS Naturals, Sequences, FiniteSets, TLC, Json

CONSTANTS BodyClasses, LenModes, Routes, Queries, Methods

VARIABLES sent,     \* [request id -> what the client sent]
          got,      \* [request id -> what the backend received]
          scn
vars == <<sent, got, scn>>

Rest(route) == IF route = "anthropic" THEN "/v1/chat/completions" ELSE "/v1/chat/completions"
ExpectedTarget(s) == IF s.query = "" THEN s.rest ELSE s.rest \o "?" \o s.query
Translated(route) == route \in {"anthropic", "anthropic_pt"}   \* _pt: served in passthrough mode

Init == sent = <<>> /\ got = <<>> /\ scn = <<>>

\* the client sends request r
Send(r, s) == /\ r \notin DOMAIN sent
              /\ sent' = (r :> s) @@ sent
              /\ UNCHANGED <<got, scn>>
\* a backend receives request r (identified by the X-Verif-Req header the client set)
Upstream(r, u) ==
    /\ r \in DOMAIN sent      \* every attempt (failover re-sends the request) must carry the same request
    /\ LET s == sent[r] IN
       /\ u.method = s.method
       /\ u.target = ExpectedTarget(s)
       /\ IF Translated(s.route)
          THEN u.nonce = s.nonce /\ u.model = s.model       \* same conversation, same model
          ELSE u.sha = s.sha /\ u.len = s.len               \* byte for byte
    /\ got' = [x \in DOMAIN got \cup {r} |-> IF x = r THEN u ELSE got[x]]
    /\ UNCHANGED <<sent, scn>>

\* GEN: one request description per initial state
GenInit == /\ sent = <<>> /\ got = <<>>
           /\ \E b \in BodyClasses : \E m \in LenModes : \E rt \in Routes : \E q \in Queries : \E me \in Methods :
                scn = [body |-> b, lenmode |-> m, route |-> rt, query |-> q, method |-> me]
GenNext == FALSE /\ UNCHANGED vars
Export == PrintT(<<"SCN", ToJson(scn)>>)

\* MC: a tiny closed system — two requests, the backend receives exactly what was sent
MCNext == \/ \E r \in {"r1", "r2"} : \E b \in {"A", "B"} :
               Send(r, [method |-> "POST", rest |-> "/x", query |-> "", route |-> "proxy", sha |-> b, len |-> 1, nonce |-> r, model |-> "m"])
          \/ \E r \in DOMAIN sent : Upstream(r, [method |-> sent[r].method, target |-> ExpectedTarget(sent[r]),
                                               sha |-> sent[r].sha, len |-> sent[r].len, nonce |-> sent[r].nonce, model |-> sent[r].model])
MCSpec == Init /\ [][MCNext]_vars
NoCrossTalk == \A r \in DOMAIN got :
                  /\ got[r].nonce = sent[r].nonce
                  /\ (~Translated(sent[r].route) => got[r].sha = sent[r].sha)
=============================================================================
