CONSTANTS EP = ${EP}  Strategies = {"strict", "optimistic", "discovery"}  Fallbacks = {"compatible_only", "none", "all"}  CTypes = ${CTypes}  Spellings = ${Spellings}
INIT Init
NEXT GenNext
INVARIANT Export
CHECK_DEADLOCK FALSE
