---------------------------- MODULE AdmissionTrace ----------------------------
EXTENDS Admission, TraceLib
CONSTANT KnownDeviations
VARIABLE l
tvars == <<vars, l>>
Is(name) == l <= NEv /\ TLog[l].ev = name
Consume  == l' = l + 1 /\ UNCHANGED scn
E == TLog[l]
TReset == /\ Is("Reset")
          /\ rate' = E.rate /\ burst' = E.burst /\ maxBody' = E.maxBody /\ maxMsg' = E.maxMsg
          /\ done' = <<>> /\ UNCHANGED <<now, tokens, admitted>> /\ Consume
TReq == Is("Req") /\ Finish(E) /\ Consume
TEnd == Is("End") /\ End /\ l' = l + 1
TraceInit == /\ rate = 0 /\ burst = 0 /\ maxBody = 0 /\ maxMsg = 0 /\ done = <<>>
             /\ now = 0 /\ tokens = 0 /\ admitted = <<>> /\ scn = <<>> /\ l = 1
TraceNext == TReset \/ TReq \/ TEnd
TraceSpec == TraceInit /\ [][TraceNext]_tvars
HW == HWMark(l)
=============================================================================
