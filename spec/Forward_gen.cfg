CONSTANTS BodyClasses = ${BodyClasses}  LenModes = {"cl", "chunked"}  Routes = {"proxy", "provider", "anthropic"}
          Queries = {"", "a=1&b=%2F", "x=%20y&x=2"}  Methods = {"POST"}
INIT GenInit
NEXT GenNext
INVARIANT Export
CHECK_DEADLOCK FALSE
