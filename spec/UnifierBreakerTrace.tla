-------------------------- MODULE UnifierBreakerTrace --------------------------
EXTENDS UnifierBreaker, TraceLib
CONSTANT KnownDeviations
VARIABLE l
tvars == <<vars, l>>
Is(name) == l <= NEv /\ TLog[l].ev = name
Consume  == l' = l + 1 /\ UNCHANGED scn
StName(s) == IF s = "half-open" THEN "half" ELSE s
\* failures is only meaningful (and only compared) outside the open state: while open the code
\* keeps counting, the automaton does not care
Projected == /\ st' = StName(TLog[l].st)
             /\ (st' # "open" => failures' = Min(TLog[l].f, FailureThreshold))
             /\ successes' = TLog[l].s
             /\ hoReq' = Min(TLog[l].h, SatH)
TReset == /\ Is("Reset")
          /\ st' = "closed" /\ failures' = 0 /\ successes' = 0 /\ hoReq' = 0 /\ sinceFail' = SatF
          /\ res' = "none" /\ act' = "Init" /\ consec' = 0 /\ Consume
TAsk  == Is("Ask")  /\ Ask  /\ res' = TLog[l].res /\ Projected /\ Consume
\* a burst of n overlapping Allow() calls, one of them possibly held at the gate between its load of the
\* state and its transition: the number admitted and the state afterwards are those of n consecutive Asks
TRace == Is("Race") /\ Race(TLog[l].n) /\ TLog[l].admits = RaceAdmits(TLog[l].n) /\ Projected /\ Consume
TFail == Is("Fail") /\ Fail /\ Projected /\ Consume
TSucc == Is("Succ") /\ Succ /\ Projected /\ Consume
TTick == Is("Tick") /\ Tick(TLog[l].d) /\ Consume
TraceInit == Init /\ l = 1
TraceNext == TReset \/ TAsk \/ TRace \/ TFail \/ TSucc \/ TTick
TraceSpec == TraceInit /\ [][TraceNext]_tvars
HW == HWMark(l)
=============================================================================
