----------------------------- MODULE DispatchTrace -----------------------------
(* Trace refinement of Dispatch.  Observed events: what the client sent and got, what each  *)
(* backend received (with the fault plan it then executed and the in-flight gauge it saw),   *)
(* repository statuses polled by the harness.  Unobserved olla-internal steps (how an       *)
(* attempt ended, a refused connection, a breaker skip, giving up) are silent spec actions. *)
EXTENDS Dispatch, TraceLib, FiniteSetsExt
CONSTANTS KnownDeviations,
          Scopes    \* statistic scopes judged beyond the per-endpoint one: "global", "translator" (C19 only)
VARIABLE l
tvars == <<vars, l>>
Is(name) == l <= NEv /\ TLog[l].ev = name
Consume  == l' = l + 1 /\ UNCHANGED scn
Silent   == l' = l /\ UNCHANGED scn
E == TLog[l]
StOf(f, e) == IF e \in DOMAIN f THEN f[e] ELSE "unknown"

TReset == /\ Is("Reset")
          /\ engine' = E.engine
          /\ status' = [e \in EP |-> "unknown"]
          /\ down' = [e \in EP |-> FALSE]
          /\ boom' = [e \in EP |-> FALSE]
          /\ models' = [e \in EP |-> IF e \in DOMAIN E.models THEN {E.models[e][i] : i \in 1..Len(E.models[e])} ELSE {}]
          /\ ebFail' = [e \in EP |-> 0] /\ ebOpen' = [e \in EP |-> FALSE]
          /\ rq' = <<>> /\ gauge' = [e \in EP |-> 0]
          /\ cnt' = [e \in EP |-> [ok |-> 0, fail |-> 0]]
          /\ Consume
\* a health round was run and the repository now says E.st
THealth == /\ Is("Health")
           /\ status' = [e \in EP |-> StOf(E.st, e)]
           /\ UNCHANGED <<engine, down, boom, models, ebFail, ebOpen, rq, gauge, cnt>> /\ Consume
\* the repository as polled after a request: must equal the specification's view (C04: a connection-level
\* failure takes the endpoint out of rotation, nothing else changes a status)
TRepo == /\ Is("Repo") /\ \A e \in EP : status[e] = StOf(E.st, e)
         /\ \A r \in Reqs : rq[r].phase = "done"
         /\ UNCHANGED vars /\ l' = l + 1
TDown == Is("Down") /\ SetDown(E.e, E.d) /\ Consume
TBoom == Is("Boom") /\ SetBoom(E.e, E.b) /\ Consume
TClientSend == Is("ClientSend") /\ Arrive(E.r, E.route, E.model) /\ Consume
TBackendRecv == /\ Is("BackendRecv")
                /\ AttemptStart(E.r, E.e, E.kind, E.pst, E.pn, E.pk, E.pb, E.sig)
                /\ rq'[E.r].att = E.a
                \* C19: the gauge sampled while the attempt is in flight: exact when this is the only active
                \* request, otherwise between 1 and the number of active requests (sampling and logging of
                \* concurrent attempts are not one atomic step)
                /\ LET active == {r \in Reqs : rq[r].phase # "done"} IN
                   IF Cardinality(active) = 1
                   \* ... and nothing is in flight to anybody else: an endpoint this request has left behind
                   \* (refused, failed over) no longer counts it
                   THEN gauge'[E.e] = E.gs /\ ("go" \in DOMAIN E => E.go = FoldSet(LAMBDA x, acc : acc + gauge'[x], 0, EP \ {E.e}))
                   ELSE E.gs >= 1 /\ E.gs <= Cardinality(active)
                /\ Consume
TClientDone == Is("ClientDone") /\ ClientDone(E.r, E) /\ Consume

\* counters and gauges read at quiescence (C19): per endpoint every attempt recorded exactly once, as a
\* success iff the client got a complete response with a success status; total = ok + fail at every scope;
\* gauges back to zero
TStats == /\ Is("Stats") /\ \A r \in Reqs : rq[r].phase = "done"
          /\ \A e \in EP : IF e \in DOMAIN E.ep
                            THEN /\ E.ep[e].ok = cnt[e].ok /\ E.ep[e].fail = cnt[e].fail
                                 /\ E.ep[e].total = E.ep[e].ok + E.ep[e].fail
                                 /\ E.ep[e].gauge = 0 /\ gauge[e] = 0
                            ELSE cnt[e].ok = 0 /\ cnt[e].fail = 0
          /\ E.proxy.total = E.proxy.ok + E.proxy.fail
          \* global scope: a success is only ever booked together with an endpoint's; failures may also be
          \* booked without one (nothing could be tried), at most one per request
          /\ "global" \in Scopes =>
                /\ E.proxy.ok = FoldSet(LAMBDA e, acc : acc + cnt[e].ok, 0, EP)
                /\ E.proxy.fail >= FoldSet(LAMBDA e, acc : acc + cnt[e].fail, 0, EP)
                /\ E.proxy.fail <= FoldSet(LAMBDA e, acc : acc + cnt[e].fail, 0, EP) + Cardinality(Reqs)
          \* translator scope: every request on a translated route is recorded exactly once; a success iff the
          \* client received the response in full with a success status
          /\ ("tr" \in DOMAIN E /\ "translator" \in Scopes) =>
                /\ E.tr.total = E.tr.ok + E.tr.fail
                /\ E.tr.total = Cardinality({r \in Reqs : Translated(rq[r].route)})
                /\ LET full == Cardinality({r \in Reqs : Translated(rq[r].route) /\ rq[r].last = "full" /\ rq[r].pst < 400})
                       err  == Cardinality({r \in Reqs : Translated(rq[r].route) /\ rq[r].last = "full" /\ rq[r].pst >= 400})
                       ab   == Cardinality({r \in Reqs : Translated(rq[r].route) /\ rq[r].last = "aborted"})
                   IN \/ E.tr.ok = full
                      \* Known finding KF-C19-3 (only if listed): a backend's own 4xx/5xx answer, relayed or translated,
                      \* is booked as a SUCCESS at translator scope (the repository's tests pin this down)
                      \/ /\ "KF-C19-3" \in KnownDeviations /\ err > 0 /\ ab = 0
                         /\ E.tr.ok = full + err
                         /\ UseDeviation("KF-C19-3")
                      \* Known finding KF-C19-5 (only if listed), translator scope: a stream the client walked away
                      \* from may be booked as a success (it depends on who notices the hang-up first)
                      \/ /\ "KF-C19-5" \in KnownDeviations /\ ab > 0
                         /\ E.tr.ok > full /\ E.tr.ok <= full + ab + (IF "KF-C19-3" \in KnownDeviations THEN err ELSE 0)
                         /\ UseDeviation("KF-C19-5")
          \* per-model scope (every request of these scenarios names a model): the models' counters together hold every
          \* attempt exactly once, successes as successes
          /\ ("model" \in DOMAIN E /\ "model" \in Scopes) =>
                /\ E.model.total = E.model.ok + E.model.fail
                /\ \/ /\ E.model.ok = FoldSet(LAMBDA e, acc : acc + cnt[e].ok, 0, EP)
                      /\ E.model.fail = FoldSet(LAMBDA e, acc : acc + cnt[e].fail, 0, EP)
                   \* Known finding KF-C19-6 (only if listed): nothing ever feeds the per-model collector
                   \/ /\ "KF-C19-6" \in KnownDeviations
                      /\ E.model.total = 0 /\ FoldSet(LAMBDA e, acc : acc + cnt[e].ok + cnt[e].fail, 0, EP) > 0
                      /\ UseDeviation("KF-C19-6")
          /\ UNCHANGED vars /\ l' = l + 1

TSilent == /\ \/ \E r \in Reqs : AttemptEnd(r)
              \/ \E r \in Reqs : \E e \in EP : Refused(r, e)
              \/ \E r \in Reqs : \E e \in EP : BreakerSkip(r, e)
              \/ \E r \in Reqs : GiveUp(r)
              \/ \E r \in Reqs : \E e \in EP : AttemptPanics(r, e)
           /\ Silent

(* Known finding KF-C19-5 (only if listed): a success status the client walked away from mid-stream is booked as *)
(* a SUCCESS of the endpoint (both engines exempt context.Canceled from the failure branch).                      *)
KF_C19_5 == /\ "KF-C19-5" \in KnownDeviations
            /\ \E r \in Reqs :
                 /\ rq[r].phase = "attempting" /\ rq[r].kind \in Abandoned /\ rq[r].pst < 400
                 /\ LET e == rq[r].cur IN
                    /\ gauge' = [gauge EXCEPT ![e] = @ - 1]
                    /\ rq' = [rq EXCEPT ![r] = [@ EXCEPT !.phase = "aborted", !.started = TRUE]]
                    /\ EBRecord(e, TRUE) /\ cnt' = [cnt EXCEPT ![e].ok = @ + 1]
            /\ UNCHANGED <<engine, status, down, boom, models>>
            /\ Silent /\ UseDeviation("KF-C19-5")

(* Known finding KF-C19-2 (only if listed): an attempt that panics inside olla is counted in the gauge and   *)
(* released again, but is never booked in the endpoint's request counters (neither success nor failure).     *)
KF_C19_2 == /\ "KF-C19-2" \in KnownDeviations
            /\ \E r \in Reqs : \E e \in EP :
                 /\ rq[r].phase = "choosing" /\ e \in Untried(r) /\ ~rq[r].started
                 /\ boom[e] /\ ~down[e] /\ ~(engine = "olla" /\ ebOpen[e])
                 \* exactly AttemptPanics without the bookkeeping (the endpoint is not added to `tried`, so
                 \* the conservation invariant keeps describing what WAS recorded)
                 /\ rq' = [rq EXCEPT ![r] = [@ EXCEPT !.phase = "crashed", !.last = "panic"]]
            /\ UNCHANGED <<engine, status, down, boom, models, ebFail, ebOpen, gauge, cnt>>
            /\ Silent /\ UseDeviation("KF-C19-2")

TraceInit == Init /\ l = 1
TraceNext == TReset \/ THealth \/ TRepo \/ TDown \/ TBoom \/ TClientSend \/ TBackendRecv \/ TClientDone \/ TStats \/ TSilent \/ KF_C19_2 \/ KF_C19_5
TraceSpec == TraceInit /\ [][TraceNext]_tvars
HW == HWMark(l)
=============================================================================
