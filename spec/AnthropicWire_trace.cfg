CONSTANTS Engines = {}  Cuts = {}  Fins = {}  Shapes = {}
CONSTANT KnownDeviations = ${KnownDeviations}
SPECIFICATION TraceSpec
CONSTRAINT HW
POSTCONDITION Accepted
CHECK_DEADLOCK FALSE
