--------------------------- MODULE HealthSchedTrace ---------------------------
(* Every recorded step of the real health checker / repository / breaker / retry handler    *)
(* must be a HealthSched step with the logged repository record and callback count.         *)
EXTENDS HealthSched, TraceLib
CONSTANT KnownDeviations
VARIABLE l
tvars == <<vars, l>>
Is(name) == l <= NEv /\ TLog[l].ev = name
Consume  == l' = l + 1 /\ UNCHANGED scn
E == TLog[l]
Stored == status' = E.status /\ cf' = E.cf /\ mult' = E.mult /\ lastIv' = E.iv /\ cb' = E.cb

TReset == /\ Is("Reset")
          /\ ci' = E.ci /\ status' = "unknown" /\ cf' = 0 /\ mult' = 1 /\ wait' = 0 /\ lastIv' = 0
          /\ backend' = E.backend /\ cb' = 0 /\ sinceReal' = 0
          /\ hbF' = 0 /\ hbOpen' = FALSE /\ hbSF' = 31 /\ hbP' = FALSE /\ hbSP' = 2
          /\ hbRes' = "none" /\ hbAct' = "Init" /\ hbCons' = 0 /\ hbScn' = <<>>
          /\ act' = "Init" /\ real' = FALSE /\ Consume
\* SetBackend to the same value is a no-op in the harness as in the spec
TSetBackend == /\ Is("SetBackend")
               /\ IF E.b = backend THEN UNCHANGED <<ci, status, cf, mult, wait, lastIv, backend, cb, sinceReal, hbvars, act, real>>
                                   ELSE SetBackend(E.b)
               /\ Consume
TTick  == Is("Tick") /\ Tick(E.d) /\ Consume
TRound == Is("Round") /\ Round /\ real' = (E.probes > 0) /\ Stored /\ Consume
TProxyFailure == Is("ProxyFailure") /\ ProxyFailure /\ Stored /\ Consume
TFinal == /\ Is("Final") /\ cb = E.cb
          /\ UNCHANGED <<ci, status, cf, mult, wait, lastIv, backend, cb, sinceReal, hbvars, real>>
          /\ act' = "Final" /\ Consume

TraceInit == /\ ci = 1 /\ status = "unknown" /\ cf = 0 /\ mult = 1 /\ wait = 0 /\ lastIv = 0
             /\ backend = "ok" /\ cb = 0 /\ sinceReal = 0 /\ HB!Init /\ act = "Init" /\ real = FALSE
             /\ scn = <<>> /\ l = 1
TraceNext == TReset \/ TSetBackend \/ TTick \/ TRound \/ TProxyFailure \/ TFinal
TraceSpec == TraceInit /\ [][TraceNext]_tvars
HW == HWMark(l)
=============================================================================
