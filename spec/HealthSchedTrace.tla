--------------------------- MODULE HealthSchedTrace ---------------------------
(* Every recorded step of the real health checker / repository / breaker / retry handler    *)
(* must be a HealthSched step with the logged repository record and callback count.         *)
EXTENDS HealthSched, TraceLib
CONSTANT KnownDeviations
VARIABLE l
tvars == <<vars, l>>
Is(name) == l <= NEv /\ TLog[l].ev = name
Consume  == l' = l + 1 /\ UNCHANGED scn
E == TLog[l]
Stored == status' = E.status /\ cf' = E.cf /\ mult' = E.mult /\ lastIv' = E.iv /\ cb' = E.cb

TReset == /\ Is("Reset")
          /\ ci' = E.ci /\ status' = "unknown" /\ cf' = 0 /\ mult' = 1 /\ wait' = 0 /\ lastIv' = 0
          /\ backend' = E.backend /\ cb' = 0 /\ sinceReal' = 0
          /\ hbF' = 0 /\ hbOpen' = FALSE /\ hbSF' = 31 /\ hbP' = FALSE /\ hbSP' = 2
          /\ hbRes' = "none" /\ hbAct' = "Init" /\ hbCons' = 0 /\ hbScn' = <<>>
          /\ act' = "Init" /\ real' = FALSE /\ pend' = [on |-> FALSE, st |-> "none", from |-> "none", age |-> 0] /\ slowSeen' = FALSE /\ Consume
\* SetBackend to the same value is a no-op in the harness as in the spec
TSetBackend == /\ Is("SetBackend")
               /\ IF E.b = backend THEN UNCHANGED <<ci, status, cf, mult, wait, lastIv, backend, cb, sinceReal, hbvars, act, real, pend, slowSeen>>
                                   ELSE SetBackend(E.b)
               /\ Consume
TTick  == Is("Tick") /\ Tick(E.d) /\ Consume
TRound == Is("Round") /\ Round /\ real' = (E.probes > 0) /\ Stored /\ Consume
\* a round whose time budget is shorter than a hanging backend's probe; when no such probe is due (the check is
\* not due, the breaker does not admit, the backend is not the hanging one) it is an ordinary round
TRoundCut == /\ Is("RoundCut")
             /\ IF wait = 0 /\ HB!Admits /\ backend = "timeout" /\ ~pend.on THEN RoundCut ELSE (Round /\ real' = (E.probes > 0))
             /\ Stored /\ Consume
TProxyFailure == Is("ProxyFailure") /\ ProxyFailure /\ Stored /\ Consume
TSlowBegin == Is("SlowBegin") /\ "skipped" \notin DOMAIN E /\ SlowBegin /\ real' = (E.probes > 0) /\ Consume
\* the scenario asked for an overlapped check at a moment when none is due (the generator cannot know the
\* backoff an earlier overlapped store left behind): nothing ran, and nothing may have been probed
TSlowBeginSkip == /\ Is("SlowBegin") /\ "skipped" \in DOMAIN E /\ wait > 0 /\ ~pend.on /\ E.probes = 0
                  /\ act' = "SlowSkip" /\ real' = FALSE
                  /\ UNCHANGED <<ci, status, cf, mult, wait, lastIv, backend, cb, sinceReal, hbvars, pend, slowSeen>>
                  /\ Consume
TSlowEnd == Is("SlowEnd") /\ SlowEnd(E.cf, E.mult, E.iv) /\ status' = E.status /\ cb' = E.cb /\ Consume
(* Known finding KF-C07-1 (only if listed): a check that overlaps another writer decides about the recovery *)
(* callback from its SNAPSHOT of the status: endpoint healthy when the probe started, marked offline by the  *)
(* proxy meanwhile, probe result healthy stored afterwards -> stored transition offline->healthy, no       *)
(* re-discovery. (And the converse: a callback for a transition that is none.)                              *)
KF_C07_1 == /\ "KF-C07-1" \in KnownDeviations
            /\ Is("SlowEnd") /\ pend.on /\ pend.from # status
            /\ SlowEndJudged(E.cf, E.mult, E.iv, pend.from) /\ status' = E.status /\ cb' = E.cb
            /\ Consume /\ UseDeviation("KF-C07-1")
TFinal == /\ Is("Final") /\ cb = E.cb
          /\ UNCHANGED <<ci, status, cf, mult, wait, lastIv, backend, cb, sinceReal, hbvars, real, pend, slowSeen>>
          /\ act' = "Final" /\ Consume

(* RecoveryCallback, except on the step the listed finding KF-C07-1 is about (an overlapped store judged   *)
(* against a stale snapshot) -- and only while that finding is listed.                                     *)
StaleStore == "KF-C07-1" \in KnownDeviations /\ pend.on /\ ~pend'.on /\ pend.from # status
TRecoveryCallback == [][(act' # "Init" /\ ~StaleStore) => cb' = IF status' = "healthy" /\ status \notin {"healthy", "unknown"} THEN CbInc(cb) ELSE cb]_vars

TraceInit == /\ ci = 1 /\ status = "unknown" /\ cf = 0 /\ mult = 1 /\ wait = 0 /\ lastIv = 0
             /\ backend = "ok" /\ cb = 0 /\ sinceReal = 0 /\ HB!Init /\ act = "Init" /\ real = FALSE /\ pend = [on |-> FALSE, st |-> "none", from |-> "none", age |-> 0] /\ slowSeen = FALSE
             /\ scn = <<>> /\ l = 1
TraceNext == TReset \/ TSetBackend \/ TTick \/ TRound \/ TRoundCut \/ TProxyFailure \/ TSlowBegin \/ TSlowBeginSkip \/ TSlowEnd \/ KF_C07_1 \/ TFinal
TraceSpec == TraceInit /\ [][TraceNext]_tvars
HW == HWMark(l)
=============================================================================
