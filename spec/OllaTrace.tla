------------------------------ MODULE OllaTrace ------------------------------
(* Trace refinement of Olla: what the assembled server was observed to do in one scenario.               *)
(*   Boot{kind, lists, known, status}  Up{e, b}  Relist{e, S}  Health{status, known}                      *)
(*   Req{route, model}  BackendRecv{e}*  Done{st}  Repo{status}                                           *)
(* An attempt on a refusing backend leaves no event (the backend sees nothing): a silent step.            *)
EXTENDS Olla, TraceLib
CONSTANT KnownDeviations
VARIABLE l
tvars == <<vars, l>>
E == TLog[l]
Is(name) == l <= NEv /\ TLog[l].ev = name
Consume == l' = l + 1 /\ UNCHANGED scn
SetOf(s) == {s[i] : i \in 1..Len(s)}
SetsOf(f) == [e \in EP |-> IF e \in DOMAIN f THEN SetOf(f[e]) ELSE {}]

\* endpoints of EP that this scenario does not have stay down, offline and unknown for ever
InDom(f, e) == e \in DOMAIN f
TBoot == /\ Is("Boot")
         /\ kind' = [e \in EP |-> IF InDom(E.kind, e) THEN E.kind[e] ELSE CHOOSE k \in Kinds : TRUE]
         /\ cfg' = [engine |-> E.engine, lb |-> E.lb, prio |-> [e \in EP |-> IF InDom(E.prio, e) THEN E.prio[e] ELSE 1]]
         /\ up' = [e \in EP |-> IF InDom(E.kind, e) THEN "up" ELSE "down"] /\ lists' = SetsOf(E.lists)
         /\ status' = [e \in EP |-> IF InDom(E.status, e) THEN E.status[e] ELSE "offline"] /\ known' = SetsOf(E.known)
         \* the boot itself is an obligation: everybody probed healthy and listed
         /\ \A e \in DOMAIN E.kind : status'[e] = "healthy"
         /\ known' = lists'
         /\ hb' = [e \in EP |-> 0]
         /\ req' = NoReq /\ act' = "Init" /\ cnt' = [e \in EP |-> [ok |-> 0, fail |-> 0]] /\ Consume
TUp     == Is("Up") /\ SetUp(E.e, E.b) /\ Consume
TRelist == Is("Relist") /\ Relist(E.e, SetOf(E.S)) /\ Consume
THealth == /\ Is("Health") /\ Health
           /\ status' = [e \in EP |-> IF InDom(E.status, e) THEN E.status[e] ELSE "offline"] /\ known' = SetsOf(E.known)
           /\ Consume
TReq    == Is("Req") /\ Arrive(E.route, E.model) /\ Consume
TRecv   == Is("BackendRecv") /\ E.e \in EP /\ up[E.e] # "down" /\ Attempt(E.e)
           /\ E.target = PathAt(req.route, E.e)          \* passthrough exactly for native backends on the Anthropic route
           /\ Consume
TSilent == /\ \E e \in EP : up[e] = "down" /\ Attempt(e)
           /\ UNCHANGED <<l, scn>>
TDone   == /\ Is("Done") /\ Answer
           /\ IF req.phase = "served" THEN E.st = 200 ELSE E.st >= 400
           /\ Consume
\* the repository after the request: exactly the refusing candidates that were tried are offline now
TRepo   == /\ Is("Repo") /\ Idle /\ \A e \in DOMAIN E.status : E.status[e] = status[e]
           \* ... and the statistics have booked every attempt once, gauges back at zero
           /\ \A e \in DOMAIN E.status : IF InDom(E.stats, e)
                                          THEN E.stats[e].ok = cnt[e].ok /\ E.stats[e].fail = cnt[e].fail /\ E.stats[e].gauge = 0
                                          ELSE cnt[e].ok = 0 /\ cnt[e].fail = 0
           /\ UNCHANGED vars /\ l' = l + 1

TList   == Is("List") /\ List(E.route) /\ ListOK(E.route, SetOf(E.ids)) /\ Consume

TraceInit == /\ kind = [e \in EP |-> CHOOSE k \in Kinds : TRUE] /\ cfg = [engine |-> "sherpa", lb |-> "round-robin", prio |-> [e \in EP |-> 1]] /\ up = [e \in EP |-> "up"]
             /\ lists = [e \in EP |-> {}] /\ status = [e \in EP |-> "healthy"] /\ known = [e \in EP |-> {}]
             /\ hb = [e \in EP |-> 0]
             /\ req = NoReq /\ act = "Init" /\ cnt = [e \in EP |-> [ok |-> 0, fail |-> 0]] /\ scn = <<>> /\ l = 1
TraceNext == TList \/ TBoot \/ TUp \/ TRelist \/ THealth \/ TReq \/ TRecv \/ TSilent \/ TDone \/ TRepo
TraceSpec == TraceInit /\ [][TraceNext]_tvars
HW == HWMark(l)
=============================================================================
