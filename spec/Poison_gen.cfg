CONSTANTS Classes = ${Classes}  HealthClasses = ${HealthClasses}  Formats = ${Formats}  Fields = ${Fields}  Mutations = ${Mutations}  ValueClasses = ${ValueClasses}
INIT GenInit
NEXT GenNext
INVARIANT Export
CHECK_DEADLOCK FALSE
