CONSTANTS Classes = ${Classes}  HealthClasses = ${HealthClasses}  Formats = ${Formats}  Fields = ${Fields}  FleetClasses = ${FleetClasses}  Mutations = ${Mutations}  ValueClasses = ${ValueClasses}
INIT GenInit
NEXT GenNext
INVARIANT Export
CHECK_DEADLOCK FALSE
