CONSTANTS Classes = ${Classes}  HealthClasses = ${HealthClasses}  Formats = ${Formats}  Fields = ${Fields}  ValueClasses = ${ValueClasses}
INIT GenInit
NEXT GenNext
INVARIANT Export
CHECK_DEADLOCK FALSE
