CONSTANTS EP = ${EP}  Models = {"alphaone", "bravotwo"}  Ask = {"alphaone", "bravotwo", "zuluniner"}
          Kinds = {"ollama", "vllm"}  Routes = {"proxy", "ollama", "vllm", "anthropic"}  MaxLen = ${MaxLen}
SPECIFICATION Spec
INVARIANT SimExport
CONSTRAINT GenConstraint
CHECK_DEADLOCK FALSE
