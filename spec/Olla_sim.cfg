CONSTANTS EP = ${EP}  Models = {"alphaone", "bravotwo"}  Ask = {"alphaone", "bravotwo", "zuluniner"}
          Kinds = {"ollama", "sglang"}  Routes = {"proxy", "ollama", "sglang", "anthropic"}  Ops = ${Ops}  MaxLen = ${MaxLen}
SPECIFICATION Spec
INVARIANT SimExport
CONSTRAINT GenConstraint
CHECK_DEADLOCK FALSE
