CONSTANTS EP = {"e1", "e2", "e3"}  Strategies = {"strict", "optimistic", "discovery"}  Fallbacks = {"compatible_only", "none", "all"}  CTypes = {"json"}  Spellings = {"exact"}
SPECIFICATION Spec
INVARIANTS TypeOK ServedWhereListed
CHECK_DEADLOCK FALSE
