--------------------------- MODULE AnthropicReqTrace ---------------------------
(* Every recorded result of Translator.TransformRequest (event Translate) and every observation *)
(* through the assembled server (event Http) must be a step of AnthropicReq for the request     *)
(* carried by the preceding Reset.                                                              *)
EXTENDS AnthropicReq, TraceLib
CONSTANT KnownDeviations
VARIABLE l
tvars == <<vars, l>>
Is(name) == l <= NEv /\ TLog[l].ev = name
Consume  == l' = l + 1
E == TLog[l]

TReset == /\ Is("Reset") /\ act \in {"Init", "End"}
          /\ req' = [msgs |-> E.req.msgs, cfg |-> E.req.cfg]
          /\ res' = NoRes /\ hres' = NoH /\ act' = "Submitted" /\ dev' = {}
          /\ Consume

XRes == [ok |-> E.ok, out |-> E.out]
XHttp == [st |-> E.st, shape |-> E.shape, up |-> E.up, out |-> E.out]

TTranslate == Is("Translate") /\ Translate(XRes, {}) /\ Consume
THttp      == Is("Http") /\ Http(XHttp, {}) /\ Consume
TEnd       == Is("End") /\ End /\ Consume

(* Known findings (only those listed in KnownDeviations).  D is the smallest set of named        *)
(* deviations under which the recorded result is a step; each deviation replaces the client's    *)
(* order / tool_choice by exactly what the defective code emits (see MsgItemsD, ChoiceOK), so a  *)
(* result that is neither faithful nor exactly the known defect is still refused.                *)
Minimal(D, P(_)) == P(D) /\ \A d \in D : ~P(D \ {d})
KF_Translate == /\ Is("Translate")
                /\ \E D \in (SUBSET KnownDeviations) \ {{}} :
                      /\ Minimal(D, LAMBDA X : Judge(req, XRes, X))
                      /\ Translate(XRes, D)
                      /\ \A d \in D : UseDeviation(d)
                /\ Consume
KF_Http == /\ Is("Http")
           /\ \E D \in (SUBSET KnownDeviations) \ {{}} :
                 /\ Minimal(D, LAMBDA X : HttpJudge(req, XHttp, X))
                 /\ Http(XHttp, D)
                 /\ \A d \in D : UseDeviation(d)
           /\ Consume

TraceInit == /\ req = [msgs |-> <<>>, cfg |-> DefaultCfg] /\ res = NoRes /\ hres = NoH
             /\ act = "Init" /\ dev = {} /\ l = 1
TraceNext == TReset \/ TTranslate \/ THttp \/ TEnd \/ KF_Translate \/ KF_Http
TraceSpec == TraceInit /\ [][TraceNext]_tvars
HW == HWMark(l)
=============================================================================
