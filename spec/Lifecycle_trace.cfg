CONSTANTS Svcs = {"a", "b", "c", "d"}  Ghost = "ghost"  GhostAt = "a"
CONSTANT KnownDeviations = ${KnownDeviations}
SPECIFICATION TraceSpec
CONSTRAINT HW
INVARIANTS TypeOK DepsUp TDepsStillUp CulpritUntouched
POSTCONDITION Accepted
CHECK_DEADLOCK FALSE
