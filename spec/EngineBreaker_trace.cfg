CONSTANTS Threshold = 5  Timeout = 300  Ticks = {3, 301}  MaxLen = 0
CONSTANT KnownDeviations = ${KnownDeviations}
SPECIFICATION TraceSpec
CONSTRAINT HW
INVARIANT TypeOK
PROPERTIES OpensOnlyAfterThreshold HoldsWhileOpen ProbeAdmitted HalfAdmits SuccCloses FailReopens ClosedAdmits
POSTCONDITION Accepted
CHECK_DEADLOCK FALSE
