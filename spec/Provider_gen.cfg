CONSTANTS EP = ${EP}  Prefixes = ${Prefixes}  Types = ${Types}
CONSTANT AllowedChoices = {{}}
INIT Init
NEXT GenNext
INVARIANT Export
CHECK_DEADLOCK FALSE
