CONSTANTS EP = ${EP}  Prefixes = ${Prefixes}  Types = ${Types}
CONSTANT Focus = ${Focus}
CONSTANT Strats = ${Strats}
CONSTANT FlipFocus = ${FlipFocus}
CONSTANT DropFocus = ${DropFocus}
CONSTANT AllowedChoices = {{}}
INIT Init
NEXT GenNext
INVARIANT Export
CHECK_DEADLOCK FALSE
