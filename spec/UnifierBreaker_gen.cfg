CONSTANTS FailureThreshold = 5  SuccessThreshold = 2  HalfOpenRequests = 3  OpenDuration = 600  Ticks = {3, 601}  MaxLen = 0  Races = ${Races}
CONSTANTS ReachLen = ${ReachLen}  SufLen = ${SufLen}
SPECIFICATION GSpec
VIEW GView
INVARIANT GExport
CHECK_DEADLOCK FALSE
