CONSTANTS MCNames = {}  MCVals = {}  MaxLines = 0  MaxAttempts = 0  FirstLineOnly = FALSE
CONSTANT KnownDeviations = ${KnownDeviations}
SPECIFICATION TraceSpec
CONSTRAINT HW
INVARIANTS Inv_C15a Inv_C15b Inv_C15c
POSTCONDITION Accepted
CHECK_DEADLOCK FALSE
