---------------------------- MODULE HeadersTrace ----------------------------
(* Trace refinement of Headers: every header block a backend recorded must be one that the property allows   *)
(* for the block the client wrote (Forward).  Events of one scenario:                                          *)
(*   Reset, ClientSend(lines), BackendRecv(lines)*, ClientDone                                                *)
(* BackendRecv carries the request id the backend read from the block; the harness attributes a block to the   *)
(* current request unless the id is that of an earlier, finished request (event Stale).                         *)
EXTENDS Headers, TraceLib
CONSTANT KnownDeviations
VARIABLE l
tvars == <<vars, l>>
Is(name) == l <= NEv /\ TLog[l].ev = name
Consume  == l' = l + 1
E == TLog[l]

TReset == /\ Is("Reset")
          /\ sent' = <<>> /\ ups' = <<>> /\ phase' = "idle" /\ act' = "Reset"
          /\ Consume
TSend  == Is("ClientSend") /\ Send(E.lines) /\ Consume
TRecv  == Is("BackendRecv") /\ Forward(E.lines) /\ Consume
\* the answer itself is not this property's business (a 4xx of the HTTP server included)
\* a request of an EARLIER scenario (its client gave up) reached a backend only now: not this request's block
TStale == Is("Stale") /\ act' = "Stale" /\ UNCHANGED <<sent, ups, phase>> /\ Consume
TDone  == Is("ClientDone") /\ act' = "Done" /\ UNCHANGED <<sent, ups, phase>> /\ Consume

(* Known findings (only if listed).  Both come from reading a repeated field with Header.Get (first line only)  *)
(* and then replacing ALL of its lines with Header.Set(first line + olla's element):                            *)
(*   KF-C15-1  Via / X-Forwarded-For sent as two or more lines, first line not empty: the later lines are lost   *)
(*   KF-C15-2  any of the five forwarded fields sent as two or more lines, first line empty: olla treats the     *)
(*             field as absent and sets its own value, the later lines are lost                                  *)
(* The deviation explains exactly that shape: the upstream field consists of the elements of the client's first *)
(* line followed by exactly one further element; everything else about the block must be as the property says.  *)
FirstLineKept(H, U, n) == LET L == LinesOf(H, n)  eu == ElsOf(U, n) IN
                             /\ Len(L) >= 2
                             /\ Len(eu) = Len(L[1].els) + 1
                             /\ IsPrefix(L[1].els, eu)
Expl1(H, U, n) == /\ "KF-C15-1" \in KnownDeviations
                  /\ n \in {"via", "x-forwarded-for"} /\ LinesOf(H, n)[1].els # <<>>
                  /\ FirstLineKept(H, U, n)
Expl2(H, U, n) == /\ "KF-C15-2" \in KnownDeviations
                  /\ LinesOf(H, n)[1].els = <<>>
                  /\ FirstLineKept(H, U, n)
KF_C15 == /\ KnownDeviations # {}
          /\ Is("BackendRecv") /\ phase = "sent"
          /\ LET U   == E.lines
                 bad == {n \in NamesOf(sent) \cap Forwarded : ~IsPrefix(ElsOf(sent, n), ElsOf(U, n))}
             IN /\ bad # {}
                /\ NoSensitive(sent, U) /\ NoHopByHop(sent, U) /\ OthersUnchanged(sent, U)
                /\ \A n \in bad : Expl1(sent, U, n) \/ Expl2(sent, U, n)
                /\ act' = "Deviation" /\ UNCHANGED <<sent, ups, phase>> /\ Consume
                /\ TLCSet(2, TLCGet(2)
                          \cup (IF \E n \in bad : LinesOf(sent, n)[1].els # <<>> THEN {"KF-C15-1"} ELSE {})
                          \cup (IF \E n \in bad : LinesOf(sent, n)[1].els = <<>> THEN {"KF-C15-2"} ELSE {}))

TraceInit == Init /\ l = 1
TraceNext == TReset \/ TSend \/ TRecv \/ TStale \/ TDone \/ KF_C15
TraceSpec == TraceInit /\ [][TraceNext]_tvars
HW == HWMark(l)
=============================================================================
