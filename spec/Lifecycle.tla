------------------------------ MODULE Lifecycle ------------------------------
(***************************************************************************)
(* Service orchestration of the assembled server                            *)
(*   internal/app/services/manager.go  (ServiceManager.Start / Stop)        *)
(*                                                                         *)
(* Not one of the listed properties: part of the growth of the              *)
(* specification towards the whole system (DESIGN.md section 16).           *)
(*                                                                         *)
(* Services declare dependencies. The manager's documented contract:       *)
(*   L1  a service is started only after every service it depends on has    *)
(*       started, each service at most once;                                *)
(*   L2  Stop stops every started service, dependants before the services   *)
(*       they depend on, each at most once;                                 *)
(*   L3  if a service fails to start, Start returns an error after stopping *)
(*       exactly the services started so far -- again dependants first --   *)
(*       and starts nothing further; the failed service is not stopped;     *)
(*   L4  a dependency on an unregistered service or a dependency cycle      *)
(*       makes Start fail before anything is started.                       *)
(*                                                                         *)
(* The model is the contract, not Kahn's algorithm: any order that respects *)
(* the dependency relation is a behaviour. One scenario = (Deps, FailStart, *)
(* FailStop); the events are the fake services' Start/Stop calls and the    *)
(* results of the manager's Start and Stop.                                 *)
(***************************************************************************)
EXTENDS Naturals, FiniteSets, Sequences, TLC, Json

CONSTANTS Svcs,        \* registered service names
          Ghost,       \* a name that is never registered (for "dependency not registered")
          GhostAt      \* GEN: the one service that may name Ghost as a dependency

VARIABLES deps,        \* scenario: [Svcs -> SUBSET (Svcs \cup {Ghost})]
          failStart,   \* scenario: services whose Start returns an error
          failStop,    \* scenario: services whose Stop returns an error
          phase,       \* "init" | "starting" | "rollback" | "running" | "stopping" | "failed" | "stopped"
          started,     \* services whose Start returned nil
          stopped,     \* services whose Stop was called
          culprit      \* the service whose Start failed ("none")

vars == <<deps, failStart, failStop, phase, started, stopped, culprit>>

RECURSIVE Reach(_, _, _)
\* services reachable from s along deps within n steps
Reach(d, s, n) == IF n = 0 THEN {} ELSE LET direct == d[s] \cap Svcs IN direct \cup UNION {Reach(d, t, n - 1) : t \in direct}
Cyclic(d) == \E s \in Svcs : s \in Reach(d, s, Cardinality(Svcs))
Missing(d) == \E s \in Svcs : Ghost \in d[s]
Valid(d) == ~Cyclic(d) /\ ~Missing(d)
Dependants(s) == {t \in Svcs : s \in deps[t]}
Live == started \ stopped

Init == /\ deps \in [Svcs -> SUBSET (Svcs \cup {Ghost})]
        /\ \A s \in Svcs : s \notin deps[s]
        /\ failStart \in SUBSET Svcs /\ failStop \in SUBSET Svcs
        /\ phase = "init" /\ started = {} /\ stopped = {} /\ culprit = "none"

\* manager.Start is called
Begin == /\ phase = "init"
         /\ phase' = IF Valid(deps) THEN "starting" ELSE "failed"      \* L4
         /\ UNCHANGED <<deps, failStart, failStop, started, stopped, culprit>>

\* one service's Start is called
StartSvc(s) == /\ phase = "starting" /\ s \notin started /\ culprit = "none"
               /\ (deps[s] \cap Svcs) \subseteq started               \* L1
               /\ IF s \in failStart
                  THEN culprit' = s /\ phase' = "rollback" /\ UNCHANGED started
                  ELSE started' = started \cup {s} /\ UNCHANGED <<culprit, phase>>
               /\ UNCHANGED <<deps, failStart, failStop, stopped>>
\* manager.Start returns nil
Up == /\ phase = "starting" /\ started = Svcs /\ phase' = "running"
      /\ UNCHANGED <<deps, failStart, failStop, started, stopped, culprit>>
\* manager.Stop is called
Down == /\ phase = "running" /\ phase' = "stopping"
        /\ UNCHANGED <<deps, failStart, failStop, started, stopped, culprit>>
\* one service's Stop is called (roll-back after a failed start, or shutdown)
StopSvc(s) == /\ phase \in {"rollback", "stopping"} /\ s \in Live
              /\ Dependants(s) \cap Live = {}                           \* L2 / L3: dependants first
              /\ stopped' = stopped \cup {s}
              /\ UNCHANGED <<deps, failStart, failStop, phase, started, culprit>>
\* manager.Start returns its error / manager.Stop returns
Done == /\ phase \in {"rollback", "stopping"} /\ Live = {}
        /\ phase' = IF phase = "rollback" THEN "failed" ELSE "stopped"
        /\ UNCHANGED <<deps, failStart, failStop, started, stopped, culprit>>

Next == Begin \/ (\E s \in Svcs : StartSvc(s) \/ StopSvc(s)) \/ Up \/ Down \/ Done
Spec == Init /\ [][Next]_vars /\ WF_vars(Next)

-----------------------------------------------------------------------------
TypeOK == /\ started \subseteq Svcs /\ stopped \subseteq started
          /\ phase \in {"init", "starting", "rollback", "running", "stopping", "failed", "stopped"}
\* L1 as a state invariant: whatever has started has its dependencies started
DepsUp == \A s \in started : (deps[s] \cap Svcs) \subseteq started
\* L2/L3: whatever is still live has its dependencies still live
DepsStillUp == \A s \in Live : (deps[s] \cap Svcs) \cap stopped = {}
\* L3: the culprit is never stopped; L4: nothing starts on an invalid graph
CulpritUntouched == culprit # "none" => culprit \notin started
NothingOnInvalid == ~Valid(deps) => started = {}
\* the orchestration always comes to rest, with nothing left running unless it is "running"
Settles == <>(phase \in {"failed", "stopped"})
AtRestClean == phase \in {"failed", "stopped"} => Live = {}
\* the result of manager.Stop: the first Stop error, if any service's Stop failed
StopErr == (stopped \cap failStop) # {}

\* GEN: one scenario per initial state
ScnOf == [deps |-> [s \in Svcs |-> deps[s]], failStart |-> failStart, failStop |-> failStop]
Export == PrintT(<<"SCN", ToJson(ScnOf)>>)
GenNext == FALSE /\ UNCHANGED vars
\* every dependency graph over Svcs (the unregistered name only ever as a dependency of the first service),
\* at most one service failing to start and at most one failing to stop; a graph the manager must refuse
\* is generated once, without failures (they could not matter)
GenBound == /\ \A s \in Svcs \ {GhostAt} : Ghost \notin deps[s]
            /\ Cardinality(failStart) <= 1 /\ Cardinality(failStop) <= 1
            /\ (~Valid(deps) => failStart = {} /\ failStop = {})
GenSpec == Init /\ GenBound /\ [][GenNext]_vars
=============================================================================
