------------------------------ MODULE GlobLookup ------------------------------
(***************************************************************************)
(* Filter lookups on ONE filter instance (filter.GlobFilter, the object    *)
(* discovery.ModelDiscoveryService keeps for all endpoints).  The clause   *)
(* of C10 decided here: whether a model name matches a filter depends only *)
(* on the name and the patterns, not on earlier lookups.                   *)
(*                                                                         *)
(* A lookup is q = [n, inc, exc]; the answer is Glob!Passes(n, inc, exc)   *)
(* whatever was asked before.  A scenario is one long sequence of lookups  *)
(* -- a permutation of a whole universe Names x Configs -- so that every   *)
(* lookup is preceded by many others.                                      *)
(***************************************************************************)
EXTENDS Glob, TLC, Json, SequencesExt

CONSTANTS Names,     \* set of names
          Configs,   \* set of [inc, exc]
          Strides,   \* candidate strides for the permutations
          MaxLen     \* MC only: bound on the number of lookups

VARIABLES q,      \* last lookup
          res,    \* its answer
          asked,  \* ghost: lookups made so far, with the answer each got
          act, scn
vars == <<q, res, asked, act, scn>>

Lookups == {[n |-> n, inc |-> c.inc, exc |-> c.exc] : n \in Names, c \in Configs}
Answer(x) == Passes(x.n, x.inc, x.exc)

Init == q = [n |-> <<>>, inc |-> <<>>, exc |-> <<>>] /\ res = TRUE /\ asked = {} /\ act = "Init" /\ scn = <<>>

Lookup(x) == /\ act' = "Lookup" /\ q' = x
             /\ res' = Answer(x)
             /\ asked' = asked \cup {<<x, res'>>}
             /\ scn' = Append(scn, x)

Next == Len(scn) < MaxLen /\ \E x \in Lookups : Lookup(x)
Spec == Init /\ [][Next]_vars

\* the clause: one answer per (name, patterns), whatever the history
Inv_C10f == \A a, b \in asked : a[1] = b[1] => a[2] = b[2]
Inv_Answer == act = "Lookup" => res = Answer(q)
\* documented precedence rules
ExcludeWins == act = "Lookup" /\ Excluded(q.n, q.exc) => ~res
EmptyIncludeAll == act = "Lookup" /\ q.inc = <<>> /\ ~Excluded(q.n, q.exc) => res
ValidUniverse == \A c \in Configs : \A p \in PatsOf(c.inc, c.exc) : ValidPattern(p)
CaseFree == \A x \in Lookups : CaseIndependent(x.n, x.inc, x.exc)

-----------------------------------------------------------------------------
(* universes *)
S(a, b) == <<a, b>>
A == "a"  B == "b"  C == ":"
\* one long "letter" (130 bytes, none of them a, b, ':' or '*'): names that agree on a long prefix or suffix and
\* in length -- whatever an implementation keys a cache on must still tell them apart
L == "xxxxxxxxxxxxxxxxxxxxxxxxxxxxxxxxxxxxxxxxxxxxxxxxxxxxxxxxxxxxxxxxxxxxxxxxxxxxxxxxxxxxxxxxxxxxxxxxxxxxxxxxxxxxxxxxxxxxxxxxxxxxxxxxxx"
NamesQ == {<<A>>, <<B>>, <<A, B>>, <<B, A>>, <<A, A>>, <<A, C, C, B>>, <<B, C, C, A>>, <<A, C, C, A>>,
           <<A, C, B>>, <<A, B, C, C, A>>, <<L, A>>, <<L, B>>, <<A, L>>, <<B, L>>}
NamesT == NamesQ \cup {<<B, B>>, <<B, C, C, B>>, <<A, C, C, A, B>>, <<C, C>>, <<A, C, C>>, <<C, C, A>>,
                      <<A, A, B>>, <<A, C, C, B, C, C, A>>}
CoresQ == (NamesQ \ {<<L, A>>, <<L, B>>, <<A, L>>, <<B, L>>}) \cup {<<C>>, <<C, C>>, <<L>>}
CoresT == (NamesT \ {<<L, A>>, <<L, B>>, <<A, L>>, <<B, L>>}) \cup {<<C>>, <<C, A>>, <<A, C>>, <<L>>}
St == "*"
Star == <<St>>
PatsFrom(cores) == {Star} \cup cores \cup {c \o Star : c \in cores} \cup {Star \o c : c \in cores}
                   \cup {Star \o c \o Star : c \in cores}
One(ps) == {[inc |-> <<p>>, exc |-> <<>>] : p \in ps} \cup {[inc |-> <<>>, exc |-> <<p>>] : p \in ps}
Two(ps, qs) == {[inc |-> <<p>>, exc |-> <<r>>] : p \in ps, r \in qs}
               \cup {[inc |-> <<p, r>>, exc |-> <<>>] : p \in ps, r \in qs}
               \cup {[inc |-> <<>>, exc |-> <<p, r>>] : p \in ps, r \in qs}
ConfigsMC == One({Star, <<A, St>>, <<B, C, C, A, St>>, <<St, B>>})
NamesMC   == {<<A>>, <<A, C, C, B>>, <<B>>}
ConfigsQ  == One(PatsFrom(CoresQ))
ConfigsT  == One(PatsFrom(CoresT))
             \cup Two({<<A, St>>, <<St, A>>, <<B, C, C, A, St>>, Star, <<St, C, St>>},
                      {<<A, St>>, <<St, B>>, <<A, C, C, B>>, <<St, C, C, A>>, <<St, B, St>>})

-----------------------------------------------------------------------------
(* generation: every scenario is a permutation i |-> U[((i-1)*k + o) % n + 1] of the universe *)
U == SetToSeq(Lookups)
N == Len(U)
RECURSIVE GCD(_, _)
GCD(x, y) == IF y = 0 THEN x ELSE GCD(y, x % y)
Perm(k, o) == [i \in 1..N |-> U[(((i - 1) * k + o) % N) + 1]]
GenInit == /\ \E k \in Strides : GCD(k, N) = 1 /\ \E o \in {0, N \div 2} : scn = Perm(k, o)
           /\ q = [n |-> <<>>, inc |-> <<>>, exc |-> <<>>] /\ res = TRUE /\ asked = {} /\ act = "Init"
GenSpec == GenInit /\ [][FALSE /\ UNCHANGED vars]_vars
Export == PrintT(<<"SCN", ToJson(scn)>>)
View == <<q, res, asked, act>>
=============================================================================
