CONSTANTS Threshold = 3  Timeout = 300  ProbeWindow = 10  Ticks = {3, 11, 301}  MaxLen = 0
CONSTANTS ReachLen = ${ReachLen}  SufLen = ${SufLen}
SPECIFICATION GSpec
VIEW GView
INVARIANT GExport
CHECK_DEADLOCK FALSE
