------------------------------- MODULE Dispatch -------------------------------
(***************************************************************************)
(* One proxied request from arrival to the client's last byte:             *)
(*   candidates (snapshot of healthy endpoints) -> select -> engine        *)
(*   breaker -> attempt (the backend's fault plan decides how it ends) ->  *)
(*   failover or response -> statistics.                                   *)
(*                                                                         *)
(*   internal/app/handlers/handler_proxy.go       proxyHandler             *)
(*   internal/adapter/proxy/core/retry.go         ExecuteWithRetry,        *)
(*                                                markEndpointUnhealthy    *)
(*   internal/adapter/proxy/{sherpa,olla}/service_retry.go                 *)
(*                                                proxyToSingleEndpoint    *)
(*   internal/adapter/proxy/olla/service.go       circuitBreaker           *)
(*   internal/adapter/stats/collector.go          gauges and counters      *)
(*                                                                         *)
(* Properties C02 C03 C04 C05 C19 are stated at the bottom.                *)
(***************************************************************************)
EXTENDS Naturals, Sequences, FiniteSets, TLC, Json

CONSTANTS EP,           \* endpoint names
          REQ,          \* request ids (MC); traces use whatever ids they contain
          Kinds,        \* fault kinds the environment may choose (MC / GEN)
          EBThreshold,  \* engine breaker threshold (code: 5)
          Engines       \* {"sherpa", "olla"}

VARIABLES engine,       \* which proxy engine this stack runs
          status,       \* [EP -> endpoint status in the repository]
          down,         \* [EP -> BOOLEAN]  backend listener closed (connection refused)
          boom,         \* [EP -> BOOLEAN]  the next attempt on this endpoint panics inside olla (fault injection)
          models,       \* [EP -> set of model names in the endpoint's latest listing]
          ebFail, ebOpen,   \* olla engine breaker per endpoint: consecutive failures, open?
          rq,           \* [arrived request ids -> per-request record]
          gauge,        \* [EP -> Nat]  in-flight attempts (stats.Collector activeConnections)
          cnt,          \* [EP -> [ok, fail]] per-endpoint attempt counters (stats.Collector)
          scn

vars == <<engine, status, down, boom, models, ebFail, ebOpen, rq, gauge, cnt, scn>>

None == "none"
TokenLen == 11   \* bytes of one body token "[e1:1:0000]"
PreConn   == {"reset_pre"}                       \* connection-level failure, nothing delivered
PreOther  == {"close_pre", "garbage", "st099"}   \* st099: a status line net/http cannot relay ("HTTP/1.1 099 Odd")            \* nothing delivered, not classed as connection error
Post      == {"hdr_then_reset", "reset_after", "close_after"}   \* response started, then the backend died
Answered  == {"ok", "http", "http_big", "http_alt", "http_text", "http_empty"}   \* complete response (any status)
Abandoned == {"cabort"}                          \* a slow, healthy answer the CLIENT walks away from after its first token
Routable(s) == s \in {"healthy", "busy", "warming"}

Reqs == DOMAIN rq
Untried(r) == rq[r].cands \ (rq[r].tried \cup rq[r].skipped)

NewReq(cands, route) ==
    [phase |-> "choosing", cands |-> cands, tried |-> {}, skipped |-> {}, cur |-> None, att |-> 0,
     started |-> FALSE, kind |-> None, pst |-> 0, pn |-> 0, pk |-> 0, pb |-> 0, sig |-> None, route |-> route,
     last |-> None]

Init == /\ engine \in Engines
        /\ status = [e \in EP |-> "healthy"]
        /\ down = [e \in EP |-> FALSE]
        /\ boom = [e \in EP |-> FALSE]
        /\ models = [e \in EP |-> {"m1"}]
        /\ ebFail = [e \in EP |-> 0] /\ ebOpen = [e \in EP |-> FALSE]
        /\ rq = <<>>
        /\ gauge = [e \in EP |-> 0]
        /\ cnt = [e \in EP |-> [ok |-> 0, fail |-> 0]]
        /\ scn = <<>>

-----------------------------------------------------------------------------
(* Environment *)
SetDown(e, d) == /\ down' = [down EXCEPT ![e] = d] /\ down[e] # d
                 /\ UNCHANGED <<engine, status, boom, models, ebFail, ebOpen, rq, gauge, cnt>>
\* a health round stored status s for e (see HealthSched for how s is derived)
HealthStore(e, s) == /\ status' = [status EXCEPT ![e] = s]
                     /\ UNCHANGED <<engine, down, boom, models, ebFail, ebOpen, rq, gauge, cnt>>

(* Olla *)
\* the request arrives: candidate snapshot = endpoints whose stored status is exactly healthy and
\* whose latest listing contains the requested model (strict routing, the assembled server's mode)
Arrive(r, route, model) ==
    /\ r \notin Reqs
    /\ rq' = (r :> NewReq({e \in EP : status[e] = "healthy" /\ model \in models[e]}, route)) @@ rq
    /\ UNCHANGED <<engine, status, down, boom, models, ebFail, ebOpen, gauge, cnt>>

EBRecord(e, ok) ==
    IF engine # "olla" THEN UNCHANGED <<ebFail, ebOpen>>
    ELSE IF ok THEN ebFail' = [ebFail EXCEPT ![e] = 0] /\ ebOpen' = [ebOpen EXCEPT ![e] = FALSE]
    ELSE /\ ebFail' = [ebFail EXCEPT ![e] = IF @ < EBThreshold THEN @ + 1 ELSE @]
         /\ ebOpen' = [ebOpen EXCEPT ![e] = ebOpen[e] \/ ebFail[e] + 1 >= EBThreshold]

\* an attempt reaches backend e; the backend's plan (kind, status, n tokens, k before the fault) and the
\* signature of the request it received are part of the step
AttemptStart(r, e, kind, pst, pn, pk, pb, sig) ==
    /\ r \in Reqs /\ rq[r].phase = "choosing"
    /\ e \in Untried(r)                         \* C03: member of the candidate set; C04: at most once
    /\ ~rq[r].started                           \* C02: never re-dispatch once anything was delivered
    /\ ~down[e]
    /\ ~(engine = "olla" /\ ebOpen[e])
    /\ rq[r].sig \in {None, sig}                \* C04: the same request on every attempt
    /\ rq' = [rq EXCEPT ![r] = [@ EXCEPT !.phase = "attempting", !.tried = @ \cup {e}, !.cur = e,
                                         !.att = @ + 1, !.kind = kind, !.pst = pst, !.pn = pn, !.pk = pk, !.pb = pb,
                                         !.sig = sig]]
    /\ gauge' = [gauge EXCEPT ![e] = @ + 1]
    /\ UNCHANGED <<engine, status, down, boom, models, ebFail, ebOpen, cnt>>

\* how the attempt ends is decided by the plan
AttemptEnd(r) ==
    /\ r \in Reqs /\ rq[r].phase = "attempting"
    /\ LET e == rq[r].cur  k == rq[r].kind IN
       /\ gauge' = [gauge EXCEPT ![e] = @ - 1]
       /\ CASE k \in Answered ->
                 /\ rq' = [rq EXCEPT ![r] = [@ EXCEPT !.phase = "responded", !.started = TRUE]]
                 /\ EBRecord(e, TRUE) /\ UNCHANGED status
                 \* C19: a success is a response the client received in full with a success status; an error
                 \* status the client saw is never recorded as a success
                 /\ cnt' = IF rq[r].pst < 400 THEN [cnt EXCEPT ![e].ok = @ + 1] ELSE [cnt EXCEPT ![e].fail = @ + 1]
            [] k \in Post ->
                 /\ rq' = [rq EXCEPT ![r] = [@ EXCEPT !.phase = "truncated", !.started = TRUE]]
                 /\ EBRecord(e, TRUE) /\ UNCHANGED status
                 /\ cnt' = [cnt EXCEPT ![e].fail = @ + 1]
            [] k \in Abandoned ->
                 \* C19 "whatever mix of ... client aborts": the attempt is booked exactly once, and -- the client did not
                 \* receive the response in full -- not as a success.  Nothing is said about the engine breaker.
                 /\ rq' = [rq EXCEPT ![r] = [@ EXCEPT !.phase = "aborted", !.started = TRUE]]
                 /\ (EBRecord(e, TRUE) \/ EBRecord(e, FALSE)) /\ UNCHANGED status
                 /\ cnt' = [cnt EXCEPT ![e].fail = @ + 1]
            [] k \in PreConn ->
                 /\ rq' = [rq EXCEPT ![r] = [@ EXCEPT !.phase = "choosing", !.last = "preconn"]]
                 /\ status' = [status EXCEPT ![e] = "offline"]      \* C04: out of rotation
                 /\ EBRecord(e, FALSE)
                 /\ cnt' = [cnt EXCEPT ![e].fail = @ + 1]
            [] k \in PreOther ->       \* explored class: olla may fail over or give up, nothing else
                 /\ \/ rq' = [rq EXCEPT ![r] = [@ EXCEPT !.phase = "choosing", !.last = "preother"]]
                       /\ status' = [status EXCEPT ![e] = "offline"]
                    \/ rq' = [rq EXCEPT ![r] = [@ EXCEPT !.phase = "failed", !.last = "preother"]]
                       /\ UNCHANGED status
                 /\ EBRecord(e, FALSE)
                 /\ cnt' = [cnt EXCEPT ![e].fail = @ + 1]
    /\ UNCHANGED <<engine, down, boom, models>>

\* an attempt on an endpoint whose listener is closed: connection refused, the backend sees nothing
Refused(r, e) ==
    /\ r \in Reqs /\ rq[r].phase = "choosing" /\ e \in Untried(r) /\ ~rq[r].started
    /\ down[e] /\ ~(engine = "olla" /\ ebOpen[e])
    /\ rq' = [rq EXCEPT ![r] = [@ EXCEPT !.tried = @ \cup {e}, !.last = "preconn"]]
    /\ status' = [status EXCEPT ![e] = "offline"]
    /\ EBRecord(e, FALSE)
    /\ cnt' = [cnt EXCEPT ![e].fail = @ + 1]
    /\ UNCHANGED <<engine, down, boom, models, gauge>>

SetBoom(e, b) == /\ boom' = [boom EXCEPT ![e] = b]
                 /\ UNCHANGED <<engine, status, down, models, ebFail, ebOpen, rq, gauge, cnt>>
\* the attempt panics inside olla after it was counted in the gauge: the gauge must come back (C19: "whatever
\* mix of ... panics"), the attempt is recorded, and the request is over (the server drops the connection)
AttemptPanics(r, e) ==
    /\ r \in Reqs /\ rq[r].phase = "choosing" /\ e \in Untried(r) /\ ~rq[r].started
    /\ boom[e] /\ ~down[e] /\ ~(engine = "olla" /\ ebOpen[e])
    /\ rq' = [rq EXCEPT ![r] = [@ EXCEPT !.tried = @ \cup {e}, !.phase = "crashed", !.last = "panic"]]
    /\ cnt' = [cnt EXCEPT ![e].fail = @ + 1]
    /\ UNCHANGED <<engine, status, down, boom, models, ebFail, ebOpen, gauge>>

\* olla engine: the endpoint's circuit is open -> skipped, the request goes on (C04)
BreakerSkip(r, e) ==
    /\ engine = "olla" /\ r \in Reqs /\ rq[r].phase = "choosing" /\ e \in Untried(r) /\ ebOpen[e]
    /\ rq' = [rq EXCEPT ![r] = [@ EXCEPT !.skipped = @ \cup {e}]]
    \* the engine books the refused dispatch as a failed request on that endpoint (allowed: the
    \* properties only fix how ATTEMPTS are counted)
    /\ cnt' = [cnt EXCEPT ![e].fail = @ + 1]
    /\ UNCHANGED <<engine, status, down, boom, models, ebFail, ebOpen, gauge>>

\* the request fails only when every candidate has been tried or skipped (C04)
GiveUp(r) ==
    /\ r \in Reqs /\ rq[r].phase = "choosing" /\ Untried(r) = {}
    /\ rq' = [rq EXCEPT ![r] = [@ EXCEPT !.phase = "failed"]]
    /\ UNCHANGED <<engine, status, down, boom, models, ebFail, ebOpen, gauge, cnt>>

(* What the client must see, as a function of the request's final state *)
RespKind(r) == CASE rq[r].phase = "responded" -> "full"
                 [] rq[r].phase = "truncated" -> "partial"
                 [] rq[r].phase = "failed"    -> "error"
                 [] rq[r].phase = "crashed"   -> "crash"
                 [] rq[r].phase = "aborted"   -> "aborted"
                 [] OTHER -> None
\* the client has read its response; v is the logged view [st, from, e, a, n, complete, junk, bodyClass]
Translated(route) == route \in {"anthropic", "anthropic_stream"}
PromptMs == 3000       \* C05: a failure is reported without waiting for any configured timeout
ClientDone(r, v) ==
    /\ r \in Reqs /\ RespKind(r) # None
    /\ LET q == rq[r] IN
       CASE RespKind(r) = "full" /\ ~Translated(q.route) ->
               /\ v.from /\ v.e = q.cur /\ v.a = q.att      \* C02: headers and every byte from ONE attempt
               /\ v.st = q.pst /\ v.complete /\ v.n = q.pn /\ v.junk = q.pb /\ v.mixed = FALSE
               \* ... including a header that attempt sent on two lines: both values, in order, nothing else
               /\ v.hmAll = 2 /\ v.hmOwn = 2
         [] RespKind(r) = "full" /\ Translated(q.route) ->
               \* the body is a translation (C13 judges its content); C05: the backend's status survives,
               \* and an error answer is an Anthropic error object
               /\ v.st = q.pst /\ v.bodyClass # "empty"
         [] RespKind(r) = "partial" /\ ~Translated(q.route) ->
               /\ v.from /\ v.e = q.cur /\ v.a = q.att
               \* a prefix of that attempt's body; whether the truncation is visible in the framing is not
               \* something the properties state, so v.complete is left free
               /\ v.st = q.pst /\ v.n <= q.pk /\ v.mixed = FALSE
               /\ v.junk < TokenLen      \* at most a torn token; never text of olla's own making
               /\ v.hmAll = 2 /\ v.hmOwn = 2
         \* a translated answer whose backend died on the way is not dressed up as a finished message (C05: never a
         \* fabricated completion): no message_stop / stop_reason of olla's own making
         [] RespKind(r) = "partial" /\ Translated(q.route) -> ("fin" \in DOMAIN v => ~v.fin)
         \* the client walked away: whatever it had read by then came from that one attempt
         [] RespKind(r) = "aborted" -> (v.from => (v.e = q.cur /\ v.a = q.att /\ v.n <= q.pn)) /\ v.mixed = FALSE
         [] RespKind(r) = "crash" -> ~v.from /\ (v.st = 0 \/ v.st >= 500) /\ v.n = 0
         [] RespKind(r) = "error" ->                       \* C05: a failure is reported as a failure
               /\ ~v.from /\ v.st >= 400 /\ v.n = 0 /\ v.bodyClass # "empty"
               /\ (Translated(q.route) => v.bodyClass = "anthropic_error")
               /\ v.ms < PromptMs
    /\ rq' = [rq EXCEPT ![r] = [@ EXCEPT !.phase = "done", !.last = RespKind(r)]]
    /\ UNCHANGED <<engine, status, down, boom, models, ebFail, ebOpen, gauge, cnt>>

-----------------------------------------------------------------------------
(* MC: the environment picks kinds; the client view is the one the spec itself prescribes *)
SpecView(r) == LET q == rq[r] IN
    CASE RespKind(r) = "full"    -> [from |-> TRUE, e |-> q.cur, a |-> q.att, st |-> q.pst, complete |-> TRUE,
                                     n |-> q.pn, junk |-> q.pb, mixed |-> FALSE, bodyClass |-> "tokens", ms |-> 1, hmAll |-> 2, hmOwn |-> 2]
      [] RespKind(r) = "partial" -> [from |-> TRUE, e |-> q.cur, a |-> q.att, st |-> q.pst, complete |-> FALSE,
                                     n |-> q.pk, junk |-> 0, mixed |-> FALSE, bodyClass |-> "tokens", ms |-> 1, hmAll |-> 2, hmOwn |-> 2]
      [] RespKind(r) = "aborted" -> [from |-> TRUE, e |-> q.cur, a |-> q.att, st |-> q.pst, complete |-> FALSE,
                                     n |-> 1, junk |-> 0, mixed |-> FALSE, bodyClass |-> "tokens", ms |-> 1, hmAll |-> 2, hmOwn |-> 2]
      [] RespKind(r) = "crash"   -> [from |-> FALSE, e |-> None, a |-> 0, st |-> 0, complete |-> FALSE,
                                     n |-> 0, junk |-> 0, mixed |-> FALSE, ms |-> 1, bodyClass |-> "empty", hmAll |-> 0, hmOwn |-> 0]
      [] OTHER                   -> [from |-> FALSE, e |-> None, a |-> 0, st |-> 502, complete |-> TRUE,
                                     n |-> 0, junk |-> 1, mixed |-> FALSE, ms |-> 1,
                                     bodyClass |-> IF Translated(q.route) THEN "anthropic_error" ELSE "text", hmAll |-> 0, hmOwn |-> 0]
Next ==
    \/ \E e \in EP : \E d \in BOOLEAN : SetDown(e, d) /\ scn' = Append(scn, <<"SetDown", e, d>>)
    \/ \E e \in EP : HealthStore(e, IF down[e] THEN "offline" ELSE "healthy") /\ status[e] # (IF down[e] THEN "offline" ELSE "healthy")
                     /\ scn' = Append(scn, <<"Health", e>>)
    \/ \E r \in REQ : Arrive(r, "proxy", "m1") /\ scn' = Append(scn, <<"Arrive", r>>)
    \/ \E r \in Reqs : \E e \in EP : \E k \in Kinds :
           AttemptStart(r, e, k, IF k = "http" THEN 500 ELSE 200, IF k = "http" THEN 0 ELSE 3, 1, IF k = "http" THEN 7 ELSE 0, "s") /\ scn' = Append(scn, <<"Plan", r, e, k>>)
    \/ \E r \in Reqs : AttemptEnd(r) /\ UNCHANGED scn
    \/ \E r \in Reqs : \E e \in EP : Refused(r, e) /\ UNCHANGED scn
    \/ \E r \in Reqs : \E e \in EP : BreakerSkip(r, e) /\ UNCHANGED scn
    \/ \E r \in Reqs : GiveUp(r) /\ UNCHANGED scn
    \/ \E e \in EP : SetBoom(e, TRUE) /\ ~boom[e] /\ scn' = Append(scn, <<"Boom", e>>)
    \/ \E r \in Reqs : \E e \in EP : AttemptPanics(r, e) /\ UNCHANGED scn
    \/ \E r \in Reqs : RespKind(r) # None /\ ClientDone(r, SpecView(r)) /\ UNCHANGED scn
Spec == Init /\ [][Next]_vars

-----------------------------------------------------------------------------
(* Properties *)
InFlight(e) == {r \in Reqs : rq[r].phase = "attempting" /\ rq[r].cur = e}
\* C19: the gauge equals the number of attempts in flight, hence never negative and zero at rest
GaugeExact == \A e \in EP : gauge[e] = Cardinality(InFlight(e))
\* C04: each candidate at most once; C03: only members of the snapshot
AtMostOnce == \A r \in Reqs : rq[r].tried \subseteq rq[r].cands /\ rq[r].skipped \subseteq rq[r].cands
                               /\ rq[r].tried \cap rq[r].skipped = {}
\* C04: a request that failed without a response had every candidate tried or skipped, unless its last
\*      attempt ended in the explored (not connection-class) way
FailOnlyWhenExhausted == \A r \in Reqs : rq[r].phase = "failed" =>
                            (Untried(r) = {} \/ rq[r].last = "preother")
\* C02: once started, no attempt is ever started again for that request
NoRedispatch == [][\A r \in Reqs \cap DOMAIN rq' : rq[r].started => (rq'[r].att = rq[r].att)]_vars
\* C04: an endpoint that failed at connection level is not a candidate of later requests until readmitted
OutOfRotation == [][\A r \in DOMAIN rq' \ Reqs : \A e \in rq'[r].cands : status[e] = "healthy"]_vars
\* C19: every attempt recorded exactly once per endpoint
Conserved == \A e \in EP :
    cnt[e].ok + cnt[e].fail + Cardinality(InFlight(e)) =
        Cardinality({r \in Reqs : e \in rq[r].tried}) + Cardinality({r \in Reqs : e \in rq[r].skipped})
TypeOK == /\ \A e \in EP : gauge[e] \in Nat /\ ebFail[e] \in 0..EBThreshold
          /\ \A r \in Reqs : rq[r].phase \in {"choosing", "attempting", "responded", "truncated", "aborted", "failed", "crashed", "done"}

MCConstraint == Len(scn) <= 9
View == <<engine, status, down, boom, models, ebFail, ebOpen, rq, gauge, cnt>>
=============================================================================
