CONSTANTS MCBurst = 2  MCHorizon = 5
SPECIFICATION MCSpec
INVARIANT MCWindow
CHECK_DEADLOCK FALSE
