---------------------------- MODULE BucketProof ----------------------------
(***************************************************************************)
(* The token bucket of Admission.tla (one token per tick, capacity Burst)  *)
(* without any bound on time or on the number of admissions: the window    *)
(* bound  #admitted in [a_i, a_j] <= Burst + (a_j - a_i)  is an invariant. *)
(* Proved with TLAPS (unbounded), where TLC checks Admission_mc.cfg only   *)
(* up to MCHorizon.                                                        *)
(***************************************************************************)
EXTENDS Integers, Sequences, TLAPS

CONSTANT Burst
ASSUME BurstPos == Burst \in Nat /\ Burst >= 1

VARIABLES now, tokens, admitted
vars == <<now, tokens, admitted>>

Init == now = 0 /\ tokens = Burst /\ admitted = <<>>
Tick == /\ now' = now + 1
        /\ tokens' = IF tokens < Burst THEN tokens + 1 ELSE tokens
        /\ UNCHANGED admitted
Admit == /\ tokens > 0 /\ tokens' = tokens - 1
         /\ admitted' = Append(admitted, now)
         /\ UNCHANGED now
Next == Tick \/ Admit
Spec == Init /\ [][Next]_vars

Window == \A i, j \in 1..Len(admitted) : i <= j => (j - i + 1) <= Burst + (admitted[j] - admitted[i])

TypeOK == now \in Nat /\ tokens \in 0..Burst /\ admitted \in Seq(Nat)
\* what is left in the bucket plus everything admitted from i on fits into the burst plus the time since a_i
Frontier == \A i \in 1..Len(admitted) :
               /\ admitted[i] <= now
               /\ (Len(admitted) - i + 1) + tokens <= Burst + (now - admitted[i])
Inv == TypeOK /\ Frontier /\ Window

LEMMA InitInv == Init => Inv
  BY BurstPos DEF Init, Inv, TypeOK, Frontier, Window

LEMMA TickInv == Inv /\ Tick => Inv'
  BY BurstPos DEF Inv, TypeOK, Frontier, Window, Tick

LEMMA AdmitInv == Inv /\ Admit => Inv'
<1> SUFFICES ASSUME Inv, Admit PROVE Inv'
  OBVIOUS
<1>1. TypeOK'
  BY BurstPos DEF Inv, TypeOK, Admit
<1>2. Len(admitted') = Len(admitted) + 1 /\ admitted'[Len(admitted) + 1] = now
      /\ \A i \in 1..Len(admitted) : admitted'[i] = admitted[i]
  BY DEF Inv, TypeOK, Admit
<1>3. Frontier'
  BY <1>2, BurstPos DEF Inv, TypeOK, Frontier, Admit
<1>4. Window'
  BY <1>2, BurstPos DEF Inv, TypeOK, Frontier, Window, Admit
<1> QED BY <1>1, <1>3, <1>4 DEF Inv

THEOREM Safety == Spec => []Window
<1>1. Inv /\ UNCHANGED vars => Inv'
  BY DEF Inv, TypeOK, Frontier, Window, vars
<1>2. Inv /\ [Next]_vars => Inv'
  BY <1>1, TickInv, AdmitInv DEF Next
<1>3. Inv => Window
  BY DEF Inv
<1> QED BY InitInv, <1>2, <1>3, PTL DEF Spec
=============================================================================
