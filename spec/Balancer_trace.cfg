CONSTANTS MaxN = 4  Statuses = {"healthy", "busy", "warming", "offline", "unhealthy", "unknown"}  Prios = {0, 1, 2}  MaxGauge = 2  FairK = 1500  HistLen = 0
CONSTANT KnownDeviations = ${KnownDeviations}
SPECIFICATION TraceSpec
CONSTRAINT HW
INVARIANTS MemberOrError ErrorIffNone PrioTop LCMin
POSTCONDITION Accepted
CHECK_DEADLOCK FALSE
