CONSTANTS Names <- ${Names}  Configs <- ${Configs}  Strides = ${Strides}  MaxLen = 0
SPECIFICATION GenSpec
INVARIANT Export
CHECK_DEADLOCK FALSE
