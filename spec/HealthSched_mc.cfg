CONSTANTS CIs = {1, 5, 20}  Outcomes = {"ok", "http4xx", "http5xx", "refuse", "timeout"}  Ticks = {1, 5, 30, 61}
          MaxBackoff = 60  MaxMult = 12  CapCF = 7  CapCB = 1000
SPECIFICATION Spec
VIEW View
INVARIANTS TypeOK Schedule
PROPERTIES Classification HealthyMeansProbedOK DueRoundIsReal SyntheticIsQuiet RecoveryCallback
CHECK_DEADLOCK FALSE
