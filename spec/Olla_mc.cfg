CONSTANTS EP = {"e1", "e2"}  Models = {"ma"}  Ask = {"ma", "mz"}  Kinds = {"ollama", "sglang"}
          Routes = {"proxy", "ollama", "anthropic"}  Ops = {"up", "relist", "health", "req", "list"}  MaxLen = 0
SPECIFICATION Spec
VIEW View
INVARIANTS TypeOK ServedByCandidate CandsSound RefusedIsOut NeverListedNeverServed TopTierFirst OpenIsOut
CHECK_DEADLOCK FALSE
