CONSTANTS Names <- ${Names}  Configs <- ${Configs}  Strides = {1}  MaxLen = 0
SPECIFICATION Spec
INVARIANTS ValidUniverse CaseFree
CHECK_DEADLOCK FALSE
