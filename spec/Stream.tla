------------------------------- MODULE Stream -------------------------------
(***************************************************************************)
(* Streaming through the proxy engines: live flow, whole delivery, stall   *)
(* cut-off by the read timeout, tolerated pauses, cancellation.            *)
(*   internal/adapter/proxy/sherpa/service_streaming.go                    *)
(*   internal/adapter/proxy/olla/service.go streamResponse,                *)
(*       streaming_helpers.go; internal/adapter/proxy/core/streaming.go    *)
(* Timed model in abstract ticks: the backend produces chunks, pauses or   *)
(* stalls; the proxy forwards each chunk and restarts its read timer; when *)
(* the timer exceeds RT it cuts the stream.                                *)
(***************************************************************************)
EXTENDS Naturals, Sequences, FiniteSets, TLC, Json

CONSTANTS RT,        \* read timeout in ticks (MC) / ms (trace)
          N,         \* chunks the backend wants to send (MC)
          MaxGap     \* MC: longest pause the environment tries

VARIABLES sent,      \* chunks written by the backend
          seen,      \* chunks visible to the client
          idle,      \* time since the proxy last read a chunk
          state,     \* "flowing" | "stalled" | "cut" | "complete"
          maxIdle,   \* ghost: longest idle period that was NOT cut
          scn
vars == <<sent, seen, idle, state, maxIdle, scn>>

Init == sent = 0 /\ seen = 0 /\ idle = 0 /\ state = "flowing" /\ maxIdle = 0 /\ scn = <<>>

\* backend writes the next chunk (after a pause of `idle` ticks)
Produce == /\ state = "flowing" /\ sent < N /\ sent = seen      \* causally gated: one chunk at a time
           /\ sent' = sent + 1 /\ UNCHANGED <<seen, idle, state, maxIdle, scn>>
\* proxy forwards it at once (live flow) and restarts its timer
Forward == /\ state = "flowing" /\ seen < sent
           /\ seen' = seen + 1
           /\ maxIdle' = IF idle > maxIdle THEN idle ELSE maxIdle
           /\ idle' = 0
           /\ state' = IF seen + 1 = N THEN "complete" ELSE state
           /\ UNCHANGED <<sent, scn>>
\* time passes while nothing arrives; the proxy cuts exactly when the timer exceeds RT
Tick == /\ state \in {"flowing", "stalled"} /\ seen = sent /\ idle <= RT
        /\ idle' = idle + 1
        /\ state' = IF idle + 1 > RT THEN "cut" ELSE state
        /\ UNCHANGED <<sent, seen, maxIdle, scn>>
Stall == state = "flowing" /\ seen = sent /\ state' = "stalled" /\ UNCHANGED <<sent, seen, idle, maxIdle, scn>>
Next == Produce \/ Forward \/ Tick \/ Stall
Spec == Init /\ [][Next]_vars /\ WF_vars(Tick) /\ WF_vars(Forward)

\* a chunk is visible before the backend has to send the next one
LiveFlow == sent - seen <= 1
\* a pause shorter than the timeout is never cut; a cut only after more than RT of silence
NoEarlyCut == state = "cut" => idle > RT
PausesTolerated == maxIdle <= RT
\* a stalled stream ends (liveness): stalled ~> cut
StallEnds == (state = "stalled") ~> (state = "cut")
MCConstraint == idle <= RT + 1

-----------------------------------------------------------------------------
(* Trace-level obligations on what the harness measured for one scenario (times in ms).              *)
(* streamed = the documented detection rule says this response is streamed                          *)
Streamed(profile, ct) == profile = "streaming" \/ (profile = "auto" /\ ct \in {"text/event-stream", "application/x-ndjson", "text/plain"})
Slack == 3000
FlowOK(e)  == /\ (Streamed(e.profile, e.ct) => (~e.stuck /\ e.seen = e.n))       \* gated backend completed
              /\ (e.complete => e.whole)                                         \* delivered whole, byte-identical
\* cut within RT + slack; before the response head it is the response timeout that governs
StallOK(e) == e.ended /\ e.ms <= (IF e.at = "prehdr" THEN e.rsp ELSE e.rt) + Slack
PauseOK(e) == (e.gap < e.rt) => (e.complete /\ e.whole)                          \* a short pause is not cut
AbortOK(e) == e.upstreamClosed /\ e.ms <= Slack                                  \* cancellation propagates
LeakOK(e)  == e.after - e.before < e.reps                                        \* no linear growth
=============================================================================
