CONSTANTS
  Alphabet = {"a", "b", "", ".", "..", "%2e%2e", "%2E.", "..%2f", "%2f", "a;p", "%252e%252e"}
  Plain = {"a", "b"}
  MaxLen = 0
  BaseIds = {"none", "root", "base", "nested", "bquery", "nquery"}
  Preserves = {TRUE, FALSE}
  Rels = {"slash", "noslash"}
  Prefixes = {"/olla/proxy/", "/olla/openai/"}
  Forms = {"origin", "absolute", "netpath"}
  Queries = {""}
  Engines = {"olla", "sherpa"}
  Kinds = {"cfg", "req"}
CONSTANT KnownDeviations = ${KnownDeviations}
SPECIFICATION TraceSpec
CONSTRAINT HW
INVARIANTS Inv_C16a Inv_C16b Inv_C16c Inv_C16d Inv_C16e Inv_Aux
POSTCONDITION Accepted
CHECK_DEADLOCK FALSE
