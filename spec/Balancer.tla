------------------------------- MODULE Balancer -------------------------------
(***************************************************************************)
(* The three endpoint selectors of internal/adapter/balancer               *)
(*   priority.go, round_robin.go, least_connections.go                     *)
(* together with the in-flight gauge they read (stats.Collector).          *)
(*                                                                         *)
(* L is the list handed to Select: a sequence of [st, pr]; results are     *)
(* 1-based indices into L, 0 = error.  rr is the round-robin ticket        *)
(* counter, gauge[i] the in-flight count of L[i].                          *)
(***************************************************************************)
EXTENDS Naturals, Sequences, FiniteSets, TLC, Json

CONSTANTS MaxN,       \* max list length explored
          Statuses,   \* all endpoint statuses
          Prios,      \* priorities explored
          MaxGauge,   \* gauges explored 0..MaxGauge
          FairK,      \* selections after which every top-tier member must have been seen
          HistLen     \* MC only: length of the round-robin history window

VARIABLES L, gauge, rr,
          res,        \* result of the last selection (index, 0 = error)
          act,        \* last action
          hist,       \* ghost: round-robin results since the list was set
          scn

vars == <<L, gauge, rr, res, act, hist, scn>>

Routable(s) == s \in {"healthy", "busy", "warming"}
Idx      == 1..Len(L)
RIdx     == {i \in Idx : Routable(L[i].st)}
\* routable indices in list order
RSeq     == SelectSeq([i \in Idx |-> i], LAMBDA i : Routable(L[i].st))
MaxOf(S) == CHOOSE x \in S : \A y \in S : y <= x
TopPrio  == MaxOf({L[i].pr : i \in RIdx})
TopTier  == IF RIdx = {} THEN {} ELSE {i \in RIdx : L[i].pr = TopPrio}
MinG     == {i \in RIdx : \A j \in RIdx : gauge[i] <= gauge[j]}

Lists == UNION {[1..n -> [st : Statuses, pr : Prios]] : n \in 1..MaxN}

Init == /\ L \in Lists
        /\ gauge \in [1..Len(L) -> 0..MaxGauge]
        /\ rr = 0 /\ res = 0 /\ act = "Init" /\ hist = <<>>
        /\ scn = <<L, gauge>>

SelPrio == /\ act' = "SelPrio"
           /\ IF RIdx = {} THEN res' = 0 ELSE res' \in TopTier
           /\ UNCHANGED <<L, gauge, rr, hist, scn>>

SelRR == /\ act' = "SelRR"
         /\ IF RIdx = {} THEN res' = 0 /\ UNCHANGED <<rr, hist>>
            ELSE /\ res' = RSeq[(rr % Len(RSeq)) + 1]
                 /\ rr' = rr + 1
                 /\ hist' = Append(hist, res')
         /\ UNCHANGED <<L, gauge, scn>>

SelLC == /\ act' = "SelLC"
         /\ IF RIdx = {} THEN res' = 0 ELSE res' \in MinG
         /\ UNCHANGED <<L, gauge, rr, hist, scn>>

Inc(i) == /\ act' = "Inc" /\ i \in Idx
          /\ gauge' = [gauge EXCEPT ![i] = @ + 1]
          /\ UNCHANGED <<L, rr, res, hist, scn>>
Dec(i) == /\ act' = "Dec" /\ i \in Idx
          /\ gauge' = [gauge EXCEPT ![i] = IF @ = 0 THEN 0 ELSE @ - 1]
          /\ UNCHANGED <<L, rr, res, hist, scn>>

\* k priority selections seen as one step: S is the set of indices picked
PrioBatch(k, S) ==
    /\ act' = "PrioBatch"
    /\ S \subseteq TopTier
    /\ (k > 0 /\ RIdx # {}) => S # {}
    /\ k >= FairK => S = TopTier
    /\ UNCHANGED <<L, gauge, rr, res, hist, scn>>

\* T round-robin selections (possibly concurrent) seen as one step: cnt[i] = how often L[i] was returned
RRCount(i, T) == IF i \in RIdx
                 THEN Cardinality({t \in rr..(rr + T - 1) : T > 0 /\ RSeq[(t % Len(RSeq)) + 1] = i})
                 ELSE 0
RRBatch(T, cnt) ==
    /\ act' = "RRBatch"
    /\ RIdx # {}
    /\ \A i \in Idx : cnt[i] = RRCount(i, T)
    /\ rr' = rr + T
    /\ UNCHANGED <<L, gauge, res, hist, scn>>

\* least-connections selections racing with gauge updates: during the window gauge[i] stayed
\* within lo[i]..hi[i]; every result r must satisfy lo[r] <= hi[j] for all routable j
LCWindow(lo, hi, results) ==
    /\ act' = "LCWindow"
    /\ \A r \in results : r \in RIdx /\ \A j \in RIdx : lo[r] <= hi[j]
    /\ UNCHANGED <<L, gauge, rr, res, hist, scn>>

Next == SelPrio \/ SelRR \/ SelLC \/ (\E i \in Idx : Inc(i) \/ Dec(i))
Spec == Init /\ [][Next]_vars

-----------------------------------------------------------------------------
(* Property C06 (and the balancer clause of C03) *)

\* every selector returns a routable member of the list it was given, or an error
MemberOrError == res = 0 \/ res \in RIdx
ErrorIffNone  == act \in {"SelPrio", "SelRR", "SelLC"} => (res = 0 <=> RIdx = {})
\* priority: always from the highest-priority tier that has a routable member
PrioTop == act = "SelPrio" /\ res # 0 => \A j \in RIdx : L[res].pr >= L[j].pr
\* least-connections: minimal gauge at the moment of selection
LCMin   == act = "SelLC" /\ res # 0 => \A j \in RIdx : gauge[res] <= gauge[j]
\* round-robin: any n*k consecutive selections over a stable list give each endpoint exactly k
Count(s, x) == Cardinality({p \in 1..Len(s) : s[p] = x})
RRFair == LET n == Cardinality(RIdx) IN
          \A a \in 1..Len(hist) : \A k \in 1..2 :
              (a + n * k - 1 <= Len(hist)) =>
                  \A i \in RIdx : Count(SubSeq(hist, a, a + n * k - 1), i) = k
\* the batch form used for concurrent traces is a theorem of the ticket rule
RRBatchOK == \A T \in 0..(2 * MaxN) : \A i \in RIdx :
                 (T % Cardinality(RIdx) = 0) => RRCount(i, T) = T \div Cardinality(RIdx)

MCConstraint == Len(hist) <= HistLen /\ \A i \in Idx : gauge[i] <= MaxGauge + 1
View == <<L, gauge, rr % 12, res, act, hist>>
Export == act = "Init" => PrintT(<<"SCN", ToJson(scn)>>)
GenNext == FALSE /\ UNCHANGED vars
GenSpec == Init /\ [][GenNext]_vars
=============================================================================
