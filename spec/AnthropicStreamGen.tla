------------------------- MODULE AnthropicStreamGen -------------------------
(***************************************************************************)
(* Scenario generator for AnthropicStream: TLC enumerates the INPUT side   *)
(* of property C13 -- which completion the backend produces and how its    *)
(* OpenAI SSE rendering reaches the translator.  One initial state = one   *)
(* scenario; harness/anthropic/stream_test.go turns it into bytes.         *)
(*                                                                         *)
(*   shape   the completion: sequence over T (text item) / U (tool call)   *)
(*   cls     content class of every item: ascii | uni (multi-byte runes,   *)
(*           quotes, backslashes, newlines) | empty | big (> 64 KiB line)  *)
(*   nf      number of OpenAI deltas each item's text / arguments is cut   *)
(*           into (tool-call fragments contiguous per call)                *)
(*   hdr     sep: id+name chunk with empty arguments, then the fragments   *)
(*           joined: id+name travel with the first fragment                *)
(*   fin     finish_reason, none = the backend never sends one             *)
(*   finpos  own: finish_reason in a chunk of its own (empty delta)        *)
(*           last: on the chunk that carries the last content              *)
(*   usage   none | fin (on the finish chunk) | own (extra chunk, empty    *)
(*           delta) | nochoices (extra chunk with "choices": [])           *)
(*   chunk   how the byte stream is cut into reads: all | event | line |   *)
(*           byte | n7 | n64 | n1000                                       *)
(*   noise   legal SSE that is not a completion chunk: comment lines,      *)
(*           CRLF line ends, a leading empty-choices chunk, no [DONE]      *)
(*   both    the first chunk of a tool call also carries the last piece of *)
(*           the preceding text (delta with content AND tool_calls)        *)
(*   mal     an injected malformed line (kind) at data-line position malpos*)
(*   arb     fragments of different tool calls arbitrarily interleaved     *)
(* strict = the input is a well-formed completion, so every clause of C13  *)
(* applies; otherwise (mal / arb) only "never crashes or hangs" does.      *)
(***************************************************************************)
EXTENDS Naturals, Sequences, FiniteSets, TLC, Json

CONSTANTS MinItems, MaxItems, Classes, NFs, Hdrs, Fins, FinPoss, Usages, Chunks, Noises,
          Boths, Mals, MalPoss, Arbs

VARIABLE s

Shapes == UNION {[1..n -> {"T", "U"}] : n \in MinItems..MaxItems}
HasU(sh)  == \E j \in 1..Len(sh) : sh[j] = "U"
NTools(sh) == Cardinality({j \in 1..Len(sh) : sh[j] = "U"})
HasTU(sh) == \E j \in 1..Len(sh) : j < Len(sh) /\ sh[j] = "T" /\ sh[j + 1] = "U"
Min1(S) == CHOOSE x \in S : \A y \in S : x <= y

\* drop combinations that would only repeat another scenario
Valid(x) ==
    /\ (x.both => HasTU(x.shape) /\ x.cls # "empty")
    /\ (x.arb => NTools(x.shape) >= 2 /\ x.nf >= 2)
    /\ (x.mal = "none" => x.malpos = Min1(MalPoss))
    /\ (x.finpos = "last" => x.fin # "none" /\ Len(x.shape) > 0)
    /\ (x.fin = "none" => x.finpos = "own")
    /\ (x.usage \in {"fin", "running"} => x.fin # "none")
    /\ (~HasU(x.shape) => x.hdr = "sep")
    /\ (x.cls = "big" => Len(x.shape) <= 2 /\ x.nf = 1)
    /\ (x.cls = "empty" => x.nf = 1)
    /\ (Len(x.shape) = 0 => x.nf = 1 /\ x.cls = "ascii")

Space == [shape : Shapes, cls : Classes, nf : NFs, hdr : Hdrs, fin : Fins, finpos : FinPoss,
          usage : Usages, chunk : Chunks, noise : Noises, both : Boths, mal : Mals,
          malpos : MalPoss, arb : Arbs]

Strict(x) == x.mal = "none" /\ ~x.arb

Init == s \in {x \in Space : Valid(x)}
Next == FALSE /\ UNCHANGED s
Spec == Init /\ [][Next]_s

Export == PrintT(<<"SCN", ToJson([shape |-> s.shape, cls |-> s.cls, nf |-> s.nf, hdr |-> s.hdr,
                                  fin |-> s.fin, finpos |-> s.finpos, usage |-> s.usage,
                                  chunk |-> s.chunk, noise |-> s.noise, both |-> s.both,
                                  mal |-> s.mal, malpos |-> s.malpos, arb |-> s.arb,
                                  strict |-> Strict(s)])>>)
=============================================================================
