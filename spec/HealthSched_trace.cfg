CONSTANTS CIs = {1, 5, 20}  Outcomes = {"ok", "http4xx", "http5xx", "refuse", "timeout"}  Ticks = {1, 5, 30, 61}
          MaxBackoff = 60  MaxMult = 12  CapCF = 100000  CapCB = 100000
CONSTANT KnownDeviations = ${KnownDeviations}
SPECIFICATION TraceSpec
CONSTRAINT HW
INVARIANTS Schedule
PROPERTIES Classification HealthyMeansProbedOK DueRoundIsReal SyntheticIsQuiet TRecoveryCallback
POSTCONDITION Accepted
CHECK_DEADLOCK FALSE
