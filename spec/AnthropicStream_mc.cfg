CONSTANTS MaxItems = 2  MaxOut = 9  Frags = {"a"}
SPECIFICATION Spec
CONSTRAINT MCConstraint
VIEW View
INVARIANTS TypeOK Inv_C13a Inv_C13b Inv_C13c Inv_C13d Inv_C13e
CHECK_DEADLOCK FALSE
