CONSTANTS Threshold = 5  Timeout = 20  Ticks = {3, 21}  MaxLen = 0
SPECIFICATION WorksSpec
PROPERTY EventuallyClosed
CHECK_DEADLOCK FALSE
