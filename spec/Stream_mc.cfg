CONSTANTS RT = 3  N = 3  MaxGap = 4
SPECIFICATION Spec
CONSTRAINT MCConstraint
INVARIANTS LiveFlow NoEarlyCut PausesTolerated
PROPERTY StallEnds
CHECK_DEADLOCK FALSE
