--------------------------- MODULE AnthropicStream ---------------------------
(***************************************************************************)
(* What a client of olla's Anthropic endpoint may receive for ONE OpenAI   *)
(* completion translated by internal/adapter/translator/anthropic          *)
(*   streaming.go  TransformStreamingResponse (SSE events)                 *)
(*   response.go   TransformResponse          (one buffered message)       *)
(*                                                                         *)
(* The module is a RECOGNISER of the Anthropic streaming grammar plus the   *)
(* expectation derived from the backend's completion:                      *)
(*   exp.items  the completion: a sequence of blocks, text or tool call    *)
(*   exp.fin    the backend's finish_reason ("none" = never sent)          *)
(*   exp.hasU / exp.uin / exp.uout   the backend's usage (if it sent one)  *)
(* Each action is one event the client receives; it is enabled only where  *)
(* the grammar allows it.  Content is carried by real strings (TLC         *)
(* concatenates strings with \o), so "lose nothing" is literal equality.   *)
(*                                                                         *)
(* Where the property is silent the recogniser is lenient: the order of    *)
(* text relative to tool calls, how text is spread over text blocks, empty *)
(* text blocks, ping events, the stop reason when the backend sent no      *)
(* finish_reason and the usage when it sent none are NOT constrained       *)
(* (the last two only have to agree between streamed and buffered).        *)
(***************************************************************************)
EXTENDS Naturals, Sequences, FiniteSets, TLC, Json

CONSTANTS MaxItems,   \* MC: completions of up to MaxItems items
          MaxOut,     \* MC: streams of up to MaxOut events
          Frags       \* MC: delta payloads

VARIABLES exp,      \* the completion the backend produced (see above)
          strict,   \* TRUE: well-formed input, every clause applies; FALSE: malformed / arbitrarily
                    \*       interleaved input, only "never crashes or hangs" applies
          phase,    \* "init" | "msg" (message open, no block open) | "block" | "closing" | "done" | "ended"
          nextIdx,  \* index the next content_block_start must carry
          open,     \* index of the open block (phase = "block")
          blocks,   \* blocks received so far, with the concatenation of their deltas
          rep,      \* what message_delta reported: [stop, uin, uout]
          buf,      \* the buffered translation of the same completion: [has, sum, stop, uin, uout]
          hist,     \* ghost: the events received so far, [t, i]
          scn

vars == <<exp, strict, phase, nextIdx, open, blocks, rep, buf, hist, scn>>

-----------------------------------------------------------------------------
(* content algebra *)
TextBlk(t)            == [k |-> "text", text |-> t, id |-> "", name |-> "", args |-> ""]
ToolBlk(id, nm, args) == [k |-> "tool", text |-> "", id |-> id, name |-> nm, args |-> args]

RECURSIVE AllText(_)
AllText(bs) == IF bs = <<>> THEN ""
               ELSE (IF Head(bs).k = "text" THEN Head(bs).text ELSE "") \o AllText(Tail(bs))
\* a tool_use block that received no input_json_delta has input {} ; so has an OpenAI call with arguments ""
ArgNorm(a)  == IF a = "" THEN "{}" ELSE a
ToolsOf(bs) == LET ts == SelectSeq(bs, LAMBDA b : b.k = "tool")
               IN  [j \in 1..Len(ts) |-> [id |-> ts[j].id, name |-> ts[j].name, args |-> ArgNorm(ts[j].args)]]
\* what a message says, independent of how text is spread over blocks
Summary(bs) == [text |-> AllText(bs), tools |-> ToolsOf(bs)]

StopOf(f) == CASE f = "stop"       -> "end_turn"
               [] f = "length"     -> "max_tokens"
               [] f = "tool_calls" -> "tool_use"
               [] OTHER            -> "unconstrained"
StopOK(s)      == exp.fin \in {"stop", "length", "tool_calls"} => s = StopOf(exp.fin)
UsageOK(ui, uo) == exp.hasU => (ui = exp.uin /\ uo = exp.uout)

NoRep == [stop |-> "", uin |-> 0, uout |-> 0]
NoBuf == [has |-> FALSE, sum |-> Summary(<<>>), stop |-> "", uin |-> 0, uout |-> 0]
Ev(t, i) == [t |-> t, i |-> i]

-----------------------------------------------------------------------------
(* the six Anthropic stream events (+ ping) *)
\* message_start may already announce the input tokens (ui); message_delta may repeat or omit them
MessageStart(ui) ==
    /\ phase = "init"
    /\ phase' = "msg" /\ hist' = Append(hist, Ev("message_start", 0))
    /\ rep' = [rep EXCEPT !.uin = ui]
    /\ UNCHANGED <<exp, strict, nextIdx, open, blocks, buf, scn>>

\* b is the block as announced (kind, id, name, initial text)
BlockStart(i, b) ==
    /\ phase = "msg" /\ i = nextIdx
    /\ phase' = "block" /\ open' = i /\ blocks' = Append(blocks, b)
    /\ hist' = Append(hist, Ev("content_block_start", i))
    /\ UNCHANGED <<exp, strict, nextIdx, rep, buf, scn>>

\* k = "text" (text_delta) or "tool" (input_json_delta); only for the open block and of its kind
Delta(i, k, d) ==
    /\ phase = "block" /\ i = open /\ blocks[Len(blocks)].k = k
    /\ blocks' = [blocks EXCEPT ![Len(blocks)] =
                     IF k = "text" THEN [@ EXCEPT !.text = @ \o d] ELSE [@ EXCEPT !.args = @ \o d]]
    /\ hist' = Append(hist, Ev("content_block_delta", i))
    /\ UNCHANGED <<exp, strict, phase, nextIdx, open, rep, buf, scn>>

BlockStop(i) ==
    /\ phase = "block" /\ i = open
    /\ phase' = "msg" /\ nextIdx' = nextIdx + 1
    /\ hist' = Append(hist, Ev("content_block_stop", i))
    /\ UNCHANGED <<exp, strict, open, blocks, rep, buf, scn>>

\* exactly one, after every block is closed; by now nothing of the completion may be missing
MessageDelta(s, ui, uo) ==
    /\ phase = "msg"
    /\ Summary(blocks) = Summary(exp.items)
    /\ StopOK(s) /\ UsageOK(ui, uo)
    /\ rep' = [stop |-> s, uin |-> ui, uout |-> uo]
    /\ phase' = "closing" /\ hist' = Append(hist, Ev("message_delta", 0))
    /\ UNCHANGED <<exp, strict, nextIdx, open, blocks, buf, scn>>

MessageStop ==
    /\ phase = "closing"
    /\ phase' = "done" /\ hist' = Append(hist, Ev("message_stop", 0))
    /\ UNCHANGED <<exp, strict, nextIdx, open, blocks, rep, buf, scn>>

\* the buffered translation of the same completion (one JSON message)
Buffered(bs, s, ui, uo) ==
    /\ ~buf.has /\ phase # "ended"
    /\ Summary(bs) = Summary(exp.items)
    /\ StopOK(s) /\ UsageOK(ui, uo)
    /\ buf' = [has |-> TRUE, sum |-> Summary(bs), stop |-> s, uin |-> ui, uout |-> uo]
    /\ UNCHANGED <<exp, strict, phase, nextIdx, open, blocks, rep, hist, scn>>

\* streamed and buffered translations say the same
Agree == buf.has => /\ Summary(blocks) = buf.sum
                    /\ rep.stop = buf.stop /\ rep.uin = buf.uin /\ rep.uout = buf.uout

\* the stream ends (the translator returned): only after message_stop, and in agreement with the buffered form
End == /\ phase = "done" /\ Agree
       /\ phase' = "ended"
       /\ UNCHANGED <<exp, strict, nextIdx, open, blocks, rep, buf, hist, scn>>

-----------------------------------------------------------------------------
(* bounded model: every completion over a small alphabet x every stream the grammar admits *)
MCItems  == {TextBlk("a"), TextBlk(""), ToolBlk("c1", "f", "a"), ToolBlk("c2", "g", "")}
MCComps  == UNION {[1..n -> MCItems] : n \in 0..MaxItems}
MCStarts == {TextBlk(""), ToolBlk("c1", "f", ""), ToolBlk("c2", "g", "")}
MCStops  == {"end_turn", "max_tokens", "tool_use"}

Init == /\ exp \in [items : MCComps, fin : {"tool_calls", "none"},
                    hasU : BOOLEAN, uin : {3}, uout : {5}]
        /\ strict = TRUE /\ phase = "init" /\ nextIdx = 0 /\ open = 0 /\ blocks = <<>>
        /\ rep = NoRep /\ buf = NoBuf /\ hist = <<>> /\ scn = <<>>

Next == \/ \E u \in {0, 1} : MessageStart(3 * u)
        \/ \E b \in MCStarts : BlockStart(nextIdx, b)
        \/ \E d \in Frags, k \in {"text", "tool"} : Delta(open, k, d)
        \/ BlockStop(open)
        \/ \E s \in MCStops, u \in {0, 1} : MessageDelta(s, 3 * u, 5 * u)
        \/ MessageStop \/ End
        \/ \E s \in MCStops, u \in {0, 1} :
               \E bs \in {exp.items, <<TextBlk(AllText(exp.items))>> \o SelectSeq(exp.items, LAMBDA b : b.k = "tool")} :
                   phase = "done" /\ Buffered(bs, s, 3 * u, 5 * u)   \* MC: buffered form last (keeps the model small)
Spec == Init /\ [][Next]_vars

MCConstraint == Len(hist) <= MaxOut
View == <<exp, phase, nextIdx, open, blocks, rep, buf, hist>>

-----------------------------------------------------------------------------
(* Property C13, stated over the received event sequence `hist` (independently of the guards) *)
Pos(t)      == {p \in 1..Len(hist) : hist[p].t = t}
Starts      == Pos("content_block_start")
StopsP      == Pos("content_block_stop")
Before(S, p) == Cardinality({q \in S : q < p})

\* (a1) exactly one message_start, and it is first
Inv_C13a_Start == hist # <<>> => (hist[1].t = "message_start" /\ Cardinality(Pos("message_start")) = 1)
\* (a2) blocks are numbered 0,1,2.. ; each is opened once and only after its predecessor was closed
Inv_C13a_Open  == \A p \in Starts : /\ hist[p].i = Before(Starts, p)
                                    /\ Before(StopsP, p) = Before(Starts, p)
\* (a3) deltas only for the block that is open
Inv_C13a_Delta == \A p \in Pos("content_block_delta") :
                      /\ Before(Starts, p) = hist[p].i + 1
                      /\ Before(StopsP, p) = hist[p].i
\* (a4) each block is closed exactly once, after it was opened
Inv_C13a_Close == \A p \in StopsP : /\ Before(Starts, p) = hist[p].i + 1
                                    /\ Before(StopsP, p) = hist[p].i
\* (a5) then one message_delta with every block closed, and a final message_stop
Inv_C13a_Tail  == /\ Cardinality(Pos("message_delta")) <= 1 /\ Cardinality(Pos("message_stop")) <= 1
                  /\ \A p \in Pos("message_delta") :
                        /\ Cardinality(Starts) = Cardinality(StopsP)
                        /\ \A q \in (p + 1)..Len(hist) : hist[q].t = "message_stop"
                  /\ \A p \in Pos("message_stop") : p = Len(hist) /\ p > 1 /\ hist[p - 1].t = "message_delta"
                  /\ (phase \in {"done", "ended"}) = (Pos("message_stop") # {})
Inv_C13a == Inv_C13a_Start /\ Inv_C13a_Open /\ Inv_C13a_Delta /\ Inv_C13a_Close /\ Inv_C13a_Tail

Closed == strict /\ phase \in {"closing", "done", "ended"}
\* (b) concatenating the deltas reproduces the backend's text and each tool call's id, name, arguments
Inv_C13b == Closed => Summary(blocks) = Summary(exp.items)
\* (c) stop reason and usage are mapped
Inv_C13c == /\ Closed => (StopOK(rep.stop) /\ UsageOK(rep.uin, rep.uout))
            /\ (strict /\ buf.has) => (StopOK(buf.stop) /\ UsageOK(buf.uin, buf.uout) /\ buf.sum = Summary(exp.items))
\* (d) streamed and buffered agree
Inv_C13d == /\ (Closed /\ buf.has) => (Summary(blocks) = buf.sum /\ (exp.fin # "none" => rep.stop = buf.stop)
                                       /\ (exp.hasU => (rep.uin = buf.uin /\ rep.uout = buf.uout)))
            /\ (strict /\ phase = "ended") => Agree
\* (e) a stream that has ended is complete (no hang, no crash, no truncated message)
Inv_C13e == phase = "ended" => (hist # <<>> /\ hist[Len(hist)].t = "message_stop")
\* bookkeeping of the recogniser itself
TypeOK == /\ phase \in {"init", "msg", "block", "closing", "done", "ended"}
          /\ Len(blocks) = nextIdx + (IF phase = "block" THEN 1 ELSE 0)
          /\ phase = "block" => open = nextIdx
=============================================================================
