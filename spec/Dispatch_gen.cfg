CONSTANTS NEPs = ${NEPs}  GKinds = ${GKinds}  Engines = {"sherpa", "olla"}  Balancers = ${Balancers}
          Framings = ${Framings}  Routes = ${Routes}  NSteps = ${NSteps}  WithHealth = ${WithHealth}  Pattern = ${Pattern}  BurstN = ${BurstN}
          Placements = ${Placements}  ReqModels = ${ReqModels}  BootKinds = ${BootKinds}  EpTypes = ${EpTypes}  Twins = ${Twins}
SPECIFICATION Spec
INVARIANT Export
CHECK_DEADLOCK FALSE
