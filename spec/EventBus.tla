------------------------------ MODULE EventBus ------------------------------
(***************************************************************************)
(* pkg/eventbus: the in-process publish/subscribe bus the proxy engines     *)
(* use for their events (EventBus[T].Subscribe / Publish / Shutdown /       *)
(* Stats, buffer per subscriber, drop when full).                           *)
(*                                                                         *)
(* Growth of the specification beyond the listed properties (DESIGN.md     *)
(* section 16, id X02). The contract, for calls made one after another:     *)
(*   E1  every subscriber receives the events published while it was        *)
(*       subscribed, in publication order, each at most once;               *)
(*   E2  an event is dropped for a subscriber only when its buffer is full, *)
(*       and every drop is counted;                                         *)
(*   E3  Publish returns the number of subscribers the event was queued     *)
(*       for; after Shutdown it is 0 and nothing is queued any more;        *)
(*   E4  after its unsubscribe function returned, a subscriber gets no new  *)
(*       events (what is buffered can still be read).                       *)
(***************************************************************************)
EXTENDS Naturals, Sequences, FiniteSets, TLC, Json

CONSTANTS Subs,      \* subscriber slots
          Cap,       \* buffer size per subscriber
          MaxEv,     \* events are numbered 1..MaxEv in publication order
          MaxLen     \* GEN: scenario length

VARIABLES active,    \* slots currently subscribed
          everSub,   \* slots that have a channel (subscribed now or earlier)
          queue,     \* [slot -> sequence of event numbers buffered]
          dropped,   \* [slot -> drops counted for it]
          down,      \* Shutdown was called
          next,      \* number of the next event
          res,       \* result of the last call
          act, scn
vars == <<active, everSub, queue, dropped, down, next, res, act, scn>>

Init == /\ active = {} /\ everSub = {} /\ queue = [s \in Subs |-> <<>>] /\ dropped = [s \in Subs |-> 0]
        /\ down = FALSE /\ next = 1 /\ res = "none" /\ act = "Init" /\ scn = <<>>

Subscribe(s) == /\ act' = "Subscribe" /\ s \notin everSub
                /\ everSub' = everSub \cup {s}
                /\ active' = IF down THEN active ELSE active \cup {s}
                /\ res' = IF down THEN "closed" ELSE "open"
                /\ UNCHANGED <<queue, dropped, down, next>>
Unsubscribe(s) == /\ act' = "Unsubscribe" /\ s \in everSub
                  /\ active' = active \ {s} /\ res' = "none"
                  /\ UNCHANGED <<everSub, queue, dropped, down, next>>
Room(s) == Len(queue[s]) < Cap
Publish == /\ act' = "Publish" /\ next <= MaxEv
           /\ next' = next + 1
           /\ IF down
              THEN res' = 0 /\ UNCHANGED <<queue, dropped>>
              ELSE /\ queue' = [s \in Subs |-> IF s \in active /\ Room(s) THEN Append(queue[s], next) ELSE queue[s]]
                   /\ dropped' = [s \in Subs |-> IF s \in active /\ ~Room(s) THEN dropped[s] + 1 ELSE dropped[s]]
                   /\ res' = Cardinality({s \in active : Room(s)})
           /\ UNCHANGED <<active, everSub, down>>
\* a non-blocking read of the subscriber's channel: the oldest buffered event, or nothing
Recv(s) == /\ act' = "Recv" /\ s \in everSub
           /\ IF queue[s] = <<>> THEN res' = 0 /\ UNCHANGED queue
              ELSE res' = Head(queue[s]) /\ queue' = [queue EXCEPT ![s] = Tail(@)]
           /\ UNCHANGED <<active, everSub, dropped, down, next>>
Shutdown == /\ act' = "Shutdown" /\ down' = TRUE /\ active' = {} /\ res' = "none"
            /\ UNCHANGED <<everSub, queue, dropped, next>>
\* Stats(): subscribers known to the bus, and the drops counted for THEM
Stats == /\ act' = "Stats"
         /\ res' = IF down THEN [subs |-> 0, drops |-> 0, down |-> TRUE]
                   ELSE [subs |-> Cardinality(active),
                         drops |-> LET RECURSIVE Sum(_)
                                       Sum(S) == IF S = {} THEN 0 ELSE LET x == CHOOSE x \in S : TRUE IN dropped[x] + Sum(S \ {x})
                                   IN Sum(active),
                         down |-> FALSE]
         /\ UNCHANGED <<active, everSub, queue, dropped, down, next>>

Log(t) == scn' = Append(scn, t)
Next == \/ \E s \in Subs : Subscribe(s) /\ Log(<<"Subscribe", s>>)
        \/ \E s \in Subs : Unsubscribe(s) /\ Log(<<"Unsubscribe", s>>)
        \/ Publish /\ Log(<<"Publish">>)
        \/ \E s \in Subs : Recv(s) /\ Log(<<"Recv", s>>)
        \/ Shutdown /\ Log(<<"Shutdown">>)
        \/ Stats /\ Log(<<"Stats">>)
Spec == Init /\ [][Next]_vars

-----------------------------------------------------------------------------
TypeOK == /\ active \subseteq everSub /\ everSub \subseteq Subs
          /\ \A s \in Subs : Len(queue[s]) <= Cap
\* E1: what a subscriber has buffered is strictly increasing (publication order, no duplicates)
Ordered == \A s \in Subs : \A i, j \in 1..Len(queue[s]) : i < j => queue[s][i] < queue[s][j]
\* E1: successive receipts of one subscriber increase (history-free form: a received event is older than
\* everything still buffered for that subscriber)
RecvOldest == [][(act' = "Recv" /\ res' # 0) => \A s \in Subs : (queue'[s] # queue[s]) => \A i \in 1..Len(queue'[s]) : res' < queue'[s][i]]_vars
\* E3/E4: nothing is queued for a slot that is not subscribed, or after shutdown
QuietWhenGone == [][\A s \in Subs : (s \notin active \/ down) => Len(queue'[s]) <= Len(queue[s])]_vars
\* E2: a drop only when the buffer is full
DropOnlyWhenFull == [][\A s \in Subs : dropped'[s] > dropped[s] => Len(queue[s]) = Cap]_vars

GenConstraint == Len(scn) <= MaxLen
SimExport == Len(scn) = MaxLen => PrintT(<<"SCN", ToJson(scn)>>)
View == <<active, everSub, queue, dropped, down>>
=============================================================================
