CONSTANTS EP = {"e1", "e2", "e3", "e4"}  Strategies = {"strict", "optimistic", "discovery"}  Fallbacks = {"compatible_only", "none", "all"}  CTypes = {"json"}  Spellings = {"exact"}
CONSTANT KnownDeviations = ${KnownDeviations}
SPECIFICATION TraceSpec
CONSTRAINT HW
INVARIANTS ServedWhereListed
POSTCONDITION Accepted
CHECK_DEADLOCK FALSE
