CONSTANTS FailureThreshold = 5  SuccessThreshold = 2  HalfOpenRequests = 3  OpenDuration = 20  Ticks = {3, 21}  MaxLen = 0  Races = {}  MaxPend = 3
SPECIFICATION LSpec
PROPERTY WorksLeadsToClosed
CHECK_DEADLOCK FALSE
