CONSTANTS MCBurst = 0  MCHorizon = 0
CONSTANT KnownDeviations = ${KnownDeviations}
SPECIFICATION TraceSpec
CONSTRAINT HW
POSTCONDITION Accepted
CHECK_DEADLOCK FALSE
