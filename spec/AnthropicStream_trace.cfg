CONSTANTS MaxItems = 0  MaxOut = 0  Frags = {}
CONSTANT KnownDeviations = ${KnownDeviations}
SPECIFICATION TraceSpec
CONSTRAINT HW
INVARIANTS TypeOK Inv_C13a Inv_C13b Inv_C13c Inv_C13d Inv_C13e
POSTCONDITION Accepted
CHECK_DEADLOCK FALSE
