CONSTANTS MaxN = ${MaxN}  Statuses = {"healthy", "busy", "warming", "offline", "unhealthy", "unknown"}  Prios = ${Prios}  MaxGauge = ${MaxGauge}  FairK = 1  HistLen = 0
SPECIFICATION GenSpec
INVARIANT Export
CHECK_DEADLOCK FALSE
