---- MODULE UnifierBreakerConc_TTrace_1790569644 ----
EXTENDS Sequences, TLCExt, UnifierBreakerConc, Toolbox, Naturals, TLC, UnifierBreakerConc_TEConstants

_expression ==
    LET UnifierBreakerConc_TEExpression == INSTANCE UnifierBreakerConc_TEExpression
    IN UnifierBreakerConc_TEExpression!expression
----

_trace ==
    LET UnifierBreakerConc_TETrace == INSTANCE UnifierBreakerConc_TETrace
    IN UnifierBreakerConc_TETrace!trace
----

_inv ==
    ~(
        TLCGet("level") = Len(_TETrace)
        /\
        st = ("half")
        /\
        failures = (0)
        /\
        ops = (4)
        /\
        pc = ((p1 :> "report" @@ p2 :> "report"))
        /\
        successes = (0)
        /\
        epAdmits = (2)
        /\
        hoReq = (1)
        /\
        got = ((p1 :> "admit" @@ p2 :> "admit"))
        /\
        seen = ((p1 :> "open" @@ p2 :> "open"))
        /\
        sinceFail = (3)
    )
----

_init ==
    /\ seen = _TETrace[1].seen
    /\ sinceFail = _TETrace[1].sinceFail
    /\ failures = _TETrace[1].failures
    /\ hoReq = _TETrace[1].hoReq
    /\ ops = _TETrace[1].ops
    /\ st = _TETrace[1].st
    /\ successes = _TETrace[1].successes
    /\ epAdmits = _TETrace[1].epAdmits
    /\ pc = _TETrace[1].pc
    /\ got = _TETrace[1].got
----

_next ==
    /\ \E i,j \in DOMAIN _TETrace:
        /\ \/ /\ j = i + 1
              /\ i = TLCGet("level")
        /\ seen  = _TETrace[i].seen
        /\ seen' = _TETrace[j].seen
        /\ sinceFail  = _TETrace[i].sinceFail
        /\ sinceFail' = _TETrace[j].sinceFail
        /\ failures  = _TETrace[i].failures
        /\ failures' = _TETrace[j].failures
        /\ hoReq  = _TETrace[i].hoReq
        /\ hoReq' = _TETrace[j].hoReq
        /\ ops  = _TETrace[i].ops
        /\ ops' = _TETrace[j].ops
        /\ st  = _TETrace[i].st
        /\ st' = _TETrace[j].st
        /\ successes  = _TETrace[i].successes
        /\ successes' = _TETrace[j].successes
        /\ epAdmits  = _TETrace[i].epAdmits
        /\ epAdmits' = _TETrace[j].epAdmits
        /\ pc  = _TETrace[i].pc
        /\ pc' = _TETrace[j].pc
        /\ got  = _TETrace[i].got
        /\ got' = _TETrace[j].got

\* Uncomment the ASSUME below to write the states of the error trace
\* to the given file in Json format. Note that you can pass any tuple
\* to `JsonSerialize`. For example, a sub-sequence of _TETrace.
    \* ASSUME
    \*     LET J == INSTANCE Json
    \*         IN J!JsonSerialize("UnifierBreakerConc_TTrace_1790569644.json", _TETrace)

=============================================================================

 Note that you can extract this module `UnifierBreakerConc_TEExpression`
  to a dedicated file to reuse `expression` (the module in the 
  dedicated `UnifierBreakerConc_TEExpression.tla` file takes precedence 
  over the module `UnifierBreakerConc_TEExpression` below).

---- MODULE UnifierBreakerConc_TEExpression ----
EXTENDS Sequences, TLCExt, UnifierBreakerConc, Toolbox, Naturals, TLC, UnifierBreakerConc_TEConstants

expression == 
    [
        \* To hide variables of the `UnifierBreakerConc` spec from the error trace,
        \* remove the variables below.  The trace will be written in the order
        \* of the fields of this record.
        seen |-> seen
        ,sinceFail |-> sinceFail
        ,failures |-> failures
        ,hoReq |-> hoReq
        ,ops |-> ops
        ,st |-> st
        ,successes |-> successes
        ,epAdmits |-> epAdmits
        ,pc |-> pc
        ,got |-> got
        
        \* Put additional constant-, state-, and action-level expressions here:
        \* ,_stateNumber |-> _TEPosition
        \* ,_seenUnchanged |-> seen = seen'
        
        \* Format the `seen` variable as Json value.
        \* ,_seenJson |->
        \*     LET J == INSTANCE Json
        \*     IN J!ToJson(seen)
        
        \* Lastly, you may build expressions over arbitrary sets of states by
        \* leveraging the _TETrace operator.  For example, this is how to
        \* count the number of times a spec variable changed up to the current
        \* state in the trace.
        \* ,_seenModCount |->
        \*     LET F[s \in DOMAIN _TETrace] ==
        \*         IF s = 1 THEN 0
        \*         ELSE IF _TETrace[s].seen # _TETrace[s-1].seen
        \*             THEN 1 + F[s-1] ELSE F[s-1]
        \*     IN F[_TEPosition - 1]
    ]

=============================================================================



Parsing and semantic processing can take forever if the trace below is long.
 In this case, it is advised to uncomment the module below to deserialize the
 trace from a generated binary file.

\*
\*---- MODULE UnifierBreakerConc_TETrace ----
\*EXTENDS IOUtils, UnifierBreakerConc, TLC, UnifierBreakerConc_TEConstants
\*
\*trace == IODeserialize("UnifierBreakerConc_TTrace_1790569644.bin", TRUE)
\*
\*=============================================================================
\*

---- MODULE UnifierBreakerConc_TETrace ----
EXTENDS UnifierBreakerConc, TLC, UnifierBreakerConc_TEConstants

trace == 
    <<
    ([st |-> "closed",failures |-> 0,ops |-> 0,pc |-> (p1 :> "idle" @@ p2 :> "idle"),successes |-> 0,epAdmits |-> 0,hoReq |-> 0,got |-> (p1 :> "none" @@ p2 :> "none"),seen |-> (p1 :> "none" @@ p2 :> "none"),sinceFail |-> 3]),
    ([st |-> "closed",failures |-> 0,ops |-> 1,pc |-> (p1 :> "report" @@ p2 :> "idle"),successes |-> 0,epAdmits |-> 0,hoReq |-> 0,got |-> (p1 :> "admit" @@ p2 :> "none"),seen |-> (p1 :> "closed" @@ p2 :> "none"),sinceFail |-> 3]),
    ([st |-> "closed",failures |-> 0,ops |-> 2,pc |-> (p1 :> "report" @@ p2 :> "report"),successes |-> 0,epAdmits |-> 0,hoReq |-> 0,got |-> (p1 :> "admit" @@ p2 :> "admit"),seen |-> (p1 :> "closed" @@ p2 :> "closed"),sinceFail |-> 3]),
    ([st |-> "closed",failures |-> 1,ops |-> 2,pc |-> (p1 :> "idle" @@ p2 :> "report"),successes |-> 0,epAdmits |-> 0,hoReq |-> 0,got |-> (p1 :> "none" @@ p2 :> "admit"),seen |-> (p1 :> "closed" @@ p2 :> "closed"),sinceFail |-> 0]),
    ([st |-> "open",failures |-> 2,ops |-> 2,pc |-> (p1 :> "idle" @@ p2 :> "idle"),successes |-> 0,epAdmits |-> 0,hoReq |-> 0,got |-> (p1 :> "none" @@ p2 :> "none"),seen |-> (p1 :> "closed" @@ p2 :> "closed"),sinceFail |-> 0]),
    ([st |-> "open",failures |-> 2,ops |-> 2,pc |-> (p1 :> "idle" @@ p2 :> "idle"),successes |-> 0,epAdmits |-> 0,hoReq |-> 0,got |-> (p1 :> "none" @@ p2 :> "none"),seen |-> (p1 :> "closed" @@ p2 :> "closed"),sinceFail |-> 3]),
    ([st |-> "open",failures |-> 2,ops |-> 3,pc |-> (p1 :> "trans" @@ p2 :> "idle"),successes |-> 0,epAdmits |-> 0,hoReq |-> 0,got |-> (p1 :> "none" @@ p2 :> "none"),seen |-> (p1 :> "open" @@ p2 :> "closed"),sinceFail |-> 3]),
    ([st |-> "open",failures |-> 2,ops |-> 4,pc |-> (p1 :> "trans" @@ p2 :> "trans"),successes |-> 0,epAdmits |-> 0,hoReq |-> 0,got |-> (p1 :> "none" @@ p2 :> "none"),seen |-> (p1 :> "open" @@ p2 :> "open"),sinceFail |-> 3]),
    ([st |-> "half",failures |-> 0,ops |-> 4,pc |-> (p1 :> "add" @@ p2 :> "trans"),successes |-> 0,epAdmits |-> 0,hoReq |-> 0,got |-> (p1 :> "none" @@ p2 :> "none"),seen |-> (p1 :> "open" @@ p2 :> "open"),sinceFail |-> 3]),
    ([st |-> "half",failures |-> 0,ops |-> 4,pc |-> (p1 :> "report" @@ p2 :> "trans"),successes |-> 0,epAdmits |-> 1,hoReq |-> 1,got |-> (p1 :> "admit" @@ p2 :> "none"),seen |-> (p1 :> "open" @@ p2 :> "open"),sinceFail |-> 3]),
    ([st |-> "half",failures |-> 0,ops |-> 4,pc |-> (p1 :> "report" @@ p2 :> "add"),successes |-> 0,epAdmits |-> 1,hoReq |-> 0,got |-> (p1 :> "admit" @@ p2 :> "none"),seen |-> (p1 :> "open" @@ p2 :> "open"),sinceFail |-> 3]),
    ([st |-> "half",failures |-> 0,ops |-> 4,pc |-> (p1 :> "report" @@ p2 :> "report"),successes |-> 0,epAdmits |-> 2,hoReq |-> 1,got |-> (p1 :> "admit" @@ p2 :> "admit"),seen |-> (p1 :> "open" @@ p2 :> "open"),sinceFail |-> 3])
    >>
----


=============================================================================

---- MODULE UnifierBreakerConc_TEConstants ----
EXTENDS UnifierBreakerConc

CONSTANTS p1, p2

=============================================================================

---- CONFIG UnifierBreakerConc_TTrace_1790569644 ----
CONSTANTS
    Procs = { p1 , p2 }
    FailureThreshold = 2
    SuccessThreshold = 2
    HalfOpenRequests = 1
    OpenDuration = 2
    Locked = FALSE
    MaxOps = 6
    p1 = p1
    p2 = p2

INVARIANT
    _inv

CHECK_DEADLOCK
    \* CHECK_DEADLOCK off because of PROPERTY or INVARIANT above.
    FALSE

INIT
    _init

NEXT
    _next

CONSTANT
    _TETrace <- _trace

ALIAS
    _expression
=============================================================================
\* Generated on Mon Sep 28 04:27:25 UTC 2026