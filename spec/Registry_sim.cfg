CONSTANTS Eps = ${Eps}  MaxLen = ${MaxLen}
CONSTANTS Listings <- ${Listings}  BadLists <- ${BadLists}  FailKinds <- ${FailKinds}
CONSTANTS FilterChoices <- ${Filters}  Probe <- ProbeAll  FailBodies <- ${FailBodies}  WithConcurrency = ${Conc}
SPECIFICATION SimSpec
INVARIANT Export
CHECK_DEADLOCK FALSE
