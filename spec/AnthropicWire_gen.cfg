CONSTANTS Engines = {"sherpa", "olla"}  Cuts = ${Cuts}  Fins = {"stop", "length", "tool_calls"}  Shapes = {"text", "text_tool", "tool"}
INIT Init
NEXT Next
INVARIANT Export
CHECK_DEADLOCK FALSE
