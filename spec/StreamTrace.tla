----------------------------- MODULE StreamTrace -----------------------------
EXTENDS Stream, TraceLib
CONSTANT KnownDeviations
VARIABLE l
tvars == <<vars, l>>
Is(name) == l <= NEv /\ TLog[l].ev = name
E == TLog[l]
Step == l' = l + 1 /\ UNCHANGED vars
TReset == Is("Reset") /\ Step
TFlow  == Is("Flow")  /\ FlowOK(E)  /\ Step
TStall == Is("Stall") /\ StallOK(E) /\ Step
TPause == Is("Pause") /\ PauseOK(E) /\ Step
TAbort == Is("Abort") /\ AbortOK(E) /\ Step
TLeak  == Is("Leak")  /\ LeakOK(E)  /\ Step
(* Known finding KF-C18-1 (only if listed): the olla engine examines its read deadline only BETWEEN reads, *)
(* so a backend that stops sending mid-response is not cut off: the request is still open after RT+slack. *)
KF_C18_1 == /\ "KF-C18-1" \in KnownDeviations
            /\ Is("Stall") /\ E.engine = "olla" /\ ~StallOK(E)
            /\ Step /\ UseDeviation("KF-C18-1")
TraceInit == Init /\ l = 1
TraceNext == TReset \/ TFlow \/ TStall \/ TPause \/ TAbort \/ TLeak \/ KF_C18_1
TraceSpec == TraceInit /\ [][TraceNext]_tvars
HW == HWMark(l)
=============================================================================
