------------------------------- MODULE Poison -------------------------------
(***************************************************************************)
(* Nothing a backend says can crash olla or poison its state.              *)
(*   internal/adapter/discovery/http_client.go, service.go (listings)      *)
(*   internal/adapter/registry/profile/*_parser.go (per-provider parsers)  *)
(*   internal/adapter/registry/memory_registry.go (catalogue)              *)
(*   internal/adapter/health/client.go (health answers)                    *)
(*   internal/adapter/metrics/extractor.go (response tails)                *)
(* A TLA+ model cannot enumerate all byte strings: it enumerates response  *)
(* CLASSES; the harness instantiates each class with seeded concrete bytes.*)
(***************************************************************************)
EXTENDS Naturals, Sequences, FiniteSets, TLC, Json

CONSTANTS Classes,      \* listing classes
          HealthClasses,
          Formats,      \* provider listing formats explored
          Fields, ValueClasses,  \* metrics tails: which field gets which kind of value
          FleetClasses, \* GEN: what the OTHER endpoint of a two-endpoint discovery round answers
          Mutations     \* GEN: how many byte-level mutations of a well-formed listing per format (class "mutated")

VARIABLES last,         \* model names attributed to the endpoint under test
          phase,        \* "idle" | "listed"
          offered,      \* the named, de-duplicated entries of the listing just served ({} if it has none)
          scn
vars == <<last, phase, offered, scn>>

Init == last = {"m1", "m2"} /\ phase = "idle" /\ offered = {} /\ scn = <<>>

\* the endpoint answers its next listing request with an instance of class c whose named entries are ns
\* (class "mutated": a well-formed listing with random bytes flipped, cut, doubled or inserted -- nobody can say
\* which entries a parser may legitimately take from it, so only the consistency of the views is demanded)
AnyListing == {"*"}
Listing(c, ns) == /\ phase' = "listed" /\ offered' = (IF c = "mutated" THEN AnyListing ELSE ns) /\ UNCHANGED <<last, scn>>
\* the catalogue views after the listing was processed: all views agree, and what they say is either what
\* was known before or the named entries of the new listing - never a mixture, never garbage
Dump(perEp, byModel, count) ==
    /\ phase = "listed"
    /\ perEp = byModel /\ count = Cardinality(perEp)        \* views agree with each other
    /\ (offered = AnyListing \/ perEp \in {last, offered})        \* previous attribution intact, or replaced
    /\ last' = perEp /\ phase' = "idle" /\ UNCHANGED <<offered, scn>>
\* other requests continue to be served while / after the endpoint said this
Probe(st) == st = 200 /\ UNCHANGED vars
\* a health answer of any class ends with a stored status
HealthDone(status) == status \in {"healthy", "unhealthy", "offline", "busy"} /\ UNCHANGED vars
\* a discovery round over the whole fleet: what ONE endpoint said (class c) is that endpoint's business -- the
\* bystander's catalogue is its own listing afterwards, and it is neither blamed for a failure nor switched off
Fleet(bystander, blamed, disabled) == bystander = {"m8", "m9"} /\ blamed = 0 /\ ~disabled /\ UNCHANGED vars
\* a metrics tail: every extracted number is absent or finite
Metrics(kinds) == (\A i \in 1..Len(kinds) : kinds[i] \in {"absent", "finite"}) /\ UNCHANGED vars

Next == \/ \E c \in Classes : \E ns \in SUBSET {"m1", "m3"} : Listing(c, ns)
        \/ (phase = "listed" /\ \E v \in {last, offered} : Dump(v, v, Cardinality(v)))
        \/ Probe(200)
Spec == Init /\ [][Next]_vars
Consistent == last \subseteq {"m1", "m2", "m3"}

(* GEN *)
GenInit == /\ last = {} /\ phase = "idle" /\ offered = {}
           /\ \/ \E c \in Classes : \E f \in Formats : scn = [kind |-> "listing", cls |-> c, format |-> f]
              \/ \E k \in 1..Mutations : \E f \in Formats : scn = [kind |-> "listing", cls |-> "mutated", format |-> f, k |-> k]
              \/ \E h \in HealthClasses : scn = [kind |-> "health", cls |-> h]
              \/ \E c \in FleetClasses : scn = [kind |-> "fleet", cls |-> c]
              \/ \E f \in Fields : \E v \in ValueClasses : \E p \in Formats : scn = [kind |-> "metrics", field |-> f, value |-> v, provider |-> p]
GenNext == FALSE /\ UNCHANGED vars
Export == PrintT(<<"SCN", ToJson(scn)>>)
=============================================================================
