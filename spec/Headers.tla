------------------------------- MODULE Headers -------------------------------
(***************************************************************************)
(* C15 -- what becomes of the client's header block on its way to a        *)
(* backend (core.CopyHeaders / isHopByHopHeader / updateForwardedHeaders,  *)
(* called by both engines for every attempt, also on the Anthropic         *)
(* passthrough and translated routes).                                     *)
(*                                                                         *)
(* A header LINE is a record                                               *)
(*     [ln   |-> field name in lower case,                                 *)
(*      v    |-> field value,                                              *)
(*      els  |-> the comma separated elements of the value, in order,      *)
(*      toks |-> (Connection lines only) the elements in lower case]       *)
(* A header BLOCK is a sequence of lines in wire order.  `sent` is the     *)
(* block the client wrote, every element of `ups` is the block one backend *)
(* received for one attempt of that request.                               *)
(*                                                                         *)
(* Steps (shaped like the implementation's observable steps):              *)
(*   Send(H)     the client writes block H                                 *)
(*   Attempt     olla builds the upstream block of one attempt from H      *)
(*               (first attempt, or one more after a connection failure)   *)
(*   Done        the client has its answer                                 *)
(***************************************************************************)
EXTENDS Naturals, Sequences, FiniteSets, TLC

CONSTANTS MCNames,      \* bounded model: field names (lower case) the client may send
          MCVals,       \* bounded model: field values ("" = empty value)
          MaxLines,     \* bounded model: max number of client lines
          MaxAttempts,  \* bounded model: attempts per request
          FirstLineOnly \* bounded model: TRUE = model the Header.Get + Header.Set habit (reads the first line of a
                        \* repeated field, then replaces all of its lines); used to show Inv_C15c is not vacuous

VARIABLES sent,   \* header block of the current client request
          ups,    \* upstream blocks seen so far for it, one per attempt
          phase,  \* "idle" | "sent" | "done" (one request per behaviour; a trace starts the next one with Reset)
          act

vars == <<sent, ups, phase, act>>

-----------------------------------------------------------------------------
(* Header classes (field names are compared in lower case) *)

Sensitive == {"authorization", "cookie", "x-api-key", "x-auth-token", "proxy-authorization"}
HopByHop  == {"connection", "keep-alive", "proxy-authenticate", "te", "trailer", "transfer-encoding", "upgrade"}
Forwarded == {"via", "x-forwarded-for", "x-forwarded-proto", "x-forwarded-host", "x-real-ip"}
\* written by Go's HTTP client for its own hop, whatever the handler does: not "client headers that arrive"
Managed   == {"host", "content-length", "transfer-encoding", "user-agent", "accept-encoding"}
\* olla's own identification of itself / of the routed model: it states them, it does not relay them
OllaOwned == {"x-proxied-by", "x-model"}

Range(s)      == {s[i] : i \in 1..Len(s)}
NamesOf(S)    == {S[i].ln : i \in 1..Len(S)}
LinesOf(S, n) == SelectSeq(S, LAMBDA h : h.ln = n)
ValsOf(S, n)  == LET L == LinesOf(S, n) IN [i \in 1..Len(L) |-> L[i].v]
RECURSIVE Flat(_)
Flat(ss)      == IF ss = <<>> THEN <<>> ELSE Head(ss) \o Flat(Tail(ss))
ElsOf(S, n)   == LET L == LinesOf(S, n) IN Flat([i \in 1..Len(L) |-> L[i].els])
IsPrefix(a, b) == Len(a) <= Len(b) /\ SubSeq(b, 1, Len(a)) = a

\* names the client itself declared connection-specific ("Connection: close, x-foo"): hop-by-hop for this
\* connection just like the fixed list (RFC 7230 section 6.1)
Nominated(H) == UNION {Range(h.toks) : h \in {x \in Range(H) : x.ln = "connection"}}

IsOther(n, H) == n \notin (Sensitive \cup HopByHop \cup Forwarded \cup Managed \cup OllaOwned \cup Nominated(H))

\* framing of olla's own connection to the backend (Go's transport writes it)
OwnFraming(u) == \/ u.ln = "transfer-encoding" /\ u.v = "chunked"
                 \/ u.ln = "connection" /\ u.v \in {"close", "keep-alive"}

-----------------------------------------------------------------------------
(* The property, as a relation between the client's block H and one upstream block U *)

\* a: none of the client's credential headers, whatever the spelling or multiplicity
NoSensitive(H, U) == \A n \in NamesOf(U) \cap Sensitive : n \notin NamesOf(H)
\* a: none of the client's hop-by-hop headers
NoHopByHop(H, U)  == \A i \in 1..Len(U) :
                        (U[i].ln \in HopByHop /\ U[i].ln \in NamesOf(H)) => OwnFraming(U[i])
\* a: ... nor a header the client's Connection line nominates
NoNominated(H, U) == \A n \in NamesOf(U) \cap NamesOf(H) \cap Nominated(H) :
                        n \in HopByHop \cup Forwarded \cup Managed \cup OllaOwned
\* b: every other client header arrives with the same ordered list of values
OthersUnchanged(H, U) == \A n \in NamesOf(H) : IsOther(n, H) => ValsOf(U, n) = ValsOf(H, n)
\* c: what the client put into Via / X-Forwarded-* / X-Real-IP is still there, in order, and whatever olla adds
\*    comes after it
ForwardedAppended(H, U) == \A n \in NamesOf(H) \cap Forwarded : IsPrefix(ElsOf(H, n), ElsOf(U, n))

Allowed(H, U) == NoSensitive(H, U) /\ NoHopByHop(H, U) /\ NoNominated(H, U) /\ OthersUnchanged(H, U) /\ ForwardedAppended(H, U)

-----------------------------------------------------------------------------
(* Bounded model of the mechanism *)

MkLine(n, v) == [ln |-> n, v |-> v, els |-> IF v = "" THEN <<>> ELSE <<v>>,
                 toks |-> IF v = "" THEN <<>> ELSE <<v>>]
MCLines  == {MkLine(n, v) : n \in MCNames, v \in MCVals}
MCBlocks == UNION {[1..k -> MCLines] : k \in 0..MaxLines}

OllaEl == "olla"

\* the part of H that is relayed as it is: neither credentials nor hop-by-hop (listed or nominated)
Relayed(H) == SelectSeq(H, LAMBDA h : h.ln \notin Sensitive \cup HopByHop \cup Forwarded \cup Nominated(H))
\* the Via / X-Forwarded-* / X-Real-IP lines of the upstream block: the client's elements, then olla's (add[n])
FwdNames == {"via", "x-forwarded-for", "x-forwarded-proto", "x-forwarded-host", "x-real-ip"}
FwdOrder == <<"via", "x-forwarded-for", "x-forwarded-host", "x-forwarded-proto", "x-real-ip">>
ClientEls(H, n) == IF FirstLineOnly /\ LinesOf(H, n) # <<>> THEN LinesOf(H, n)[1].els ELSE ElsOf(H, n)
FwdLine(H, n, add) == LET e == ClientEls(H, n) \o add
                      IN [ln |-> n, v |-> "joined", els |-> e, toks |-> <<>>]
FwdBlock(H, addf) == LET all == [i \in 1..Len(FwdOrder) |-> FwdLine(H, FwdOrder[i], addf[FwdOrder[i]])]
                     IN SelectSeq(all, LAMBDA l : l.els # <<>>)
\* olla always adds itself to Via and the peer address to X-Forwarded-For; the other three are filled in only
\* when the client did not send them
Adds(H) == {f \in [FwdNames -> {<<>>, <<OllaEl>>}] :
              /\ f["via"] = <<OllaEl>> /\ f["x-forwarded-for"] = <<OllaEl>>
              /\ \A n \in {"x-forwarded-proto", "x-forwarded-host", "x-real-ip"} :
                    f[n] = IF ClientEls(H, n) = <<>> THEN <<OllaEl>> ELSE <<>>}
OwnLines == <<[ln |-> "transfer-encoding", v |-> "chunked", els |-> <<"chunked">>, toks |-> <<>>],
              [ln |-> "x-proxied-by", v |-> "olla", els |-> <<"olla">>, toks |-> <<>>]>>
Built(H) == {OwnLines \o Relayed(H) \o FwdBlock(H, f) : f \in Adds(H)}

Init == sent = <<>> /\ ups = <<>> /\ phase = "idle" /\ act = "Init"

Send(H) == /\ phase = "idle"
           /\ sent' = H /\ ups' = <<>> /\ phase' = "sent" /\ act' = "Send"

Record(U) == /\ phase = "sent"
             /\ ups' = Append(ups, U) /\ act' = "Attempt"
             /\ UNCHANGED <<sent, phase>>

Attempt == Len(ups) < MaxAttempts /\ \E U \in Built(sent) : Record(U)

\* the trace form: the upstream block is what a backend recorded; it must be one the property allows
\* a failed-over attempt carries the same request (C04: "same method, path, headers, body"): what olla made of the
\* Via / X-Forwarded-* / X-Real-IP fields for an earlier attempt of this request is what it makes of them now
\* (additions are not piled up from attempt to attempt)
SameForwarded(U) == \A i \in 1..Len(ups) : \A n \in Forwarded : ElsOf(ups[i], n) = ElsOf(U, n)
Forward(U) == Allowed(sent, U) /\ SameForwarded(U) /\ Record(U)

Done == /\ phase = "sent"
        /\ phase' = "done" /\ act' = "Done" /\ UNCHANGED <<sent, ups>>

Next == (\E H \in MCBlocks : Send(H)) \/ Attempt \/ Done
Spec == Init /\ [][Next]_vars

-----------------------------------------------------------------------------
(* Property C15 *)

Inv_C15a == \A i \in 1..Len(ups) : NoSensitive(sent, ups[i]) /\ NoHopByHop(sent, ups[i])
Inv_C15b == \A i \in 1..Len(ups) : OthersUnchanged(sent, ups[i])
Inv_C15c == \A i \in 1..Len(ups) : ForwardedAppended(sent, ups[i])

TypeOK == phase \in {"idle", "sent", "done"} /\ Len(ups) <= MaxAttempts
View   == <<sent, ups, phase>>
=============================================================================
