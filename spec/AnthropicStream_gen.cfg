CONSTANTS MinItems = ${MinItems}  MaxItems = ${MaxItems}  Classes = ${Classes}  NFs = ${NFs}  Hdrs = ${Hdrs}
          Fins = ${Fins}  FinPoss = ${FinPoss}  Usages = ${Usages}  Chunks = ${Chunks}  Noises = ${Noises}
          Boths = ${Boths}  Mals = ${Mals}  MalPoss = ${MalPoss}  Arbs = ${Arbs}
SPECIFICATION Spec
INVARIANT Export
CHECK_DEADLOCK FALSE
