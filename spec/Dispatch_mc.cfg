CONSTANTS EP = {"e1", "e2"}  REQ = {"r1", "r2"}  Kinds = {"ok", "http", "reset_pre", "reset_after", "close_pre", "cabort"}
          EBThreshold = 2  Engines = {"sherpa", "olla"}
SPECIFICATION Spec
CONSTRAINT MCConstraint
VIEW View
INVARIANTS TypeOK GaugeExact AtMostOnce FailOnlyWhenExhausted Conserved
PROPERTIES NoRedispatch OutOfRotation
CHECK_DEADLOCK FALSE
