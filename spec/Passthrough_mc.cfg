CONSTANTS EP = {"e1", "e2"}  Types = {"vllm", "sglang"}  NativeChoices = {{}, {"vllm"}}  PlanKinds = {"ok", "reset_pre"}
SPECIFICATION Spec
INVARIANT NeverMixedUp
CHECK_DEADLOCK FALSE
