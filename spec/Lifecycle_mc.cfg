CONSTANTS Svcs = {"a", "b", "c"}  Ghost = "ghost"  GhostAt = "a"
SPECIFICATION Spec
INVARIANTS TypeOK DepsUp DepsStillUp CulpritUntouched NothingOnInvalid AtRestClean
PROPERTY Settles
CHECK_DEADLOCK FALSE
