-------------------------- MODULE UnifierBreakerConc --------------------------
(***************************************************************************)
(* The unification breaker at the grain of its atomics: Allow() is a       *)
(* sequence of loads and stores (internal/adapter/unifier/                 *)
(* circuit_breaker.go), and several goroutines run it at once.             *)
(*                                                                         *)
(* Locked = FALSE is the code as it was found: Allow loads the state, and  *)
(* if it read "open" with the timeout elapsed it performs                  *)
(* transitionToHalfOpen (state := half; counters := 0) and then            *)
(* allowHalfOpen (hoReq += 1; admit iff hoReq <= HalfOpenRequests) -- each *)
(* a separate step. A caller that read "open" and is delayed resets the    *)
(* half-open counter of an episode that is already under way: TLC finds    *)
(* BoundedProbes violated with two callers (UnifierBreakerConc_racy.cfg).  *)
(*                                                                         *)
(* Locked = TRUE is the repaired code: Allow / RecordSuccess /             *)
(* RecordFailure each run under the breaker's mutex, i.e. every operation  *)
(* is one step, and the model is the sequential UnifierBreaker.tla run by  *)
(* several callers.                                                         *)
(***************************************************************************)
EXTENDS Naturals, FiniteSets, TLC

CONSTANTS Procs, FailureThreshold, SuccessThreshold, HalfOpenRequests, OpenDuration, Locked, MaxOps

VARIABLES st, failures, successes, hoReq, sinceFail,   \* the breaker's atomics (time as "since last failure")
          pc, seen, got,                               \* per caller: program counter, the state it loaded, what Allow returned
          epAdmits,                                    \* ghost: admissions since the breaker last BECAME half-open
          ops                                          \* ghost: bound for TLC

vars == <<st, failures, successes, hoReq, sinceFail, pc, seen, got, epAdmits, ops>>
SatF == OpenDuration + 1
Min(a, b) == IF a < b THEN a ELSE b

Init == /\ st = "closed" /\ failures = 0 /\ successes = 0 /\ hoReq = 0 /\ sinceFail = SatF
        /\ pc = [p \in Procs |-> "idle"] /\ seen = [p \in Procs |-> "none"] /\ got = [p \in Procs |-> "none"]
        /\ epAdmits = 0 /\ ops = 0

Return(p, r) == /\ got' = [got EXCEPT ![p] = r] /\ pc' = [pc EXCEPT ![p] = "report"]
                /\ epAdmits' = IF r = "admit" /\ st = "half" THEN epAdmits + 1 ELSE epAdmits   \* (no caller of Return changes st)

(* ---- Allow(), fine grain ---- *)
Load(p) == /\ pc[p] = "idle" /\ ops < MaxOps /\ ops' = ops + 1
           /\ seen' = [seen EXCEPT ![p] = st]
           /\ CASE st = "closed" -> Return(p, "admit") /\ UNCHANGED <<st, failures, successes, hoReq>>
                [] st = "open" /\ sinceFail <= OpenDuration -> Return(p, "refuse") /\ UNCHANGED <<st, failures, successes, hoReq>>
                [] st = "open" /\ sinceFail > OpenDuration -> pc' = [pc EXCEPT ![p] = "trans"] /\ UNCHANGED <<st, failures, successes, hoReq, got, epAdmits>>
                [] st = "half" -> pc' = [pc EXCEPT ![p] = "add"] /\ UNCHANGED <<st, failures, successes, hoReq, got, epAdmits>>
           /\ UNCHANGED sinceFail
Trans(p) == /\ pc[p] = "trans"          \* transitionToHalfOpen: the stores, taken as one step (already enough for the race)
            /\ st' = "half" /\ failures' = 0 /\ successes' = 0 /\ hoReq' = 0
            /\ epAdmits' = IF st # "half" THEN 0 ELSE epAdmits     \* a new episode only if it was not half-open already
            /\ pc' = [pc EXCEPT ![p] = "add"]
            /\ UNCHANGED <<sinceFail, seen, got, ops>>
Add(p) == /\ pc[p] = "add"              \* allowHalfOpen
          /\ hoReq' = Min(hoReq + 1, HalfOpenRequests + 1)
          /\ UNCHANGED <<st, failures, successes, sinceFail, seen, ops>>
          /\ Return(p, IF hoReq + 1 <= HalfOpenRequests THEN "admit" ELSE "refuse")

(* ---- Allow(), under the mutex: one step ---- *)
AllowAtomic(p) ==
    /\ pc[p] = "idle" /\ ops < MaxOps /\ ops' = ops + 1 /\ seen' = [seen EXCEPT ![p] = st]
    /\ CASE st = "closed" -> Return(p, "admit") /\ UNCHANGED <<st, failures, successes, hoReq>>
         [] st = "open" /\ sinceFail <= OpenDuration -> Return(p, "refuse") /\ UNCHANGED <<st, failures, successes, hoReq>>
         [] st = "open" /\ sinceFail > OpenDuration ->
               /\ st' = "half" /\ failures' = 0 /\ successes' = 0 /\ hoReq' = 1
               /\ got' = [got EXCEPT ![p] = IF 1 <= HalfOpenRequests THEN "admit" ELSE "refuse"]
               /\ pc' = [pc EXCEPT ![p] = "report"]
               /\ epAdmits' = IF 1 <= HalfOpenRequests THEN 1 ELSE 0
         [] st = "half" ->
               /\ hoReq' = Min(hoReq + 1, HalfOpenRequests + 1)
               /\ UNCHANGED <<st, failures, successes>>
               /\ Return(p, IF hoReq + 1 <= HalfOpenRequests THEN "admit" ELSE "refuse")
    /\ UNCHANGED sinceFail

(* ---- the caller reports what happened to the request it was admitted for (each one step: they are    *)
(*      single stores / adds followed by a transition; refused callers report nothing)                  *)
ReportSucc(p) == /\ pc[p] = "report" /\ got[p] = "admit"
                 /\ CASE st = "closed" -> failures' = 0 /\ UNCHANGED <<st, successes, hoReq, epAdmits>>
                      [] st = "half" -> IF successes + 1 >= SuccessThreshold
                                        THEN st' = "closed" /\ failures' = 0 /\ successes' = 0 /\ hoReq' = 0 /\ epAdmits' = 0
                                        ELSE successes' = successes + 1 /\ UNCHANGED <<st, failures, hoReq, epAdmits>>
                      [] st = "open" -> UNCHANGED <<st, failures, successes, hoReq, epAdmits>>
                 /\ pc' = [pc EXCEPT ![p] = "idle"] /\ got' = [got EXCEPT ![p] = "none"]
                 /\ UNCHANGED <<sinceFail, seen, ops>>
ReportFail(p) == /\ pc[p] = "report" /\ got[p] = "admit"
                 /\ sinceFail' = 0 /\ failures' = Min(failures + 1, FailureThreshold)
                 /\ CASE st = "closed" -> IF failures + 1 >= FailureThreshold
                                          THEN st' = "open" /\ successes' = 0 /\ hoReq' = 0 /\ epAdmits' = 0
                                          ELSE UNCHANGED <<st, successes, hoReq, epAdmits>>
                      [] st = "half" -> st' = "open" /\ successes' = 0 /\ hoReq' = 0 /\ epAdmits' = 0
                      [] st = "open" -> UNCHANGED <<st, successes, hoReq, epAdmits>>
                 /\ pc' = [pc EXCEPT ![p] = "idle"] /\ got' = [got EXCEPT ![p] = "none"]
                 /\ UNCHANGED <<seen, ops>>
Refused(p) == /\ pc[p] = "report" /\ got[p] = "refuse"
              /\ pc' = [pc EXCEPT ![p] = "idle"] /\ got' = [got EXCEPT ![p] = "none"]
              /\ UNCHANGED <<st, failures, successes, hoReq, sinceFail, seen, epAdmits, ops>>
Tick == /\ sinceFail <= OpenDuration /\ sinceFail' = SatF
        /\ UNCHANGED <<st, failures, successes, hoReq, pc, seen, got, epAdmits, ops>>

Next == \/ \E p \in Procs : IF Locked THEN AllowAtomic(p) ELSE (Load(p) \/ Trans(p) \/ Add(p))
        \/ \E p \in Procs : ReportSucc(p) \/ ReportFail(p) \/ Refused(p)
        \/ Tick
Spec == Init /\ [][Next]_vars

(* C08, unification breaker, with concurrent callers: at most the configured number of probe          *)
(* admissions per half-open episode                                                                    *)
BoundedProbes == epAdmits <= HalfOpenRequests
TypeOK == st \in {"closed", "open", "half"} /\ hoReq \in 0..(HalfOpenRequests + 1) /\ epAdmits \in 0..(Cardinality(Procs) * MaxOps)
=============================================================================
