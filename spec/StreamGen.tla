------------------------------ MODULE StreamGen ------------------------------
EXTENDS Naturals, Sequences, TLC, Json
CONSTANTS Engines, Profiles, CTs, Kinds, ChunkSizes, StallPoints
VARIABLE scn
Init == \E en \in Engines : \E pr \in Profiles : \E ct \in CTs : \E k \in Kinds :
          \/ k = "flow"  /\ \E cs \in ChunkSizes : scn = [kind |-> k, engine |-> en, profile |-> pr, ct |-> ct, chunk |-> cs, n |-> 4]
          \* a stall is "mid-response": after the headers; before them the response timeout governs, not the read timeout
          \/ k = "stall" /\ \E sp \in StallPoints \ {"prehdr"} : scn = [kind |-> k, engine |-> en, profile |-> pr, ct |-> ct, at |-> sp]
          \/ k = "pause" /\ scn = [kind |-> k, engine |-> en, profile |-> pr, ct |-> ct, gap |-> 300]
          \/ k = "abort" /\ \E sp \in StallPoints : scn = [kind |-> k, engine |-> en, profile |-> pr, ct |-> ct, at |-> sp]
          \/ k = "leak"  /\ ct = "text/event-stream" /\ scn = [kind |-> k, engine |-> en, profile |-> pr, ct |-> ct, reps |-> 20]
Next == FALSE /\ UNCHANGED scn
Export == PrintT(<<"SCN", ToJson(scn)>>)
=============================================================================
