------------------------------ MODULE StreamGen ------------------------------
EXTENDS Naturals, Sequences, TLC, Json
CONSTANTS Engines, Profiles, CTs, Kinds, ChunkSizes, StallPoints,
          Routes   \* abort / leak scenarios: "proxy", or "anthropic" (the stream is translated on its way back)
VARIABLE scn
Init == \E en \in Engines : \E pr \in Profiles : \E ct \in CTs : \E k \in Kinds :
          \/ k = "flow"  /\ \E cs \in ChunkSizes : scn = [kind |-> k, engine |-> en, profile |-> pr, ct |-> ct, chunk |-> cs, n |-> 4]
          \* causally gated flow on the TRANSLATED route: the backend sends OpenAI chunk k+1 only after the client has
          \* seen the Anthropic event made from chunk k -- text deltas, or the fragments of a tool call's arguments
          \/ k = "tflow" /\ ct = "text/event-stream" /\ \E sh \in {"text", "tool"} :
                 scn = [kind |-> k, engine |-> en, profile |-> pr, ct |-> ct, shape |-> sh, route |-> "anthropic"]
          \* a stall is "mid-response": after the headers; before them the response timeout governs, not the read timeout
          \/ k = "stall" /\ \E sp \in StallPoints \ {"prehdr"} : scn = [kind |-> k, engine |-> en, profile |-> pr, ct |-> ct, at |-> sp]
          \* ... and a backend that accepts the request and never sends a response head is cut off by the response timeout
          \/ k = "stall" /\ scn = [kind |-> k, engine |-> en, profile |-> pr, ct |-> ct, at |-> "prehdr", rsp |-> 1000]
          \/ k = "pause" /\ scn = [kind |-> k, engine |-> en, profile |-> pr, ct |-> ct, gap |-> 300]
          \* a longer timeout (2 s), a chunk 400 ms after the first, then one pause of 1.7 s: below the timeout, but
          \* longer than what is left of a clock started at the FIRST chunk
          \/ k = "pause" /\ scn = [kind |-> k, engine |-> en, profile |-> pr, ct |-> ct, gap |-> 1700, rt |-> 2000]
          \* the client goes away while the backend stalls at one of the stall points, or while it keeps sending
          \* ("flowing": the proxy always has a chunk in hand at the moment the client is gone)
          \* a response_timeout (0.4 s) shorter than the read timeout (2 s), and a pause between the two: it is the READ
          \* timeout that says how long a backend may pause
          \/ k = "pause" /\ scn = [kind |-> k, engine |-> en, profile |-> pr, ct |-> ct, gap |-> 700, rt |-> 2000, rsp |-> 400]
          \/ k = "abort" /\ \E sp \in StallPoints \cup {"flowing"} : \E rt \in Routes :
                 /\ (rt = "anthropic" => ct = "text/event-stream")
                 /\ scn = [kind |-> k, engine |-> en, profile |-> pr, ct |-> ct, at |-> sp, route |-> rt]
          \/ k = "leak"  /\ ct = "text/event-stream" /\ \E sp \in {"chunk1", "flowing"} : \E rt \in Routes :
                 scn = [kind |-> k, engine |-> en, profile |-> pr, ct |-> ct, reps |-> 20, at |-> sp, route |-> rt]
Next == FALSE /\ UNCHANGED scn
Export == PrintT(<<"SCN", ToJson(scn)>>)
=============================================================================
