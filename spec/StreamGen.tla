------------------------------ MODULE StreamGen ------------------------------
EXTENDS Naturals, Sequences, TLC, Json
CONSTANTS Engines, Profiles, CTs, Kinds, ChunkSizes, StallPoints
VARIABLE scn
Init == \E en \in Engines : \E pr \in Profiles : \E ct \in CTs : \E k \in Kinds :
          \/ k = "flow"  /\ \E cs \in ChunkSizes : scn = [kind |-> k, engine |-> en, profile |-> pr, ct |-> ct, chunk |-> cs, n |-> 4]
          \* a stall is "mid-response": after the headers; before them the response timeout governs, not the read timeout
          \/ k = "stall" /\ \E sp \in StallPoints \ {"prehdr"} : scn = [kind |-> k, engine |-> en, profile |-> pr, ct |-> ct, at |-> sp]
          \/ k = "pause" /\ scn = [kind |-> k, engine |-> en, profile |-> pr, ct |-> ct, gap |-> 300]
          \* a longer timeout (2 s), a chunk 400 ms after the first, then one pause of 1.7 s: below the timeout, but
          \* longer than what is left of a clock started at the FIRST chunk
          \/ k = "pause" /\ scn = [kind |-> k, engine |-> en, profile |-> pr, ct |-> ct, gap |-> 1700, rt |-> 2000]
          \/ k = "abort" /\ \E sp \in StallPoints : scn = [kind |-> k, engine |-> en, profile |-> pr, ct |-> ct, at |-> sp]
          \/ k = "leak"  /\ ct = "text/event-stream" /\ scn = [kind |-> k, engine |-> en, profile |-> pr, ct |-> ct, reps |-> 20]
Next == FALSE /\ UNCHANGED scn
Export == PrintT(<<"SCN", ToJson(scn)>>)
=============================================================================
