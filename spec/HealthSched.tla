------------------------------ MODULE HealthSched ------------------------------
(***************************************************************************)
(* Health checking of ONE endpoint: status state machine, backoff          *)
(* schedule, health circuit breaker (INSTANCE HealthBreaker), recovery     *)
(* callback, and the second writer of the same record (the proxy's         *)
(* RetryHandler.markEndpointUnhealthy).                                    *)
(*   internal/adapter/health/checker.go, client.go, circuit_breaker.go     *)
(*   internal/adapter/proxy/core/retry.go  markEndpointUnhealthy           *)
(*   internal/adapter/discovery/repository.go UpdateEndpoint               *)
(* Time in whole seconds.                                                  *)
(***************************************************************************)
EXTENDS Naturals, Sequences, TLC, Json

CONSTANTS CIs,          \* check intervals explored (seconds)
          Outcomes,     \* what the backend does when probed
          Ticks,        \* tick sizes
          MaxBackoff,   \* 60 s   (constants.DefaultMaxBackoffSeconds)
          MaxMult,      \* 12     (constants.DefaultMaxBackoffMultiplier)
          CapCF,        \* MC: cap on the consecutive-failure counter
          CapCB         \* MC: cap on the callback counter (liveness cfg only needs 1)

VARIABLES ci,           \* check_interval of this endpoint
          status, cf, mult,
          wait,         \* NextCheckTime - now, floored at 0 (0 = due)
          lastIv,       \* NextCheckTime - LastChecked as stored by the last writer
          backend,      \* current behaviour of the backend
          cb,           \* number of recovery callbacks so far
          sinceReal,    \* ghost: time since the backend last saw a real probe (saturating)
          hbF, hbOpen, hbSF, hbP, hbSP, hbRes, hbAct, hbCons, hbScn,   \* health breaker
          act, real,    \* last action; did the last Round reach the backend
          pend,         \* a check whose probe is done but whose result is not stored yet ("none" or a record)
          slowSeen,     \* history: such an overlapped store happened (schedule arithmetic is then not judged)
          scn

hbvars == <<hbF, hbOpen, hbSF, hbP, hbSP, hbRes, hbAct, hbCons, hbScn>>
core == <<ci, status, cf, mult, wait, lastIv, backend, hbF, hbOpen, hbSF, hbP, hbSP>>
vars == <<ci, status, cf, mult, wait, lastIv, backend, cb, sinceReal, hbvars, act, real, pend, slowSeen, scn>>

HB == INSTANCE HealthBreaker WITH
        Threshold <- 3, Timeout <- 30, ProbeWindow <- 1, Ticks <- {}, MaxLen <- 0,
        failures <- hbF, open <- hbOpen, sinceFail <- hbSF, probing <- hbP, sinceProbe <- hbSP,
        res <- hbRes, act <- hbAct, consec <- hbCons, scn <- hbScn

Min(a, b) == IF a < b THEN a ELSE b
SatReal == MaxBackoff + 30 + 100

CbInc(c) == IF c < CapCB THEN c + 1 ELSE c
Classify(o) == CASE o = "ok" -> "healthy"
                 [] o \in {"http4xx", "http5xx"} -> "unhealthy"
                 [] o \in {"refuse", "timeout", "eof"} -> "offline"     \* eof: the peer accepts, reads and hangs up without an answer

\* calculateBackoff / markEndpointUnhealthy: interval for THIS failure and multiplier for the next
FailInterval(m) == IF m <= 1 THEN Min(ci, MaxBackoff) ELSE Min(ci * m, MaxBackoff)   \* capped from the first failure on
FailMult(m)     == IF m <= 1 THEN 2 ELSE Min(m * 2, MaxMult)

Init == /\ ci \in CIs /\ status = "unknown" /\ cf = 0 /\ mult = 1 /\ wait = 0 /\ lastIv = 0
        /\ backend \in Outcomes /\ cb = 0 /\ sinceReal = 0
        /\ HB!Init /\ act = "Init" /\ real = FALSE /\ pend = [on |-> FALSE, st |-> "none", from |-> "none", age |-> 0] /\ slowSeen = FALSE
        /\ scn = <<<<"Start", ci, backend>>>>

SetBackend(o) == /\ act' = "SetBackend" /\ backend' = o /\ o # backend
                 /\ UNCHANGED <<ci, status, cf, mult, wait, lastIv, cb, sinceReal, hbvars, real, pend, slowSeen>>

Tick(d) == /\ act' = "Tick"
           /\ wait' = IF wait > d THEN wait - d ELSE 0
           /\ sinceReal' = Min(sinceReal + d, SatReal)
           /\ HB!Tick(d) /\ UNCHANGED <<hbScn>>
           /\ pend' = IF pend.on THEN [pend EXCEPT !.age = IF @ + d > MaxBackoff THEN MaxBackoff + 1 ELSE @ + d] ELSE pend
           /\ UNCHANGED <<ci, status, cf, mult, lastIv, backend, cb, real, slowSeen>>

StoreFailure(newStatus) ==
    /\ status' = newStatus
    /\ cf' = Min(cf + 1, CapCF)
    /\ lastIv' = FailInterval(mult) /\ wait' = FailInterval(mult)
    /\ mult' = FailMult(mult)

\* one scheduler round (performHealthChecks): nothing if not due, else one check
RoundSkip == /\ act' = "Round" /\ wait > 0 /\ real' = FALSE
             /\ UNCHANGED <<ci, status, cf, mult, wait, lastIv, backend, cb, sinceReal, hbvars, pend, slowSeen>>

RoundSynthetic ==          \* breaker open: synthetic offline result, NOT recorded in the breaker
    /\ act' = "Round" /\ wait = 0 /\ ~HB!Admits /\ real' = FALSE
    /\ StoreFailure("offline")
    /\ UNCHANGED <<ci, backend, cb, sinceReal, hbvars, pend, slowSeen>>

RoundReal ==
    /\ act' = "Round" /\ wait = 0 /\ HB!Admits /\ real' = TRUE
    /\ sinceReal' = 0
    /\ IF backend = "ok"
       THEN /\ status' = "healthy" /\ cf' = 0 /\ mult' = 1 /\ lastIv' = ci /\ wait' = ci
            /\ cb' = IF status \notin {"healthy", "unknown"} THEN CbInc(cb) ELSE cb
            /\ HB!Succ
       ELSE /\ StoreFailure(Classify(backend)) /\ UNCHANGED cb
            /\ HB!Fail
    /\ UNCHANGED <<ci, backend, hbScn, pend, slowSeen>>

Round == RoundSkip \/ RoundSynthetic \/ RoundReal

\* A due check on a backend that hangs, cut short by the sweep's own time budget: a check that did not succeed
\* is a failed check, its result is stored like any other (the endpoint leaves the rotation). Whether the
\* breaker saw the failure depends on where the budget ran out (between retries it is not told), so both are
\* behaviours.
RoundCut ==
    /\ act' = "RoundCut" /\ wait = 0 /\ HB!Admits /\ backend = "timeout" /\ ~pend.on
    /\ real' = TRUE /\ sinceReal' = 0
    /\ StoreFailure("offline") /\ UNCHANGED cb
    /\ (HB!Fail \/ UNCHANGED hbvars)
    /\ UNCHANGED <<ci, backend, hbScn, pend, slowSeen>>

\* the proxy saw a connection-level failure on this endpoint (second writer)
ProxyFailure == /\ act' = "ProxyFailure" /\ real' = FALSE
                /\ StoreFailure("offline")
                /\ UNCHANGED <<ci, backend, cb, sinceReal, hbvars, pend, slowSeen>>

\* A check that overlaps other writers: its probe (and breaker bookkeeping) happens at SlowBegin, its
\* read-copy-update store at SlowEnd, with arbitrary other steps in between. The properties fix the stored
\* status (the check that COMPLETES last wins) and the recovery callback (judged against the status the
\* store actually replaces); the backoff arithmetic of an overlapped store is not something they state.
SlowBegin ==
    /\ act' = "SlowBegin" /\ ~pend.on /\ wait = 0
    /\ IF HB!Admits
       THEN /\ real' = TRUE /\ sinceReal' = 0
            /\ pend' = [on |-> TRUE, st |-> Classify(backend), from |-> status, age |-> 0]
            /\ IF backend = "ok" THEN HB!Succ ELSE HB!Fail
            /\ UNCHANGED hbScn
       ELSE /\ real' = FALSE /\ pend' = [on |-> TRUE, st |-> "offline", from |-> status, age |-> 0] /\ UNCHANGED <<sinceReal, hbvars>>
    /\ UNCHANGED <<ci, status, cf, mult, wait, lastIv, backend, cb, slowSeen>>
\* `against` = the status the recovery callback is judged against: the property says the stored transition,
\* i.e. the status this store replaces (status); the code's read-copy-update uses its snapshot (pend.from)
SlowEndJudged(cf2, mult2, iv2, against) ==
    /\ act' = "SlowEnd" /\ pend.on
    /\ status' = pend.st
    /\ cb' = IF pend.st = "healthy" /\ against \notin {"healthy", "unknown"} THEN CbInc(cb) ELSE cb
    \* the next check is due iv2 after the moment THIS check started, which was pend.age ago
    /\ cf' = cf2 /\ mult' = mult2 /\ lastIv' = iv2 /\ wait' = IF iv2 > pend.age THEN iv2 - pend.age ELSE 0
    /\ pend' = [on |-> FALSE, st |-> "none", from |-> "none", age |-> 0] /\ slowSeen' = TRUE
    /\ UNCHANGED <<ci, backend, sinceReal, hbvars, real>>
SlowEnd(cf2, mult2, iv2) == SlowEndJudged(cf2, mult2, iv2, status)

Log(tok) == scn' = Append(scn, tok)
Next == \/ \E o \in Outcomes : SetBackend(o) /\ Log(<<"SetBackend", o>>)
        \/ \E d \in Ticks : Tick(d) /\ Log(<<"Tick", d>>)
        \/ Round /\ Log("Round")
        \/ RoundCut /\ Log("RoundCut")
        \/ ProxyFailure /\ Log("ProxyFailure")
        \/ SlowBegin /\ Log("SlowBegin")
        \/ /\ pend.on
           /\ IF pend.st = "healthy" THEN SlowEnd(0, 1, ci)
                                    ELSE SlowEnd(Min(cf + 1, CapCF), FailMult(mult), FailInterval(mult))
           /\ Log("SlowEnd")
Spec == Init /\ [][Next]_vars

-----------------------------------------------------------------------------
(* Property C07 *)
\* (a) healthy exactly when the latest check reached the endpoint and got 2xx
Classification == [][(act' = "Round" /\ wait = 0 /\ ~pend.on) =>
                        IF real' THEN status' = Classify(backend) ELSE status' = "offline"]_vars
HealthyMeansProbedOK == [][(status' = "healthy" /\ status # "healthy") =>
                             \/ (real' /\ backend = "ok")
                             \/ (act' = "SlowEnd" /\ pend.st = "healthy")]_vars      \* its probe (at SlowBegin) got the 2xx
\* (b) the delay after f consecutive failures is ci x 1,2,4,8,12,12,... capped; ci after a success
Mul(f) == CASE f = 1 -> 1 [] f = 2 -> 2 [] f = 3 -> 4 [] f = 4 -> 8 [] OTHER -> 12
Schedule == slowSeen \/
            /\ (status = "healthy" => lastIv = ci /\ cf = 0 /\ mult = 1)
            /\ (cf >= 1 /\ cf < CapCF => lastIv = Min(ci * Mul(cf), MaxBackoff))
            /\ wait <= (IF ci > MaxBackoff THEN ci ELSE MaxBackoff)    \* (a healthy endpoint waits ci, which may exceed the cap)
\* (c) real probing at bounded intervals: a due round is real whenever the breaker admits, synthetic
\*     failures do not extend the breaker, and (under a scheduler that runs a round after every
\*     tick) the backend is never left unprobed longer than backoff cap + breaker timeout + one tick
DueRoundIsReal   == [][(act' = "Round" /\ wait = 0 /\ HB!Admits) => real']_vars
SyntheticIsQuiet == [][(act' = "Round" /\ ~real') => hbSF' = hbSF /\ hbF' = hbF]_vars
\* (d)/(e) recovery: first successful probe => healthy, one callback per not-healthy -> healthy
RecoveryCallback == [][act' # "Init" => cb' = IF status' = "healthy" /\ status \notin {"healthy", "unknown"} THEN CbInc(cb) ELSE cb]_vars

TypeOK == /\ status \in {"unknown", "healthy", "unhealthy", "offline"}
          /\ cf \in 0..CapCF /\ mult \in {1, 2, 4, 8, 12} /\ wait \in 0..(IF ci > MaxBackoff THEN ci ELSE MaxBackoff)

-----------------------------------------------------------------------------
(* MC with a ticking scheduler: every Tick is followed by a Round; the proxy only reports   *)
(* failures for an endpoint it could route to.                                               *)
MaxTick == CHOOSE d \in Ticks : \A e \in Ticks : e <= d
SchedNext == \/ act = "Tick" /\ Round /\ UNCHANGED scn
             \/ act # "Tick" /\ UNCHANGED scn /\
                  \/ \E d \in Ticks : Tick(d)
                  \/ \E o \in Outcomes : SetBackend(o)
                  \/ status = "healthy" /\ ProxyFailure
SchedSpec == Init /\ [][SchedNext]_vars
BoundedProbing == act = "Round" => sinceReal <= MaxBackoff + 30 + MaxTick
\* recovery promise as liveness: once the backend answers 2xx for good (and the proxy stops
\* reporting failures) the endpoint becomes and stays healthy
LiveSpec == SchedSpec /\ WF_vars(act = "Tick" /\ Round /\ UNCHANGED scn)
                      /\ WF_vars(act # "Tick" /\ UNCHANGED scn /\ \E d \in Ticks : Tick(d))
Recovers == <>[](backend = "ok" /\ act # "ProxyFailure") => <>[](status = "healthy")
View == <<core, real, act>>

(* GEN: transition cover + suffixes (see HealthBreakerGen) lives in HealthSchedGen *)
=============================================================================
