"""X03 -- Olla.tla: the assembled server as one state machine (health state x catalogue x provider scope x model
routing x failover).  Growth of the specification (DESIGN.md section 16); not in MANIFEST.json."""


def register(PROPS, HARNESS_PKGS):
    ALL = '{"up", "relist", "health", "req", "list"}'
    HB = '{"up", "health", "req"}'   # walks focused on the health breaker: three failed rounds in a row open it

    def sim(ep, num, depth, ops=ALL):
        return {"module": "Olla", "cfg": "Olla_sim.cfg", "params": {"EP": ep, "MaxLen": depth, "Ops": ops},
                "simulate": {"num": num, "depth": 4 * depth}}
    part = {
        "name": "system",
        "mc": [{"module": "Olla", "cfg": "Olla_mc.cfg"}],
        "quick": {"gen": [sim('{"e1", "e2"}', 250, 9), sim('{"e1", "e2", "e3"}', 150, 11), sim('{"e1", "e2"}', 100, 12, HB)]},
        "thorough": {"gen": [sim('{"e1", "e2"}', 2500, 12), sim('{"e1", "e2", "e3"}', 2500, 16), sim('{"e1", "e2"}', 1500, 14, HB)]},
        "pkg": "internal/app", "test": "TestVerif_Olla",
        "harness_files": ["stack_test.go", "dispatch_test.go", "headers_test.go", "olla_test.go"],
        "trace": {"module": "OllaTrace", "cfg": "Olla_trace.cfg", "deque": True},
        "nontrivial": lambda s: sum(1 for x in s if x.get("op") == "req") >= 2 and any(x.get("op") in ("up", "relist") for x in s),
    }
    PROPS["X03"] = {
        "rule": "seeded TLC simulation walks of the composed system model (backends going away / coming back, changing "
                "listings, health rounds, requests on the proxy and provider routes, 2-3 typed endpoints) replayed "
                "through the assembled server; statuses, catalogue, contacted backends and answers validated by "
                "OllaTrace. Non-trivial = at least two requests and a change of the world.",
        "exhaustive": False,
        "assumptions": ["default configuration: strict model routing, unified registry; the engine (sherpa, olla: fewer failures per endpoint than its breaker's threshold), the balancer (round-robin, priority, least-connections) and the endpoints' priorities are scenario constants"],
        "parts": [part],
    }
