_PREFIXES = '{"ollama", "lmstudio", "lm-studio", "vllm", "sglang", "llamacpp", "lemonade", "litellm", "openai", "openai-compatible", "dmr", "vllm-mlx"}'
_TYPES = '{"ollama", "vllm", "vllm-mlx", "sglang", "lm-studio", "llamacpp", "lemonade", "litellm", "docker-model-runner", "openai-compatible", "auto"}'


def _pg(ep, prefixes, types, **kw):
    p = {"EP": ep, "Prefixes": prefixes, "Types": types, "Focus": "FALSE", "Strats": '{"plain"}', "DropFocus": "FALSE", "FlipFocus": "FALSE"}
    p.update(kw)
    return {"module": "Provider", "cfg": "Provider_gen.cfg", "params": p}


# every (prefix, endpoint type) pair on its own -- names that are prefixes of one another (vllm / vllm-mlx,
# openai / openai-compatible, lmstudio / lm-studio) must not be confused; never sampled away
_PAIRS = dict(_pg('{"e1"}', _PREFIXES, _TYPES), always=True)
# two endpoints of one kind and one of another, all healthy, one refusing the connection: the failover must stay
# inside the provider
_FOCUS = dict(_pg('{"e1", "e2", "e3"}', '{"ollama", "vllm"}', '{"ollama", "vllm", "lm-studio"}', Focus="TRUE"), always=True)


# the lenient fallback of the discovery routing strategy (fallback "all", refresh on miss, unknown model) on a
# provider route: it may only fall back to the provider's own healthy endpoints
_LENIENT = dict(_pg('{"e1", "e2"}', '{"ollama", "vllm", "openai"}', '{"ollama", "vllm"}', Strats='{"disc_all"}'), always=True)


# one endpoint re-lists without the model every endpoint shares: a provider's listing must not keep showing it
# when only endpoints of another kind still have it
_DROP = dict(_pg('{"e1", "e2"}', '{"ollama", "vllm", "openai"}', '{"ollama", "vllm"}', DropFocus="TRUE"), always=True)


# discovery strategy, fallback "all", refresh on miss; three endpoints, all healthy, and one of them turns unhealthy
# WHILE olla re-lists the backends for that request: the re-read healthy set must not widen the request
_FLIP = dict(_pg('{"e1", "e2", "e3"}', '{"ollama", "vllm"}', '{"ollama", "vllm"}', Strats='{"disc_all"}', FlipFocus="TRUE"), always=True)


def register(PROPS, HARNESS_PKGS):
    part = {
        "name": "provider",
        "mc": [{"module": "Provider", "cfg": "Provider_mc.cfg"}],
        "quick": {"gen": [_pg('{"e1", "e2"}', _PREFIXES, _TYPES), _PAIRS, _FOCUS, _LENIENT, _DROP, _FLIP], "sample": 400},
        "thorough": {"gen": [_pg('{"e1", "e2", "e3"}', _PREFIXES, _TYPES), _PAIRS, _FOCUS, _LENIENT, _DROP, _FLIP,
                             _pg('{"e1", "e2", "e3"}', _PREFIXES, _TYPES, Focus="TRUE")], "sample": 5000},
        "pkg": "internal/app", "test": "TestVerif_Provider",
        "harness_files": ["stack_test.go", "dispatch_test.go", "routing_test.go", "provider_test.go"],
        "trace": {"module": "ProviderTrace", "cfg": "Provider_trace.cfg"},
        "nontrivial": lambda s: len(set(s["types"].values())) > 1 or len(s["H"]) < len(s["types"]) or bool(s.get("refuse")),
    }
    # a deployment's own profile that does not declare OpenAI compatibility (see verifCustomProfiles)
    custom = dict(part)
    custom.update({"name": "custom", "mc": [], "env": {"VERIF_CUSTOM_PROFILES": "1"},
                   "quick": {"gen": [_pg('{"e1", "e2"}', '{"openai", "openai-compatible", "verifnoc", "ollama"}', '{"verifnoc", "ollama", "openai-compatible"}'),
                                     _pg('{"e1", "e2"}', '{"openai-verif", "openai", "ollama"}', '{"openai-verif", "ollama"}'),
                                     # an endpoint that names no type is not "auto": it belongs to no specific provider (under the
                                     # openai prefixes the property says nothing about it, so it is not generated there)
                                     _pg('{"e1", "e2"}', '{"openai-verif", "ollama"}', '{"openai-verif", "ollama", "untyped"}')]},
                   "thorough": {"gen": [_pg('{"e1", "e2", "e3"}', '{"openai", "openai-compatible", "verifnoc", "ollama", "vllm"}', '{"verifnoc", "verifoff", "ollama", "openai-compatible", "auto"}')], "sample": 2000}})
    PROPS["C11"] = {
        "rule": "TLC enumerates provider prefix (every prefix the shipped profiles declare) x endpoint-type mix x healthy "
                "subset; each boots the assembled server with typed scripted backends, posts a chat request under "
                "/olla/<prefix>/ and fetches /olla/<prefix>/v1/models; the allowed types per prefix are read from "
                "config/profiles/*.yaml at run time. Non-trivial = mixed types or an unhealthy endpoint.",
        "exhaustive": True,
        "assumptions": ["allowed-type table computed by the harness from the shipped YAML (routing.prefixes, api.openai_compatible)"],
        "parts": [part, custom],
    }
