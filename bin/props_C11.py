_PREFIXES = '{"ollama", "lmstudio", "lm-studio", "vllm", "sglang", "llamacpp", "lemonade", "litellm", "openai", "openai-compatible", "dmr", "vllm-mlx"}'
_TYPES = '{"ollama", "vllm", "sglang", "lm-studio", "llamacpp", "openai-compatible", "auto"}'


def register(PROPS, HARNESS_PKGS):
    part = {
        "name": "provider",
        "mc": [{"module": "Provider", "cfg": "Provider_mc.cfg"}],
        "quick": {"gen": [{"module": "Provider", "cfg": "Provider_gen.cfg",
                           "params": {"EP": '{"e1", "e2"}', "Prefixes": _PREFIXES, "Types": _TYPES}}], "sample": 500},
        "thorough": {"gen": [{"module": "Provider", "cfg": "Provider_gen.cfg",
                              "params": {"EP": '{"e1", "e2", "e3"}', "Prefixes": _PREFIXES, "Types": _TYPES}}], "sample": 5000},
        "pkg": "internal/app", "test": "TestVerif_Provider",
        "harness_files": ["stack_test.go", "dispatch_test.go", "routing_test.go", "provider_test.go"],
        "trace": {"module": "ProviderTrace", "cfg": "Provider_trace.cfg"},
        "nontrivial": lambda s: len(set(s["types"].values())) > 1 or len(s["H"]) < len(s["types"]),
    }
    PROPS["C11"] = {
        "rule": "TLC enumerates provider prefix (every prefix the shipped profiles declare) x endpoint-type mix x healthy "
                "subset; each boots the assembled server with typed scripted backends, posts a chat request under "
                "/olla/<prefix>/ and fetches /olla/<prefix>/v1/models; the allowed types per prefix are read from "
                "config/profiles/*.yaml at run time. Non-trivial = mixed types or an unhealthy endpoint.",
        "exhaustive": True,
        "assumptions": ["allowed-type table computed by the harness from the shipped YAML (routing.prefixes, api.openai_compatible)"],
        "parts": [part],
    }
