def register(PROPS, HARNESS_PKGS):
    allb = '{"empty", "json_small", "json_nomodel", "nonjson", "json_1m_minus", "json_1m", "json_1m_plus", "json_3m", "json_9m"}'
    part = {
        "name": "forward",
        "mc": [{"module": "Forward", "cfg": "Forward_mc.cfg"}],
        "quick": {"gen": [{"module": "Forward", "cfg": "Forward_gen.cfg", "params": {"BodyClasses": '{"empty", "json_small", "json_nomodel", "nonjson", "json_1m", "json_1m_plus", "json_9m"}'}}],
                  "env": {"VERIF_WAVES": "40"}},
        "thorough": {"gen": [{"module": "Forward", "cfg": "Forward_gen.cfg", "params": {"BodyClasses": allb}}],
                     "env": {"VERIF_WAVES": "200"}},
        "pkg": "internal/app", "test": "TestVerif_Forward",
        "harness_files": ["stack_test.go", "dispatch_test.go", "forward_test.go"],
        "trace": {"module": "ForwardTrace", "cfg": "Forward_trace.cfg"},
        "nontrivial": lambda s: s["body"] not in ("json_small",) or s["lenmode"] == "chunked" or s["query"] != "",
    }
    PROPS["C01"] = {
        "rule": "TLC enumerates request shapes: body class (empty, JSON with/without model, non-JSON, 1 MiB-1, 1 MiB, "
                "1 MiB+1, 3 MiB, 9 MiB; every body of a MiB or more meets a connection reset on its first attempt) x declared/chunked length x route (proxy, provider, translated Anthropic) x query; each "
                "is sent through both engines of the assembled server one at a time and then in waves of 48 concurrent "
                "requests with distinct bodies; the backend's view (method, target, sha256, length, nonce, model) is "
                "validated against what that client sent. Non-trivial = anything but a small declared-length JSON body "
                "without query.",
        "exhaustive": True,
        "assumptions": ["the inspection/aliasing window under concurrency is exercised by stress (no gate hook): waves of 48"],
        "parts": [part],
    }
