"""C10 -- the model catalogue equals what endpoints last reported.

Part "catalogue": spec/Registry.tla (+ RegistryGen.tla random walks, RegistryTrace.tla), harness
harness/c10disc (test, package internal/adapter/discovery) + harness/c10reg (quiescence probe, package
internal/adapter/registry).  Part "filter": spec/Glob.tla + GlobLookup.tla (+ GlobLookupTrace.tla),
harness/c10flt (package internal/adapter/filter)."""


def _rgen(**kw):
    """exhaustive: every operation sequence of length MaxLen"""
    p = {"Eps": '{"e1", "e2"}', "MaxLen": 2, "Listings": "ListingsQuick", "BadLists": "BadQuick",
         "FailKinds": "FailQuick", "Filters": "FiltersNone", "FailBodies": "BodiesOne", "Conc": "FALSE"}
    p.update(kw)
    return {"module": "Registry", "cfg": "Registry_gen.cfg", "params": p}


def _rsim(num, depth, **kw):
    """seeded random walks over the full alphabet: 3 endpoints, all listings / failure kinds / filters,
    bursts and concurrent steps"""
    p = {"Eps": '{"e1", "e2", "e3"}', "MaxLen": depth, "Listings": "ListingsAll", "BadLists": "BadAll",
         "FailKinds": "FailAll", "Filters": "FiltersAll", "FailBodies": "BodiesTwo", "Conc": "TRUE"}
    p.update(kw)
    return {"module": "RegistryGen", "cfg": "Registry_sim.cfg", "params": p,
            "simulate": {"num": num, "depth": depth + 1}}


def _nontrivial(s):
    """a catalogue scenario is non-trivial if some endpoint is updated at least twice or an update is
    rejected / fails / the endpoint is removed after something was registered"""
    names = [o[0] for o in s.get("ops", [])]
    return ("Reg" in names or "Burst" in names or "Par" in names or "Chase" in names or "Swap" in names or "Race" in names) and \
        (len(names) >= 2) and any(n in ("Bad", "Fail", "Rm", "Burst", "Par", "Chase", "Swap", "Race") or names.count("Reg") >= 2 for n in names)


_E3 = '{"e1", "e2", "e3"}'


def register(PROPS, HARNESS_PKGS):
    HARNESS_PKGS["c10reg"] = "internal/adapter/registry"
    HARNESS_PKGS["c10disc"] = "internal/adapter/discovery"
    HARNESS_PKGS["c10flt"] = "internal/adapter/filter"
    PROPS["C10"] = {
        "rule": "status: the status page (GET /internal/status/models) over an unchanging catalogue, 1 or 8 clients at the same moment, every answer validated against the listings. catalogue: TLC enumerates every sequence of N operations {successful listing, rejected list "
                "(nameless entry), failed discovery (500/404/203/204/unparsable/truncated/connection cut), removal} "
                "over 2 endpoints (quick N=2, thorough N=3 and a sample of N=4; also 3 endpoints and per-endpoint "
                "filters) plus seeded random walks (quick 2500 x 4 steps, thorough 60000 x 6 + 10000 x 12) over 3 "
                "endpoints, all listings of <= 2 entries over {m@d1, m@d2, m, M, x::y, p*}, 5 filter configurations, "
                "bursts (two listings of one endpoint back to back) and concurrent steps on distinct endpoints.  Each "
                "scenario runs on the real registry (registry.NewModelRegistry, unified AND plain) through the real "
                "discovery service + HTTP client + profile parsers + glob filter against scripted listings; after "
                "every operation, once all asynchronous merges have run, GetModelsForEndpoint, GetEndpointsForModel, "
                "IsModelAvailable, GetUnifiedModels and GetStats are dumped and compared with the reference "
                "attribution by RegistryTrace.  filter: TLC emits permutations of a whole universe names x "
                "include/exclude configurations (quick 980, thorough 4410 lookups per permutation); all lookups run "
                "on ONE GlobFilter and every answer must equal Glob!Passes(name, patterns).  Non-trivial = an "
                "endpoint is updated again, removed, or an update fails / is rejected after something was registered.",
        "exhaustive": False,
        "assumptions": [
            "success/failure of an update is defined by the environment (HTTP 200 + parsable listing = success), not "
            "by the value DiscoverEndpoint returns",
            "quiescence is established exactly, not by timing: a counting delegate around the unifier (harness/c10reg) "
            "tells when the n-th merge goroutine has run, then unificationMutex is taken once",
            "names that differ only in letter case: lookups are bounded (exact-name endpoints <= answer <= "
            "case-folded endpoints) because the unified catalogue deliberately merges them and the property is silent",
            "filter answers are only generated for (name, pattern) pairs whose result does not depend on case folding "
            "(checked by an ASSUME / invariant CaseFree); an explicit empty include+exclude configuration is never "
            "generated (documentation and code disagree on it)",
            "repetitions of one name inside a listing: the per-endpoint count may be anything between the number of "
            "distinct names and the number of entries",
        ],
        "explanation": "Registry.tla is the reference catalogue: last[e] = filtered names of e's most recent successful "
                       "listing; the four views must equal it (unified: at quiescence).  RegistryTrace replays the "
                       "recorded operations on the reference and requires every dump to agree.",
        "parts": [
            {
                "name": "catalogue",
                "mc": [{"module": "Registry", "cfg": "Registry_mc.cfg", "quick_params": {"MaxLen": 3, "Conc": "TRUE"},
                        "thorough_params": {"MaxLen": 3, "Conc": "TRUE"}}],
                "quick": {"gen": [_rgen(), _rsim(2500, 4)]},
                "thorough": {"gen": [_rgen(MaxLen=3),
                                     _rgen(MaxLen=4),
                                     _rgen(Eps=_E3, Listings="ListingsMid", BadLists="BadAll", FailKinds="FailAll"),
                                     _rgen(Filters="FiltersQuick"),
                                     _rsim(60000, 6), _rsim(10000, 12)],
                             "sample": 150000},
                "pkg": "internal/adapter/discovery", "test": "TestVerif_Catalogue",
                "harness_dirs": ["c10disc", "c10reg"],
                "trace": {"module": "RegistryTrace", "cfg": "Registry_trace.cfg"},
                "nontrivial": _nontrivial,
            },
            {
                "name": "filter",
                "mc": [{"module": "GlobLookup", "cfg": "GlobLookup_mc.cfg"},
                       {"module": "GlobLookup", "cfg": "GlobLookup_universe.cfg",
                        "quick_params": {"Names": "NamesQ", "Configs": "ConfigsQ"},
                        "thorough_params": {"Names": "NamesT", "Configs": "ConfigsT"}}],
                "quick": {"gen": [{"module": "GlobLookup", "cfg": "GlobLookup_gen.cfg",
                                   "params": {"Names": "NamesQ", "Configs": "ConfigsQ", "Strides": "{1, 11, 13}"}}]},
                "thorough": {"gen": [{"module": "GlobLookup", "cfg": "GlobLookup_gen.cfg",
                                      "params": {"Names": "NamesT", "Configs": "ConfigsT",
                                                 "Strides": "{1, 11, 13, 17, 101}"}}]},
                "pkg": "internal/adapter/filter", "test": "TestVerif_GlobLookup",
                "harness_dirs": ["c10flt"],
                "trace": {"module": "GlobLookupTrace", "cfg": "GlobLookup_trace.cfg"},
                "nontrivial": lambda s: len(s) > 100,
            },
            {
                # the counts the status page shows (GET /internal/status/models) over a catalogue that does not
                # change, asked by one client or by eight at the same moment
                "name": "status",
                "mc": [],
                "quick": {"gen": [{"module": "StatusView", "cfg": "StatusView_gen.cfg",
                                   "params": {"Models": '{"alphaone", "bravotwo"}', "Widths": "{1, 8}"}}]},
                "thorough": {"gen": [{"module": "StatusView", "cfg": "StatusView_gen.cfg",
                                      "params": {"Models": '{"alphaone", "bravotwo", "charliethree"}', "Widths": "{1, 8, 24}"}}],
                             "sample": 300},
                "pkg": "internal/app", "test": "TestVerif_StatusView",
                "harness_files": ["stack_test.go", "status_test.go"],
                "trace": {"module": "StatusViewTrace", "cfg": "StatusView_trace.cfg"},
                "nontrivial": lambda s: s["width"] > 1,
            },
        ],
    }
