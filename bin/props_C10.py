"""C10 -- the model catalogue equals what endpoints last reported (Registry.tla, GlobLookup.tla)."""


def _rgen(**kw):
    p = {"Eps": '{"e1", "e2"}', "MaxLen": 2, "Listings": "ListingsQuick", "BadLists": "BadQuick",
         "FailKinds": "FailQuick", "Filters": "FiltersNone", "FailBodies": "BodiesOne", "Conc": "FALSE"}
    p.update(kw)
    return {"module": "Registry", "cfg": "Registry_gen.cfg", "params": p}


def _rsim(num, depth, **kw):
    p = {"Eps": '{"e1", "e2", "e3"}', "MaxLen": depth, "Listings": "ListingsAll", "BadLists": "BadAll",
         "FailKinds": "FailAll", "Filters": "FiltersAll", "FailBodies": "BodiesTwo", "Conc": "TRUE"}
    p.update(kw)
    return {"module": "RegistryGen", "cfg": "Registry_sim.cfg", "params": p,
            "simulate": {"num": num, "depth": depth + 1}}


def _nontrivial(s):
    names = [o[0] for o in s.get("ops", [])]
    return any(n in ("Bad", "Fail", "Rm") for n in names) and "Reg" in names


def register(PROPS, HARNESS_PKGS):
    HARNESS_PKGS["c10reg"] = "internal/adapter/registry"
    HARNESS_PKGS["c10disc"] = "internal/adapter/discovery"
    HARNESS_PKGS["c10flt"] = "internal/adapter/filter"
    PROPS["C10"] = {
        "rule": "TBD",
        "exhaustive": False,
        "assumptions": [],
        "parts": [
            {
                "name": "catalogue",
                "mc": [{"module": "Registry", "cfg": "Registry_mc.cfg", "quick_params": {"MaxLen": 3, "Conc": "TRUE"},
                        "thorough_params": {"MaxLen": 3, "Conc": "TRUE"}}],
                "quick": {"gen": [_rgen(), _rsim(2500, 4)]},
                "thorough": {"gen": [_rgen(MaxLen=3),
                                     _rgen(Eps='{"e1", "e2", "e3"}', Listings="ListingsMid", BadLists="BadAll", FailKinds="FailAll"),
                                     _rgen(Filters="FiltersQuick"),
                                     _rsim(20000, 6), _rsim(4000, 10)],
                             "sample": 45000},
                "pkg": "internal/adapter/discovery", "test": "TestVerif_Catalogue",
                "harness_dirs": ["c10disc", "c10reg"],
                "trace": {"module": "RegistryTrace", "cfg": "Registry_trace.cfg"},
                "nontrivial": _nontrivial,
            },
            {
                "name": "filter",
                "mc": [{"module": "GlobLookup", "cfg": "GlobLookup_mc.cfg"},
                       {"module": "GlobLookup", "cfg": "GlobLookup_universe.cfg",
                        "quick_params": {"Names": "NamesQ", "Configs": "ConfigsQ"},
                        "thorough_params": {"Names": "NamesT", "Configs": "ConfigsT"}}],
                "quick": {"gen": [{"module": "GlobLookup", "cfg": "GlobLookup_gen.cfg",
                                   "params": {"Names": "NamesQ", "Configs": "ConfigsQ", "Strides": "{1, 11, 13}"}}]},
                "thorough": {"gen": [{"module": "GlobLookup", "cfg": "GlobLookup_gen.cfg",
                                      "params": {"Names": "NamesT", "Configs": "ConfigsT", "Strides": "{1, 11, 13, 17, 101}"}}]},
                "pkg": "internal/adapter/filter", "test": "TestVerif_GlobLookup",
                "harness_dirs": ["c10flt"],
                "trace": {"module": "GlobLookupTrace", "cfg": "GlobLookup_trace.cfg"},
                "nontrivial": lambda s: len(s) > 100,
            },
        ],
    }
