"""C10 -- the model catalogue equals what endpoints last reported (Registry.tla, GlobLookup.tla)."""


def _rgen(**kw):
    p = {"Eps": '{"e1", "e2"}', "MaxLen": 2, "Listings": "ListingsQuick", "BadLists": "BadQuick",
         "FailKinds": "FailQuick", "Filters": "FiltersNone"}
    p.update(kw)
    return {"module": "Registry", "cfg": "Registry_gen.cfg", "params": p}


def _nontrivial(s):
    names = [o[0] for o in s.get("ops", [])]
    return any(n in ("Bad", "Fail", "Rm") for n in names) and "Reg" in names


def register(PROPS, HARNESS_PKGS):
    HARNESS_PKGS["c10reg"] = "internal/adapter/registry"
    HARNESS_PKGS["c10disc"] = "internal/adapter/discovery"
    PROPS["C10"] = {
        "rule": "TBD",
        "exhaustive": False,
        "assumptions": [],
        "parts": [
            {
                "name": "catalogue",
                "mc": [{"module": "Registry", "cfg": "Registry_mc.cfg", "quick_params": {"MaxLen": 3},
                        "thorough_params": {"MaxLen": 4}}],
                "quick": {"gen": [_rgen()]},
                "thorough": {"gen": [_rgen()]},
                "pkg": "internal/adapter/discovery", "test": "TestVerif_Catalogue",
                "harness_dirs": ["c10disc", "c10reg"],
                "trace": {"module": "RegistryTrace", "cfg": "Registry_trace.cfg"},
                "nontrivial": _nontrivial,
            },
        ],
    }
