#!/usr/bin/env python3
"""Regenerates /verif/MANIFEST.json from the table below (claimed checks) and properties.jsonl."""
import json, os, sys
V = os.path.dirname(os.path.dirname(os.path.abspath(__file__)))
TECH = "TLA+ spec + TLC model checking + TLC-generated scenarios replayed on the real code + TLC trace validation"
CLAIMS = {
 "C08": ("Three TLA+ automata (HealthBreaker, EngineBreaker, UnifierBreaker) are model-checked exhaustively (safety clauses as action properties, recovery as a liveness property under the caller protocol); TLC then generates a transition cover with all distinguishing suffixes, each scenario is replayed on the real breaker objects with rewound timestamps and TLC validates every recorded answer and projected state against the automaton.",
         "Trusted: TLC, the timestamp-rewind projection of time in the in-package harness, the event-to-action maps in *BreakerTrace.tla. Concurrent interleavings of the atomics are not explored (sequential histories only).",
         "DESIGN.md section 5 C08"),
 "C06": ("Balancer.tla specifies the three selectors over (list, gauge, ticket) state; TLC model-checks membership, top-tier, min-gauge and the n*k round-robin theorem, then enumerates every (list, gauge) input with all six statuses; each input is run through the real selectors from balancer.Factory with the real stats.Collector (sequential, 200 concurrent round-robin tickets, 1500 priority draws) and TLC validates every recorded result.",
         "Trusted: TLC, harness projection endpoint->index. 'Eventually picked' is decided statistically (1500 draws, miss probability < 1e-15). Concurrent least-connections reads are covered only by the sequential min-gauge clause.",
         "DESIGN.md section 5 C06"),
 "C07": ("HealthSched.tla specifies one endpoint's health record (status, consecutive failures, backoff multiplier, next-due), the health breaker (INSTANCE HealthBreaker), the recovery callback and the proxy's second writer; TLC checks classification, the x1,2,4,8,12 schedule, 'a due round is real whenever the breaker admits', bounded real probing under a ticking scheduler and recovery as liveness; TLC-generated transition covers and random walks are replayed on the real HTTPHealthChecker/HealthClient/CircuitBreaker/StaticEndpointRepository/RetryHandler against a scripted HTTP backend with logical time, and every stored record, probe and callback is validated against the spec.",
         "Trusted: TLC, the logical-clock shim (stored timestamps shifted; all model times are whole seconds and no tick sum hits a threshold exactly), scripted backend. One endpoint per scenario; the writer/writer race between a running probe and markEndpointUnhealthy is not scheduled deterministically.",
         "DESIGN.md section 5 C07"),
 "C02": ("Dispatch.tla models a proxied request from candidate snapshot to the client's last byte (attempts, fault plans, failover, engine breaker, gauges, counters); TLC model-checks NoRedispatch/AtMostOnce/GaugeExact/Conserved over 2 endpoints x 2 requests x all fault kinds, then enumerates every fault assignment (9 socket-level fault kinds per endpoint) x engine x balancer x framing plus concurrent bursts; each scenario runs through the fully assembled server (real ServiceManager) against raw-TCP scripted backends that stamp every body token with (endpoint, attempt), and TLC validates the recorded trace: an attempt after the response started, bytes of two attempts, or olla-made text after backend headers are rejected.",
         "Trusted: TLC, harness/lib (backend, raw client, token attribution), event-to-action map. Concurrent bursts only use faults that do not change shared status (ok, reset after bytes).", "DESIGN.md section 5 C02"),
 "C03": ("Same Dispatch specification and full-stack traces, with TLC enumerating boot health (up / 503 / connection refused) per endpoint x model placement x requested model x balancer: every backend contact must be a member of the request's candidate snapshot (healthy at arrival and listing the model), endpoints marked offline by a failed attempt or health round receive nothing until a health round readmits them; second part: Balancer.tla membership clause over every (list, status, priority) input on the real selectors.",
         "Trusted: as C02. Repository writes are ordered by the harness (forced health rounds); overlapping probe writes are not scheduled.", "DESIGN.md section 5 C03"),
 "C04": ("Same Dispatch specification: connection-level failures before any byte (refused, reset) and open engine breakers must lead to the next candidate, each candidate at most once, same request signature on every attempt, failure only when every candidate is tried or skipped, failed endpoints out of rotation (repository polled after every request). TLC enumerates fault assignments for 2-4 endpoints, three-step histories with health rounds, and 11-request breaker-opening sequences; all replayed on the full stack.",
         "Trusted: as C02. Dial timeouts cannot be produced in the sealed sandbox (no black-hole address); that clause is exercised only through refused/reset connections.", "DESIGN.md section 5 C04"),
 "C05": ("Same Dispatch specification, front-end clauses: when no backend produced a response the client gets a status >= 400 with a non-empty body within 3 s, an Anthropic error object on the Anthropic routes (buffered and streaming, translated and passthrough), and a backend's own 4xx/5xx (OpenAI envelope, non-envelope JSON, 20 KB error page) keeps its status. TLC enumerates failure cause x route family x stream x engine x endpoint type.",
         "Trusted: as C02; body classes are computed by the harness from the bytes (JSON shape only).", "DESIGN.md section 5 C05"),
 "C19": ("Same Dispatch specification, statistics clauses: the in-flight gauge is sampled by the backend while it holds each attempt (must equal the number of attempts in flight) and at quiescence gauges must be zero and per-endpoint counters must record every attempt exactly once, as a success iff the client received a complete response with a success status; total = ok + fail at endpoint and global scope.",
         "Trusted: as C02. Model and translator scopes are not compared in this revision; panics inside an attempt are not injected.", "DESIGN.md section 5 C19"),
 "C01": ("Forward.tla states what a backend must receive for a forwarded request (method, path without route prefix, raw query, body byte for byte; for the translated route the same nonce and model) on every attempt; TLC enumerates request shapes (8 body classes incl. the 1 MiB inspection boundary x declared/chunked length x 3 routes x queries); each goes through both engines of the assembled server sequentially (every third request with a connection reset on its first attempt) and then in waves of 48 concurrent requests with distinct bodies; the backend's view is validated against the sender's.",
         "Trusted: TLC, harness (sha256/nonce projection). Cross-request interference is exercised by stress (40 waves quick, 200 thorough), not by a deterministic schedule.", "DESIGN.md section 5 C01"),
 "C09": ("Routing.tla is the strategy x fallback decision table with the handler's obligations (who may be contacted, 404 vs 503, routing headers agree with what was done); TLC enumerates strategy x fallback x refresh x healthy set x listing set x endpoints that dropped the model in a later listing x unified/plain registry x proxy/provider route x chunked body; each row boots the assembled server with that strategy, shapes health and listings through real health checks / re-discovery, sends one request and validates contact, status and headers.",
         "Trusted: TLC, harness. Spelling variants of model names are not enumerated. Two open findings (KF-C09-1, KF-C09-5) are suppressed only through their named deviation actions.", "DESIGN.md section 5 C09"),
 "C11": ("Provider.tla: a provider-prefixed request may only be served by a healthy endpoint whose type the prefix allows (auto counts as any), otherwise an error and no contact; listings under the prefix only contain models of such endpoints. TLC enumerates prefix (12 shipped) x endpoint-type mix x healthy subset; allowed types are read from config/profiles/*.yaml at run time; full stack with typed scripted backends.",
         "Trusted: TLC, harness incl. its YAML reading of routing.prefixes / api.openai_compatible. Only shipped profiles are enumerated.", "DESIGN.md section 5 C11"),
 "C14": ("Passthrough.tla: mode = passthrough iff passthrough is enabled and a healthy candidate's profile declares native Anthropic support; in passthrough every contacted endpoint is native, receives /v1/messages and the client's bytes; otherwise /v1/chat/completions and an OpenAI translation; X-Olla-Mode tells which. TLC enumerates passthrough on/off x stream x type mix x healthy subset x per-endpoint fault; full stack.",
         "Trusted: TLC, harness incl. its YAML reading of api.anthropic_support.enabled and the body-kind classifier.", "DESIGN.md section 5 C14"),
 "C15": ("Headers.tla: upstream header blocks (one per attempt) vs the client's block: no credential or hop-by-hop name (any case, any multiplicity), every other header with the identical ordered value list, client values of Via/X-Forwarded-*/X-Real-IP kept in order with olla's additions after them. TLC enumerates header shapes (case variants, one/two lines, empty values, all 21 names at once, triples) x engine x path (first attempt, failover after reset/refusal, Anthropic passthrough, translated) x random padding headers; full stack with a raw client and raw-recording backends.",
         "Trusted: TLC, harness (line tokenisation). Headers Go's transport owns (Host, Content-Length, Transfer-Encoding, User-Agent, Accept-Encoding) and olla's own X-Proxied-By/X-Model are outside 'other'.", "DESIGN.md section 5 C15"),
 "C16": ("UrlPath.tla: request targets as segment sequences (plain, empty, dot and percent-encoded dot spellings, %2f, ;params, double encoding) in origin/absolute/network-path form x base path x preserve_path x query; a forwarded request must hit the configured listener, keep the raw query, stay under the base path with preserve_path, equal base+rest for clean targets; relative health/model URLs resolve under the base. TLC enumerates all sequences to length 3 (quick) / 4-5 (thorough); full stack with a decoy listener.",
         "Trusted: TLC, harness. One open finding (KF-C16-1, percent-encoded traversal with preserve_path) is suppressed only through its named deviation; the repository's own test asserts that behaviour so it is not repaired.", "DESIGN.md section 5 C16"),
}
NA_REASON = "check not built yet in this revision (planned, see DESIGN.md section 5)"
def main():
    props = [json.loads(l) for l in open(os.path.join(V, "properties.jsonl"))]
    hooks_commits = []
    hp = os.path.join(V, "HOOK_COMMITS.txt")
    if os.path.exists(hp):
        hooks_commits = [l.split()[0] for l in open(hp) if l.strip()]
    checks = []
    for p in props:
        pid = p["id"]
        if pid not in CLAIMS:
            continue
        text, note, ref = CLAIMS[pid]
        checks.append({"property_id": pid, "quick_cmd": "bin/verif check %s --tier quick" % pid,
                       "thorough_cmd": "bin/verif check %s --tier thorough" % pid,
                       "evidence_file": "/verif/evidence/%s.json" % pid,
                       "replay_cmd_template": "bin/verif replay {path}", "engine": "tlc",
                       "level_claimed": {"category": "model_checking", "text": text, "design_ref": ref},
                       "level_note": note, "technique": TECH})
    m = {"version": 1, "setup_cmd": "bin/verif setup",
         "hooks": {"guard": "verif",
                   "enable": "go test -tags verif -vet=off -overlay <overlay.json generated by bin/verif> (harness files under /verif/harness are projected into /repo by the overlay)",
                   "baseline_off_cmd": "cd /repo && GOFLAGS=-mod=mod go test -vet=off -count=1 -timeout 25m ./...",
                   "source_commits": hooks_commits, "add_only": True},
         "engines": [{"name": "tlc", "path": "/verif/bin/verif", "serves_properties": sorted(CLAIMS),
                      "kind_free_text": "TLA+ specifications in /verif/spec checked by TLC (model checking, scenario generation, trace validation); Go harness in /verif/harness projected into /repo with go build -overlay"}],
         "checks": checks,
         "not_applicable": [{"property_id": p["id"], "reason": NA_REASON} for p in props if p["id"] not in CLAIMS],
         "notes": "verdicts come only from TLC; exit 2 = inconclusive; known findings in KNOWN_FINDINGS.json"}
    json.dump(m, open(os.path.join(V, "MANIFEST.json"), "w"), indent=1)
if __name__ == "__main__":
    main()
