def register(PROPS, HARNESS_PKGS):
    HARNESS_PKGS.setdefault("metrics", "internal/adapter/metrics")
    lclasses = '{"ok_new", "notjson", "truncated", "emptybody", "emptylist", "nameless", "duplicates", "wrongtype", "nullentry", "deep", "hugenum", "oversized", "nulbytes"}'
    hclasses = '{"garbage", "hugebody", "nobody", "badchunk", "hdronly", "status999", "longheader"}'
    fields = '{"prompt_eval_count", "eval_count", "total_duration", "eval_duration", "prompt_eval_duration", "usage", "all"}'
    values = '{"normal", "zero", "negative", "huge", "big", "hugeint", "tiny", "nanstr", "infstr", "null", "bool", "object", "array", "string", "mut1", "mut2", "mut3", "mut4", "mut5", "mut6"}'

    def g(formats, mutations):
        return {"module": "Poison", "cfg": "Poison_gen.cfg",
                "params": {"FleetClasses": '{"notjson", "truncated", "http500", "http404", "emptybody", "emptylist"}', "Mutations": mutations, "Classes": lclasses, "HealthClasses": hclasses, "Formats": formats, "Fields": fields, "ValueClasses": values}}
    cat = {
        "name": "answers",
        "mc": [{"module": "Poison", "cfg": "Poison_mc.cfg"}],
        "quick": {"gen": [g('{"openai-compatible", "ollama"}', 30)]},
        "thorough": {"gen": [g('{"openai-compatible", "ollama", "vllm", "lm-studio", "llamacpp", "sglang", "litellm", "lemonade"}', 120)]},
        "pkg": "internal/app", "test": "TestVerif_Poison",
        "harness_files": ["stack_test.go", "dispatch_test.go", "poison_test.go"],
        "trace": {"module": "PoisonTrace", "cfg": "Poison_trace.cfg"},
        "nontrivial": lambda s: s["kind"] not in ("metrics", "fleet") and s["cls"] != "ok_new",
        "panic_is_event": True,
    }
    met = dict(cat)
    met.update({"name": "metrics", "mc": [], "pkg": "internal/adapter/metrics", "test": "TestVerif_MetricsTails",
                "harness_dirs": ["metrics"], "harness_files": ["tails_test.go"],
                "nontrivial": lambda s: s["kind"] == "metrics" and s["value"] not in ("normal",)})
    fleet = dict(cat)
    fleet.update({"name": "fleet", "mc": [], "pkg": "internal/adapter/discovery", "test": "TestVerif_Fleet",
                  "harness_dirs": ["fleet"], "harness_files": ["fleet_test.go"], "panic_is_event": True,
                  "nontrivial": lambda s: s["kind"] == "fleet"})
    HARNESS_PKGS.setdefault("fleet", "internal/adapter/discovery")
    PROPS["C20"] = {
        "rule": "TLC enumerates (operation, response class): model listings of 13 hostile classes (not JSON, truncated, "
                "empty, nameless, duplicates, wrong types, null entries, 20000-deep nesting, 1e999, 12 MiB, NUL bytes) per "
                "provider listing format, 7 health-answer classes (not HTTP, 8 MiB body, bad chunking, short body, "
                "2 MiB header), seeded byte-level mutations of a well-formed listing (bytes flipped, cut, doubled, inserted; 30 per format quick, 120 thorough), and response tails with every metrics field x 14 value classes (and 6 seeded byte-level mutations of the whole tail) per provider; listings "
                "and health answers are served to the assembled server by a scripted backend (re-listing triggered by "
                "a real recovery), after which the catalogue views and a bystander request are recorded; tails go "
                "through the real extractor with the shipped profiles. Non-trivial = anything but the well-formed class.",
        "exhaustive": True,
        "assumptions": ["the property's 'whatever bytes' is covered structurally: classes are enumerated, bytes inside a class are seeded instances; "
                        "plus seeded random mutations of well-formed listings, for which only no-crash / no-hang / views-agree is demanded",
                        "run with the plain registry: the unified catalogue's stale sources are recorded separately (C09/C10 findings)"],
        # third part: error bodies and broken completions on every route (the Dispatch scenarios of C05, which
        # include 130 KB error pages, non-envelope errors, garbage and resets): the operation must end with a result
        # or an error and never hang
        "parts": [cat, met, fleet] + ([dict(PROPS["C05"]["parts"][0], name="errors")] if "C05" in PROPS else []),
    }
