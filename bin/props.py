"""Table of properties -> pipeline parts.  See bin/verif."""

# harness/<dir> -> package directory in /repo the *_test.go files are projected into
HARNESS_PKGS = {
    "health": "internal/adapter/health",
    "olla": "internal/adapter/proxy/olla",
    "unifier": "internal/adapter/unifier",
    "balancer": "internal/adapter/balancer",
    "app": "internal/app",
}


def has_any(tokens):
    def f(scn):
        flat = []
        for s in scn:
            flat.append(s if isinstance(s, str) else s[0])
        return any(t in flat for t in tokens)
    return f


def breaker_nontrivial(scn):
    """a breaker scenario is non-trivial if it can open the breaker (>= 3 Fail) and asks afterwards"""
    names = [s if isinstance(s, str) else s[0] for s in scn]
    return names.count("Fail") >= 2 and "Ask" in names


PROPS = {}

PROPS["C08"] = {
    "rule": "TLC enumerates every sequence of length N over {Ask, Fail, Succ, Tick(d)} per breaker "
            "(all shorter ones are prefixes); each is replayed on the real breaker with rewound "
            "timestamps and every answer + projected state is validated against the automaton. "
            "Non-trivial = the sequence contains >= 2 failures and an Ask.",
    "exhaustive": True,
    "assumptions": ["time passes only through the harness' timestamp rewind (real elapsed time per scenario "
                    "is far below one spec time unit)"],
    "parts": [
        {
            "name": "health",
            "mc": [
                {"module": "HealthBreaker", "cfg": "HealthBreaker_mc.cfg"},
                {"module": "HealthBreaker", "cfg": "HealthBreaker_live.cfg"},
            ],
            "quick": {"gen": [{"module": "HealthBreakerGen", "cfg": "HealthBreaker_gen2.cfg", "params": {"ReachLen": 7, "SufLen": 2}},
                              {"module": "HealthBreaker", "cfg": "HealthBreaker_gen.cfg", "params": {"MaxLen": 4}}]},
            "thorough": {"gen": [{"module": "HealthBreakerGen", "cfg": "HealthBreaker_gen2.cfg", "params": {"ReachLen": 9, "SufLen": 4}},
                                 {"module": "HealthBreaker", "cfg": "HealthBreaker_gen.cfg", "params": {"MaxLen": 6}}]},
            "pkg": "internal/adapter/health", "test": "TestVerif_HealthBreaker",
            "trace": {"module": "HealthBreakerTrace", "cfg": "HealthBreaker_trace.cfg"},
            "nontrivial": breaker_nontrivial,
        },
        {
            "name": "engine",
            "mc": [
                {"module": "EngineBreaker", "cfg": "EngineBreaker_mc.cfg"},
                {"module": "EngineBreaker", "cfg": "EngineBreaker_live.cfg"},
            ],
            "quick": {"gen": [{"module": "EngineBreakerGen", "cfg": "EngineBreaker_gen.cfg", "params": {"ReachLen": 9, "SufLen": 3}}]},
            "thorough": {"gen": [{"module": "EngineBreakerGen", "cfg": "EngineBreaker_gen.cfg", "params": {"ReachLen": 11, "SufLen": 5}}]},
            "pkg": "internal/adapter/proxy/olla", "test": "TestVerif_EngineBreaker",
            "trace": {"module": "EngineBreakerTrace", "cfg": "EngineBreaker_trace.cfg"},
            "nontrivial": breaker_nontrivial,
        },
        {
            "name": "unifier",
            "mc": [
                {"module": "UnifierBreaker", "cfg": "UnifierBreaker_mc.cfg"},
                {"module": "UnifierBreakerLive", "cfg": "UnifierBreaker_live.cfg"},
            ],
            "quick": {"gen": [{"module": "UnifierBreakerGen", "cfg": "UnifierBreaker_gen.cfg", "params": {"ReachLen": 10, "SufLen": 3}}]},
            "thorough": {"gen": [{"module": "UnifierBreakerGen", "cfg": "UnifierBreaker_gen.cfg", "params": {"ReachLen": 12, "SufLen": 5}}]},
            "pkg": "internal/adapter/unifier", "test": "TestVerif_UnifierBreaker",
            "trace": {"module": "UnifierBreakerTrace", "cfg": "UnifierBreaker_trace.cfg"},
            "nontrivial": breaker_nontrivial,
        },
    ],
}

PROPS["C06"] = {
    "rule": "TLC enumerates every (list, gauge-vector) input: lists of n endpoints with status in all six values "
            "and priorities, gauges 0..G.  Each input is run through the three real selectors (balancer.Factory + "
            "real stats.Collector): least-connections with gauge updates, 2n+1 consecutive and 200 concurrent "
            "round-robin tickets, 1500 priority selections.  Non-trivial = at least two routable endpoints.",
    "exhaustive": True,
    "assumptions": ["priority 'eventually picked' is checked statistically: 1500 selections, miss probability of a "
                    "fair selector < 1e-15 per list"],
    "parts": [
        {
            "name": "balancer",
            "mc": [{"module": "Balancer", "cfg": "Balancer_mc.cfg", "quick_params": {"MaxN": 2}, "thorough_params": {"MaxN": 3}}],
            "quick": {"gen": [{"module": "Balancer", "cfg": "Balancer_gen.cfg",
                               "params": {"MaxN": 3, "Prios": "{0, 1}", "MaxGauge": 1}}]},
            "thorough": {"gen": [{"module": "Balancer", "cfg": "Balancer_gen.cfg",
                                  "params": {"MaxN": 4, "Prios": "{0, 1, 2}", "MaxGauge": 1}}], "sample": 150000},
            "pkg": "internal/adapter/balancer", "test": "TestVerif_Balancer",
            "trace": {"module": "BalancerTrace", "cfg": "Balancer_trace.cfg"},
            "nontrivial": lambda s: sum(1 for x in s[0] if x["st"] in ("healthy", "busy", "warming")) >= 2,
        },
    ],
}

_ALLOUT = '{"ok", "http4xx", "http5xx", "refuse", "timeout"}'
PROPS["C07"] = {
    "rule": "TLC generates health-checking scenarios for one endpoint over {SetBackend(outcome), Tick(d), Round, "
            "ProxyFailure}: a transition cover (one shortest scenario per reachable core state of HealthSched) for "
            "restricted outcome alphabets plus seeded random walks over the full alphabet; each runs on the real "
            "HTTPHealthChecker/HealthClient/CircuitBreaker/StaticEndpointRepository/RetryHandler against a scripted "
            "HTTP backend with logical time. Non-trivial = contains a failing outcome or a ProxyFailure.",
    "exhaustive": False,
    "assumptions": ["logical time is implemented by shifting stored timestamps; residual real-time error < 1 s "
                    "never crosses a comparison because all model times are whole seconds"],
    "parts": [
        {
            "name": "sched",
            "mc": [
                {"module": "HealthSched", "cfg": "HealthSched_mc.cfg"},
                {"module": "HealthSched", "cfg": "HealthSched_sched.cfg"},
                {"module": "HealthSched", "cfg": "HealthSched_live.cfg"},
            ],
            "quick": {"gen": [
                {"module": "HealthSchedGen", "cfg": "HealthSched_gen.cfg",
                 "params": {"CIs": "{5}", "Outcomes": '{"ok", "http5xx"}', "Ticks": "{7, 61}", "ReachLen": 18, "SufLen": 0}},
                {"module": "HealthSchedGen", "cfg": "HealthSched_gen.cfg",
                 "params": {"CIs": "{1}", "Outcomes": '{"ok", "http4xx"}', "Ticks": "{7}", "ReachLen": 20, "SufLen": 1}},
                {"module": "HealthSchedGen", "cfg": "HealthSched_sim.cfg", "simulate": {"num": 120, "depth": 30},
                 "params": {"CIs": "{1, 5, 20}", "Outcomes": _ALLOUT, "Ticks": "{7, 31, 61}", "ReachLen": 24, "SufLen": 0}},
            ]},
            "thorough": {"gen": [
                {"module": "HealthSchedGen", "cfg": "HealthSched_gen.cfg",
                 "params": {"CIs": "{1, 5, 20}", "Outcomes": '{"ok", "http5xx", "http4xx"}', "Ticks": "{7, 31, 61}", "ReachLen": 18, "SufLen": 1}},
                {"module": "HealthSchedGen", "cfg": "HealthSched_gen.cfg",
                 "params": {"CIs": "{1, 5}", "Outcomes": '{"ok", "refuse", "timeout"}', "Ticks": "{7, 61}", "ReachLen": 14, "SufLen": 1}},
                {"module": "HealthSchedGen", "cfg": "HealthSched_sim.cfg", "simulate": {"num": 2500, "depth": 40},
                 "params": {"CIs": "{1, 5, 20}", "Outcomes": _ALLOUT, "Ticks": "{7, 31, 61}", "ReachLen": 30, "SufLen": 0}},
            ]},
            "pkg": "internal/adapter/health", "test": "TestVerif_HealthSched",
            "trace": {"module": "HealthSchedTrace", "cfg": "HealthSched_trace.cfg"},
            "nontrivial": lambda s: any((isinstance(x, list) and x[0] in ("SetBackend", "Start") and x[-1] != "ok") or x == "ProxyFailure" for x in s),
        },
    ],
}

_K2 = '{"ok", "http", "refuse", "reset_pre", "close_pre", "garbage", "hdr_then_reset", "reset_after", "close_after"}'
_DISPATCH_PART = {
    "name": "dispatch",
    "mc": [{"module": "Dispatch", "cfg": "Dispatch_mc.cfg"}],
    "quick": {"gen": [
        {"module": "DispatchGen", "cfg": "Dispatch_gen.cfg",
         "params": {"NEPs": "{2}", "GKinds": _K2, "Balancers": '{"priority", "round-robin"}',
                    "Framings": '{"cl", "chunked"}', "Routes": '{"proxy"}', "NSteps": 1, "WithHealth": "FALSE", "Pattern": 0, "BurstN": 1}},
        {"module": "DispatchGen", "cfg": "Dispatch_gen.cfg",
         "params": {"NEPs": "{2}", "GKinds": '{"ok", "reset_after", "reset_pre"}', "Balancers": '{"round-robin"}',
                    "Framings": '{"chunked"}', "Routes": '{"proxy"}', "NSteps": 0, "WithHealth": "FALSE", "Pattern": 1, "BurstN": 6}},
    ]},
    "thorough": {"gen": [
        {"module": "DispatchGen", "cfg": "Dispatch_gen.cfg",
         "params": {"NEPs": "{2, 3}", "GKinds": _K2,
                    "Balancers": '{"priority", "round-robin", "least-connections"}',
                    "Framings": '{"cl", "chunked"}', "Routes": '{"proxy", "provider"}', "NSteps": 1, "WithHealth": "FALSE", "Pattern": 0, "BurstN": 1}},
    ]},
    "pkg": "internal/app", "test": "TestVerif_Dispatch",
    "trace": {"module": "DispatchTrace", "cfg": "Dispatch_trace.cfg", "deque": True},
    "nontrivial": lambda s: any(k != "ok" for st in s["steps"] if st["op"] == "req" for k in st["plans"].values()),
}
PROPS["C02"] = {
    "rule": "TLC enumerates fault assignments (every endpoint x fault kind incl. refused, reset before/after "
            "bytes, truncated, garbage) x engine x balancer x framing; each runs through the fully assembled "
            "server with socket-level scripted backends and a raw client; the trace is validated against Dispatch. "
            "Non-trivial = at least one endpoint misbehaves.",
    "exhaustive": True,
    "assumptions": ["backends stamp every body token with (endpoint, attempt); attribution of delivered bytes is by token"],
    "parts": [_DISPATCH_PART],
}
