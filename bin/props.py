"""Table of properties -> pipeline parts.  See bin/verif."""

# harness/<dir> -> package directory in /repo the *_test.go files are projected into
HARNESS_PKGS = {
    "health": "internal/adapter/health",
    "olla": "internal/adapter/proxy/olla",
    "unifier": "internal/adapter/unifier",
    "balancer": "internal/adapter/balancer",
    "app": "internal/app",
}


def has_any(tokens):
    def f(scn):
        flat = []
        for s in scn:
            flat.append(s if isinstance(s, str) else s[0])
        return any(t in flat for t in tokens)
    return f


def breaker_nontrivial(scn):
    """a breaker scenario is non-trivial if it can open the breaker (>= 3 Fail) and asks afterwards"""
    names = [s if isinstance(s, str) else s[0] for s in scn]
    return names.count("Fail") >= 2 and "Ask" in names


PROPS = {}

PROPS["C08"] = {
    "rule": "TLC enumerates every sequence of length N over {Ask, Fail, Succ, Tick(d)} per breaker "
            "(all shorter ones are prefixes); each is replayed on the real breaker with rewound "
            "timestamps and every answer + projected state is validated against the automaton. "
            "Non-trivial = the sequence contains >= 2 failures and an Ask.",
    "exhaustive": True,
    "assumptions": ["time passes only through the harness' timestamp rewind (real elapsed time per scenario "
                    "is far below one spec time unit)"],
    "parts": [
        {
            "name": "health",
            "mc": [
                {"module": "HealthBreaker", "cfg": "HealthBreaker_mc.cfg"},
                {"module": "HealthBreaker", "cfg": "HealthBreaker_live.cfg"},
            ],
            "quick": {"gen": [{"module": "HealthBreakerGen", "cfg": "HealthBreaker_gen2.cfg", "params": {"ReachLen": 7, "SufLen": 2}},
                              {"module": "HealthBreaker", "cfg": "HealthBreaker_gen.cfg", "params": {"MaxLen": 4}}]},
            "thorough": {"gen": [{"module": "HealthBreakerGen", "cfg": "HealthBreaker_gen2.cfg", "params": {"ReachLen": 9, "SufLen": 4}},
                                 {"module": "HealthBreaker", "cfg": "HealthBreaker_gen.cfg", "params": {"MaxLen": 6}}],
                         "sample": 250000},
            "pkg": "internal/adapter/health", "test": "TestVerif_HealthBreaker", "harness_files": ["breaker_test.go"],
            "trace": {"module": "HealthBreakerTrace", "cfg": "HealthBreaker_trace.cfg"},
            "nontrivial": breaker_nontrivial,
        },
        {
            "name": "engine",
            "mc": [
                {"module": "EngineBreaker", "cfg": "EngineBreaker_mc.cfg"},
                {"module": "EngineBreaker", "cfg": "EngineBreaker_live.cfg"},
            ],
            "quick": {"gen": [{"module": "EngineBreakerGen", "cfg": "EngineBreaker_gen.cfg", "params": {"ReachLen": 9, "SufLen": 3}}]},
            "thorough": {"gen": [{"module": "EngineBreakerGen", "cfg": "EngineBreaker_gen.cfg", "params": {"ReachLen": 11, "SufLen": 5}}]},
            "pkg": "internal/adapter/proxy/olla", "test": "TestVerif_EngineBreaker",
            "trace": {"module": "EngineBreakerTrace", "cfg": "EngineBreaker_trace.cfg"},
            "nontrivial": breaker_nontrivial,
        },
        {
            "name": "unifier",
            "mc": [
                {"module": "UnifierBreaker", "cfg": "UnifierBreaker_mc.cfg"},
                {"module": "UnifierBreakerLive", "cfg": "UnifierBreaker_live.cfg"},
                {"module": "UnifierBreakerConc", "cfg": "UnifierBreakerConc_mc.cfg"},
            ],
            "quick": {"gen": [{"module": "UnifierBreakerGen", "cfg": "UnifierBreaker_gen.cfg", "params": {"ReachLen": 10, "SufLen": 3, "Races": "{2, 5}"}}]},
            "thorough": {"gen": [{"module": "UnifierBreakerGen", "cfg": "UnifierBreaker_gen.cfg", "params": {"ReachLen": 11, "SufLen": 4, "Races": "{2, 5}"}}]},
            "pkg": "internal/adapter/unifier", "test": "TestVerif_UnifierBreaker",
            "trace": {"module": "UnifierBreakerTrace", "cfg": "UnifierBreaker_trace.cfg"},
            "nontrivial": breaker_nontrivial,
        },
    ],
}

PROPS["C06"] = {
    "rule": "TLC enumerates every (list, gauge-vector) input: lists of n endpoints with status in all six values "
            "and priorities, gauges 0..G.  Each input is run through the three real selectors (balancer.Factory + "
            "real stats.Collector): least-connections with gauge updates, 2n+1 consecutive and 200 concurrent "
            "round-robin tickets, 1500 priority selections.  Non-trivial = at least two routable endpoints.",
    "exhaustive": True,
    "assumptions": ["priority 'eventually picked' is checked statistically: 1500 selections, miss probability of a "
                    "fair selector < 1e-15 per list"],
    "parts": [
        {
            "name": "balancer",
            "mc": [{"module": "Balancer", "cfg": "Balancer_mc.cfg", "quick_params": {"MaxN": 2}, "thorough_params": {"MaxN": 3}}],
            "quick": {"gen": [{"module": "Balancer", "cfg": "Balancer_gen.cfg",
                               "params": {"MaxN": 3, "Prios": "{0, 1}", "MaxGauge": 1}}]},
            "thorough": {"gen": [{"module": "Balancer", "cfg": "Balancer_gen.cfg",
                                  "params": {"MaxN": 4, "Prios": "{0, 1, 2}", "MaxGauge": 1}}], "sample": 150000},
            "pkg": "internal/adapter/balancer", "test": "TestVerif_Balancer",
            "trace": {"module": "BalancerTrace", "cfg": "Balancer_trace.cfg"},
            "nontrivial": lambda s: sum(1 for x in s[0] if x["st"] in ("healthy", "busy", "warming")) >= 2,
        },
    ],
}

_ALLOUT = '{"ok", "http4xx", "http5xx", "refuse", "timeout", "eof"}'
PROPS["C07"] = {
    "rule": "TLC generates health-checking scenarios for one endpoint over {SetBackend(outcome), Tick(d), Round, "
            "ProxyFailure}: a transition cover (one shortest scenario per reachable core state of HealthSched) for "
            "restricted outcome alphabets plus seeded random walks over the full alphabet; each runs on the real "
            "HTTPHealthChecker/HealthClient/CircuitBreaker/StaticEndpointRepository/RetryHandler against a scripted "
            "HTTP backend with logical time. Non-trivial = contains a failing outcome or a ProxyFailure.",
    "exhaustive": False,
    "assumptions": ["logical time is implemented by shifting stored timestamps; residual real-time error < 1 s "
                    "never crosses a comparison because all model times are whole seconds"],
    "parts": [
        {
            "name": "sched",
            "mc": [
                {"module": "HealthSched", "cfg": "HealthSched_mc.cfg"},
                {"module": "HealthSched", "cfg": "HealthSched_sched.cfg"},
                {"module": "HealthSched", "cfg": "HealthSched_live.cfg"},
            ],
            "quick": {"gen": [
                {"module": "HealthSchedGen", "cfg": "HealthSched_gen.cfg",
                 "params": {"CIs": "{5}", "Outcomes": '{"ok", "http5xx"}', "Ticks": "{7, 61}", "ReachLen": 18, "SufLen": 0}},
                {"module": "HealthSchedGen", "cfg": "HealthSched_gen.cfg",
                 "params": {"CIs": "{1}", "Outcomes": '{"ok", "http4xx"}', "Ticks": "{7}", "ReachLen": 20, "SufLen": 1}},
                # a check_interval above the 60 s cap: a failing endpoint is probed again within the cap from the first failure on
                {"module": "HealthSchedGen", "cfg": "HealthSched_gen.cfg",
                 "params": {"CIs": "{120}", "Outcomes": '{"ok", "http5xx"}', "Ticks": "{61}", "ReachLen": 14, "SufLen": 0}},
                {"module": "HealthSchedGen", "cfg": "HealthSched_sim.cfg", "simulate": {"num": 120, "depth": 30},
                 "params": {"CIs": "{1, 5, 20}", "Outcomes": _ALLOUT, "Ticks": "{7, 31, 61}", "ReachLen": 24, "SufLen": 0}},
            ]},
            "thorough": {"gen": [
                {"module": "HealthSchedGen", "cfg": "HealthSched_gen.cfg",
                 "params": {"CIs": "{1, 5, 20}", "Outcomes": '{"ok", "http5xx", "http4xx"}', "Ticks": "{7, 31, 61}", "ReachLen": 18, "SufLen": 1}},
                {"module": "HealthSchedGen", "cfg": "HealthSched_gen.cfg",
                 "params": {"CIs": "{1, 5}", "Outcomes": '{"ok", "refuse", "timeout"}', "Ticks": "{7, 61}", "ReachLen": 14, "SufLen": 1}},
                {"module": "HealthSchedGen", "cfg": "HealthSched_sim.cfg", "simulate": {"num": 2500, "depth": 40},
                 "params": {"CIs": "{1, 5, 20}", "Outcomes": _ALLOUT, "Ticks": "{7, 31, 61}", "ReachLen": 30, "SufLen": 0}},
            ], "sample": 30000},
            "pkg": "internal/adapter/health", "test": "TestVerif_HealthSched", "harness_files": ["sched_test.go", "breaker_test.go"],
            "trace": {"module": "HealthSchedTrace", "cfg": "HealthSched_trace.cfg"},
            "nontrivial": lambda s: any((isinstance(x, list) and x[0] in ("SetBackend", "Start") and x[-1] != "ok") or x == "ProxyFailure" for x in s),
        },
        {
            # the RUNNING checker (StartChecking, its own ticker) in real time: the gaps between the probes the backend
            # sees follow check_interval x 1, 2, 4, .. (HealthTick.tla judges the measurements)
            "name": "ticker",
            "mc": [],
            "quick": {"gen": [{"module": "HealthTick", "cfg": "HealthTick_gen.cfg", "params": {"Intervals": "{1000, 2000}"}}]},
            "thorough": {"gen": [{"module": "HealthTick", "cfg": "HealthTick_gen.cfg", "params": {"Intervals": "{1000, 2000, 5000}"}}]},
            "pkg": "internal/adapter/health", "test": "TestVerif_HealthTick",
            "harness_files": ["tick_test.go"],
            "trace": {"module": "HealthTickTrace", "cfg": "HealthTick_trace.cfg"},
            "nontrivial": lambda s: True,
        },
    ],
}

_K2 = '{"ok", "http", "refuse", "reset_pre", "close_pre", "garbage", "hdr_then_reset", "reset_after", "close_after"}'


def dgen(**kw):
    """parameters for Dispatch_gen.cfg with defaults"""
    p = {"NEPs": "{2}", "GKinds": _K2, "Balancers": '{"priority"}', "Framings": '{"cl"}', "Routes": '{"proxy"}',
         "NSteps": 1, "WithHealth": "FALSE", "Pattern": 0, "BurstN": 1, "Placements": '{"all"}',
         "ReqModels": '{"m1"}', "BootKinds": '{"up"}', "EpTypes": '{"openai-compatible"}', "Twins": "{FALSE}"}
    p.update(kw)
    return {"module": "DispatchGen", "cfg": "Dispatch_gen.cfg", "params": p}


_G_SINGLE2 = dgen(Balancers='{"priority", "round-robin"}', Framings='{"cl", "chunked"}')
_G_BURST = dgen(GKinds='{"ok", "reset_after"}', Balancers='{"round-robin"}', Framings='{"chunked"}', Pattern=1, BurstN=8)
_G_BURST3 = dgen(GKinds='{"ok", "reset_after"}', Balancers='{"round-robin"}', Framings='{"chunked"}', Pattern=5, BurstN=8)
_G_SINGLE3 = dgen(NEPs="{2, 3}", Balancers='{"priority", "round-robin", "least-connections"}',
                  Framings='{"cl", "chunked"}', Routes='{"proxy", "provider"}')
# every endpoint carries the same configured name: the failed one, not its namesake, leaves the candidate list
_G_TWINS = dict(dgen(NEPs="{2, 3}", GKinds='{"ok", "refuse", "reset_pre"}', Balancers='{"priority", "round-robin", "least-connections"}', Twins="{TRUE}"), always=True)
_G_FOUR = dgen(NEPs="{4}", GKinds='{"ok", "reset_pre", "refuse"}', Balancers='{"round-robin"}')
_G_TWOSTEP = dgen(GKinds='{"ok", "refuse", "reset_pre", "reset_after"}', Balancers='{"round-robin"}', NSteps=3, WithHealth="TRUE")
_G_BREAKER = dgen(GKinds='{"ok", "garbage", "close_pre"}', Balancers='{"round-robin"}', Pattern=4)
_G_ELIG = dgen(NEPs="{2, 3}", GKinds='{"ok", "reset_pre"}', Balancers='{"priority", "round-robin", "least-connections"}',
               Placements='{"all", "split"}', ReqModels='{"m1", "m2", "mx"}', BootKinds='{"up", "sick", "dead"}')

_G_PANIC = dgen(NEPs="{1, 2}", GKinds='{"ok", "panic", "reset_pre"}', Balancers='{"round-robin"}', NSteps=2)

# dial timeouts (C04: "unreachable or timed out"): a black-holed backend next to working / refusing ones
_G_DIALTO = dgen(NEPs="{2, 3}", GKinds='{"ok", "dial_timeout", "refuse"}', Balancers='{"priority", "round-robin"}')

_DISPATCH_BASE = {
    "name": "dispatch",
    "mc": [{"module": "Dispatch", "cfg": "Dispatch_mc.cfg"}],
    "pkg": "internal/app", "test": "TestVerif_Dispatch", "harness_files": ["stack_test.go", "dispatch_test.go"],
    "trace": {"module": "DispatchTrace", "cfg": "Dispatch_trace.cfg", "deque": True, "params": {"Scopes": "{}"}},
    "nontrivial": lambda s: any(k != "ok" for st in s["steps"] if st["op"] != "health" for k in st["plans"].values())
                            or any(b != "up" for b in s.get("boot", {}).values()),
}


def dpart(quick, thorough, sample_thorough=None):
    p = dict(_DISPATCH_BASE)
    p["quick"] = {"gen": quick}
    p["thorough"] = {"gen": thorough}
    if sample_thorough:
        p["thorough"]["sample"] = sample_thorough
    return p


_DISPATCH_RULE = ("TLC enumerates fault assignments (every endpoint x fault kind incl. refused, reset before/after "
                  "bytes, truncated, garbage) x engine x balancer x framing, concurrent bursts, breaker-opening "
                  "sequences, model placement and boot health; each runs through the fully assembled server with "
                  "socket-level scripted backends and a raw client; the trace is validated against Dispatch. "
                  "Non-trivial = at least one endpoint misbehaves or is not healthy at boot.")
# a 200 answer without a Content-Type, cut after it had started
_G_NOCT = dict(dgen(GKinds='{"ok", "cut_noct", "refuse"}', Balancers='{"round-robin"}', Framings='{"cl", "chunked"}', Routes='{"proxy", "provider"}'), always=True)
PROPS["C02"] = {
    "rule": _DISPATCH_RULE, "exhaustive": True,
    "assumptions": ["backends stamp every body token with (endpoint, attempt); attribution of delivered bytes is by token"],
    "parts": [dpart([_G_SINGLE2, _G_BURST, _G_NOCT], [_G_SINGLE3, _G_BURST, _G_BURST3, _G_TWOSTEP, _G_NOCT], 6000)],
}

PROPS["C04"] = {
    "rule": _DISPATCH_RULE, "exhaustive": False,
    "assumptions": ["'timed out' dial failures are produced by black-holing a backend's address (raw listening socket "
                    "with a full accept queue), connection timeout 600 ms in those stacks"],
    "parts": [dpart([_G_SINGLE2, _G_FOUR, _G_BREAKER, _G_TWOSTEP, _G_DIALTO, _G_TWINS], [_G_SINGLE3, _G_FOUR, _G_BREAKER, _G_TWOSTEP, _G_DIALTO, _G_TWINS], 8000)],
}
PROPS["C04"]["parts"][0]["quick"]["sample"] = 1200

PROPS["C03"] = {
    "rule": _DISPATCH_RULE + " Second part: the Balancer inputs of C06 (every list x status x priority) for the "
            "'member of the list it was given or an error' clause.",
    "exhaustive": False,
    "assumptions": ["writes to the repository are ordered by the harness (health rounds are forced, not timed)"],
    "parts": [dpart([_G_ELIG, _G_TWOSTEP], [_G_ELIG, _G_TWOSTEP, _G_SINGLE3], 9000), PROPS["C06"]["parts"][0]],
}
PROPS["C03"]["parts"][0]["quick"]["sample"] = 900

_G_FAIL = dgen(NEPs="{1, 2}", GKinds='{"ok", "http", "http_big", "http_alt", "http_text", "http_empty", "st099", "refuse", "reset_pre"}', Balancers='{"priority"}',
               Routes='{"proxy", "provider", "anthropic", "anthropic_stream"}', ReqModels='{"m1", "mx", "mctl"}',
               BootKinds='{"up", "sick"}')
_G_FAIL_NATIVE = dgen(NEPs="{1, 2}", GKinds='{"http", "http_alt", "refuse", "reset_pre"}', Balancers='{"priority"}',
                      Routes='{"anthropic", "anthropic_stream"}', EpTypes='{"vllm"}')
# translated routes whose backend dies after its response has started: no finished-looking message may come out
_G_TRCUT = dict(dgen(GKinds='{"ok", "hdr_then_reset", "reset_after", "refuse"}', Balancers='{"round-robin"}', Framings='{"chunked"}',
                     Routes='{"anthropic", "anthropic_stream"}'), always=True)
# translator scope of the statistics (C19): translated and passthrough Anthropic routes over attempt outcomes
_G_TRSTATS = dgen(GKinds='{"ok", "http", "refuse", "reset_pre", "reset_after"}', Balancers='{"round-robin"}',
                  Routes='{"anthropic", "anthropic_stream"}')
_G_TRSTATS_NATIVE = dgen(GKinds='{"ok", "http", "refuse", "reset_after"}', Balancers='{"round-robin"}',
                         Routes='{"anthropic", "anthropic_stream"}', EpTypes='{"vllm"}')
# every candidate skipped because its engine breaker is open while the endpoints are still listed healthy:
# still a failure the client must see as one (11 requests under round-robin open both breakers)
_G_ALLOPEN = dict(dgen(GKinds='{"garbage", "close_pre"}', Balancers='{"round-robin"}', Pattern=4,
                       Routes='{"proxy", "anthropic", "anthropic_stream"}'), always=True)
PROPS["C05"] = {
    "rule": _DISPATCH_RULE + " For C05 the grid is failure cause (no healthy endpoint, unknown model, all refuse, all "
            "reset, backend 5xx) x route family (proxy, provider, Anthropic buffered, Anthropic streaming) x engine.",
    "exhaustive": False,
    "assumptions": ["'promptly' = the client has its answer within 3 s while every configured timeout is >= 10 s"],
    "parts": [dpart([_G_FAIL, _G_FAIL_NATIVE, _G_ALLOPEN, _G_TRCUT], [_G_FAIL, _G_FAIL_NATIVE, _G_SINGLE2, _G_ALLOPEN, _G_TRCUT])],
}
PROPS["C05"]["parts"][0]["quick"]["sample"] = 900

# an error status whose body is cut short: still exactly one failed attempt in every counter
_G_HTTPCUT = dict(dgen(GKinds='{"ok", "http_cut", "http"}', Balancers='{"round-robin"}', Framings='{"cl", "chunked"}'), always=True)
# the client walks away from a slow, healthy answer after its first bytes; the next step samples the gauges again
_G_CABORT = dict(dgen(GKinds='{"ok", "cabort", "refuse"}', Balancers='{"round-robin"}', Framings='{"cl", "chunked"}', NSteps=2), always=True)
_G_CABORT_TR = dict(dgen(GKinds='{"cabort", "refuse"}', Balancers='{"round-robin"}', Framings='{"chunked"}', Routes='{"anthropic_stream"}', NSteps=2), always=True)
# the global and the translator scope of the statistics are C19's own clauses (and KF-C19-3 is C19's finding)
_C19_TRACE = dict(_DISPATCH_BASE["trace"], params={"Scopes": '{"global", "translator", "model"}'})
PROPS["C19"] = {
    "rule": _DISPATCH_RULE + " For C19 the in-flight gauge is sampled by the backend while it holds each attempt and "
            "all gauges/counters are read at quiescence.",
    "exhaustive": False,
    "assumptions": ["quiescence = all clients returned and the collector's numbers unchanged for 150 ms"],
    "parts": [dict(dpart([_G_SINGLE2, _G_BURST, _G_BREAKER, _G_TRSTATS, _G_TRSTATS_NATIVE, _G_HTTPCUT, _G_CABORT, _G_CABORT_TR],
                         [_G_SINGLE3, _G_BURST, _G_BREAKER, _G_TWOSTEP, _G_FAIL, _G_TRSTATS, _G_TRSTATS_NATIVE, _G_HTTPCUT, _G_CABORT, _G_CABORT_TR], 8000),
                   trace=_C19_TRACE),
              dict(dpart([_G_PANIC], [_G_PANIC]), name="panic", mc=[], env={"VERIF_PAR": "1"}, trace=_C19_TRACE)],
}


# ---------------------------------------------------------------------------
# property fragments: bin/props_<ID>.py each define PROPS entries via register(PROPS, HARNESS_PKGS)
def _load_fragments():
    import glob as _glob, importlib.util as _ilu, os as _os
    here = _os.path.dirname(_os.path.abspath(__file__))
    for f in sorted(_glob.glob(_os.path.join(here, "props_*.py"))):
        spec = _ilu.spec_from_file_location(_os.path.basename(f)[:-3], f)
        mod = _ilu.module_from_spec(spec)
        spec.loader.exec_module(mod)
        mod.register(PROPS, HARNESS_PKGS)


_load_fragments()
