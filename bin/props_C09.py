def register(PROPS, HARNESS_PKGS):
    part = {
        "name": "routing",
        "mc": [{"module": "Routing", "cfg": "Routing_mc.cfg"}],
        "quick": {"gen": [{"module": "Routing", "cfg": "Routing_gen.cfg", "params": {"EP": '{"e1", "e2"}'}}], "sample": 600},
        "thorough": {"gen": [{"module": "Routing", "cfg": "Routing_gen.cfg", "params": {"EP": '{"e1", "e2", "e3"}'}}]},
        "pkg": "internal/app", "test": "TestVerif_Routing",
        "harness_files": ["stack_test.go", "dispatch_test.go", "routing_test.go"],
        "trace": {"module": "RoutingTrace", "cfg": "Routing_trace.cfg"},
        "nontrivial": lambda s: not (set(s["H"]) & set(s["L"])),
    }
    PROPS["C09"] = {
        "rule": "TLC enumerates the whole decision table: strategy x fallback x refresh-on-miss x healthy set H x "
                "listing set L (x unified/plain registry x proxy/provider route); each row boots the assembled server "
                "with that routing strategy, makes the endpoints outside H unhealthy through real health checks, "
                "sends one request for the model and records who was contacted, the client status and the "
                "routing-decision headers. Non-trivial = no healthy endpoint lists the model.",
        "exhaustive": True,
        "assumptions": ["model spelling variants (case, tags, aliases) are not enumerated in this revision"],
        "parts": [part],
    }
