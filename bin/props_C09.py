_VARIANTS = '{"case", "tag", "uid", "alias"}'


def register(PROPS, HARNESS_PKGS):
    part = {
        "name": "routing",
        "mc": [{"module": "Routing", "cfg": "Routing_mc.cfg"}],
        "quick": {"gen": [{"module": "Routing", "cfg": "Routing_gen.cfg", "params": {"EP": '{"e1", "e2"}', "Spellings": '{"exact"}', "CTypes": '{"json"}'}},
                          {"module": "Routing", "cfg": "Routing_gen.cfg", "params": {"EP": '{"e1", "e2"}', "Spellings": _VARIANTS, "CTypes": '{"json"}'}},
                          {"module": "Routing", "cfg": "Routing_gen.cfg", "params": {"EP": '{"e1", "e2"}', "Spellings": '{"exact"}', "CTypes": '{"form", "none", "bigjson", "oddpath"}'}}], "sample": 1100},
        "thorough": {"gen": [{"module": "Routing", "cfg": "Routing_gen.cfg", "params": {"EP": '{"e1", "e2", "e3"}', "Spellings": '{"exact"}', "CTypes": '{"json"}'}},
                             {"module": "Routing", "cfg": "Routing_gen.cfg", "params": {"EP": '{"e1", "e2"}', "Spellings": _VARIANTS, "CTypes": '{"json"}'}},
                             {"module": "Routing", "cfg": "Routing_gen.cfg", "params": {"EP": '{"e1", "e2"}', "Spellings": '{"exact"}', "CTypes": '{"form", "none", "bigjson", "oddpath"}'}}]},
        "pkg": "internal/app", "test": "TestVerif_Routing",
        "harness_files": ["stack_test.go", "dispatch_test.go", "routing_test.go"],
        "trace": {"module": "RoutingTrace", "cfg": "Routing_trace.cfg"},
        "nontrivial": lambda s: not (set(s["H"]) & set(s["L"])),
    }
    PROPS["C09"] = {
        "rule": "TLC enumerates the whole decision table: strategy x fallback x refresh-on-miss x healthy set H x "
                "listing set L (x unified/plain registry x proxy/provider route x how the request spells the model: native name, other letter case, ':latest' added, unified id, alias; x the Content-Type the client put on its JSON body: application/json, curl -d's form default, none; and a 1.6 MiB body, beyond the inspector's window; and a path no profile declares); each row boots the assembled server "
                "with that routing strategy, makes the endpoints outside H unhealthy through real health checks, "
                "sends one request for the model and records who was contacted, the client status and the "
                "routing-decision headers. Non-trivial = no healthy endpoint lists the model.",
        "exhaustive": True,
        "assumptions": ["spellings: the native name, the unified id and an alias as olla's own catalogue publishes them count as listed; "
                        "another letter case or an added ':latest' tag may be taken for the listed model or for an unknown one, nothing else"],
        "parts": [part],
    }
