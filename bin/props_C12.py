"""C12 — Anthropic requests keep their meaning when translated to OpenAI form (spec/AnthropicReq.tla)."""


def _g(**kw):
    p = {"MaxMsgs": 3, "MaxBlocks": 2, "Alphabet": "small", "Roles": "alt", "Bases": '{"default"}',
         "MaxDev": 0, "OnlyBases": "FALSE", "DevAnywhere": "FALSE", "WalkLen": 0}
    p.update(kw)
    return {"module": "AnthropicReqGen", "cfg": "AnthropicReq_gen.cfg", "params": p}


def _walks(num, depth):
    """seeded random walks: long conversations over the full alphabet with interleaved configuration changes"""
    g = _g(MaxMsgs=6, MaxBlocks=3, Alphabet="full", Roles="any", Bases='{"default", "rich"}', MaxDev=3, DevAnywhere="TRUE", WalkLen=depth)
    g["simulate"] = {"num": num, "depth": depth + 1}
    return g


def _nontrivial(s):
    """a request is non-trivial if it carries a tool call or a tool result, or is a refused one"""
    c = s["cfg"]
    if any(b["k"] in ("use", "result") for m in s["msgs"] for b in m["blocks"]):
        return True
    return c["body"] != "ok" or c["model"] != "ok" or c["maxtok"] != "ok" or c["temp"] in ("hi", "neg") \
        or c["topp"] in ("hi", "neg") or not s["msgs"]


def register(PROPS, HARNESS_PKGS):
    HARNESS_PKGS["anthropicreq"] = "internal/adapter/translator/anthropic"
    HARNESS_PKGS["anthropicreqlib"] = "internal/zzverifc12"
    PROPS["C12"] = {
        "rule": "TLC enumerates abstract Anthropic requests: conversations (<= 3 turns x <= 3 blocks over text / "
                "tool_use / tool_result / image / empty text, string or block content) and configurations (every "
                "top-level field present / absent / out of range / wrong type, system string or blocks, 0..2 tools, "
                "every tool_choice form, unknown field, malformed body; all pairs resp. triples of deviations from "
                "two base configurations).  Each is concretised with seeded random unicode strings and nested JSON, "
                "run through the real Translator.TransformRequest (and, second part, through the assembled server "
                "to a recording backend) and the abstract projection of the produced OpenAI request is validated "
                "against the Preserves relation.  Non-trivial = carries a tool call / tool result, or must be refused.",
        "exhaustive": False,
        "assumptions": ["JSON-equal = equal after decoding with IEEE-754 doubles (integers beyond 2^53 are not generated)",
                        "image blocks are documented as unsupported: their loss is not counted",
                        "how adjacent text fragments are joined (separator, one or several messages) is not constrained"],
        "parts": [
            {
                "name": "translate",
                "mc": [{"module": "AnthropicReq", "cfg": "AnthropicReq_mc.cfg"}],
                "quick": {"gen": [
                    _g(MaxMsgs=3, MaxBlocks=2),
                    _g(MaxMsgs=1, MaxBlocks=3, Alphabet="full", Roles="any"),
                    _g(Bases='{"default", "rich"}', MaxDev=2, OnlyBases="TRUE"),
                    _walks(40, 12),
                ]},
                "thorough": {"gen": [
                    _g(MaxMsgs=3, MaxBlocks=3),
                    _g(MaxMsgs=2, MaxBlocks=2, Alphabet="full", Roles="any"),
                    _g(Bases='{"default", "rich"}', MaxDev=3, OnlyBases="TRUE"),
                    _walks(5000, 14),
                ], "sample": 320000},
                "pkg": "internal/adapter/translator/anthropic", "test": "TestVerif_AnthropicReq",
                "harness_dirs": ["anthropicreq", "anthropicreqlib"],
                "trace": {"module": "AnthropicReqTrace", "cfg": "AnthropicReq_trace.cfg"},
                "nontrivial": _nontrivial,
            },
            {
                # the same requests through the assembled server: what the recording backend received, and
                # for refused requests the client's 400 / Anthropic error body / nothing upstream
                "name": "handler",
                "mc": [],
                "quick": {"gen": [
                    _g(MaxMsgs=3, MaxBlocks=1),
                    _g(MaxMsgs=1, MaxBlocks=2, Alphabet="full", Roles="any"),
                    _g(Bases='{"default", "rich"}', MaxDev=1, OnlyBases="TRUE"),
                ]},
                "thorough": {"gen": [
                    _g(MaxMsgs=3, MaxBlocks=2),
                    _g(MaxMsgs=1, MaxBlocks=3, Alphabet="full", Roles="any"),
                    _g(Bases='{"default", "rich"}', MaxDev=2, OnlyBases="TRUE"),
                ], "sample": 12000},
                "pkg": "internal/app", "test": "TestVerif_AnthropicReqHTTP",
                "harness_dirs": ["app", "anthropicreqlib"],
                "harness_files": ["stack_test.go", "anthropicreq_test.go", "c12lib.go"],
                "trace": {"module": "AnthropicReqTrace", "cfg": "AnthropicReq_trace.cfg"},
                "nontrivial": _nontrivial,
            },
        ],
    }
