"""C16 — upstream URLs stay on the configured endpoint and under its base path (spec/UrlPath.tla)."""

_FULL = '{"a", "b", "", ".", "..", "%2e%2e", "%2E.", "..%2f", "%2f", "a;p", "%252e%252e"}'
_DOTS = '{"a", "..", "%2e%2e", "%2E.", "..%2f"}'
_DEEP = '{"a", "", "%2e%2e", "..%2f", "%252e%252e"}'
_FEW = '{"a", "%2e%2e", "a;p"}'
_ALLB = '{"none", "root", "base", "nested"}'
_Q1 = '"x=1&y=%2F..%2F"'
_Q2 = '"p=../../etc&q=%2e%2e//h?x&&=;+%20"'
_Q3 = '"a=1#frag&b=2"'   # Go's server accepts a raw '#' in the request target's query: it is part of the query
_BOTH = '{"olla", "sherpa"}'
_PFX = '{"/olla/proxy/", "/olla/openai/"}'


def _g(**kw):
    p = {"Alphabet": _FULL, "MaxLen": 2, "BaseIds": _ALLB, "Preserves": "{TRUE, FALSE}", "Rels": '{"slash"}',
         "Prefixes": '{"/olla/proxy/"}', "Forms": '{"origin"}', "Queries": '{""}', "Engines": _BOTH,
         "Kinds": '{"req"}'}
    p.update(kw)
    return {"module": "UrlPath", "cfg": "UrlPath_gen.cfg", "params": p}


# every configuration once: resolved health/model URLs + the boot's own probes
_G_CFG = _g(Kinds='{"cfg"}', MaxLen=0, Rels='{"slash", "noslash"}')
# every segment sequence up to length 2 x base x preserve_path x engine
_G_SEQ2 = _g()
# every segment sequence up to length 3 on one engine
_G_SEQ3 = _g(MaxLen=3, Engines='{"olla"}')
# dot-segment spellings three deep under the non-trivial bases, both route prefixes
_G_DOTS3 = _g(Alphabet=_DOTS, MaxLen=3, BaseIds='{"base", "nested"}', Preserves="{TRUE}", Engines='{"olla"}', Prefixes=_PFX)
# target form x route prefix x query
_G_FORMS = _g(Alphabet=_FEW, MaxLen=1, Prefixes=_PFX, Forms='{"origin", "absolute", "netpath"}',
              Queries='{"", %s, %s}' % (_Q1, _Q3))

# request paths whose first segment textually extends (or equals) the endpoint's base path name
_G_NAMESAKE = _g(Alphabet='{"a", "base", "basex", "base-admin", "nested"}', MaxLen=2, BaseIds='{"base", "nested"}',
                 Preserves="{TRUE, FALSE}")

# endpoint URLs that carry a query of their own: the client's query (or none) is what must go upstream
_G_BQUERY = _g(Alphabet=_FEW, MaxLen=1, BaseIds='{"bquery", "nquery"}', Queries='{"", %s}' % _Q1)
_G_BQUERY_CFG = _g(Kinds='{"cfg"}', MaxLen=0, BaseIds='{"bquery", "nquery"}')

# every spelling of a provider prefix (aliases included): the path that goes upstream is what follows the prefix
_G_ALIASES = _g(Alphabet='{"v1", "chat", "completions", "models"}', MaxLen=3, BaseIds='{"none", "base"}', Engines='{"sherpa"}',
                Prefixes='{"/olla/lmstudio/", "/olla/lm-studio/", "/olla/lm_studio/", "/olla/ollama/", "/olla/vllm/"}')

_T_SEQ3 = _g(MaxLen=3, Prefixes=_PFX)
_T_SEQ4 = _g(MaxLen=4)
_T_DEEP5 = _g(Alphabet=_DEEP, MaxLen=5, BaseIds='{"base", "nested"}', Engines='{"olla"}')
_T_FORMS = _g(MaxLen=2, Prefixes=_PFX, Forms='{"origin", "absolute", "netpath"}',
              Queries='{"", %s, %s}' % (_Q1, _Q2))


def _nontrivial(s):
    return s.get("kind") == "req" and (any(x not in ("a", "b") for x in s.get("segs", []))
                                       or s.get("form") != "origin" or s.get("query") != "")


def register(PROPS, HARNESS_PKGS):
    HARNESS_PKGS.setdefault("app", "internal/app")
    PROPS["C16"] = {
        "rule": "TLC enumerates request targets = route prefix + every sequence of path segments over "
                "{a, b, '', '.', '..', %2e%2e, %2E., ..%2f, %2f, a;p, %252e%252e} up to a length bound, in origin, "
                "absolute (http://decoy/...) and network-path (//decoy/...) form, with and without a query, x endpoint "
                "base path {none, /, /base, /base/nested/} x preserve_path x engine, plus every configuration with both "
                "spellings of the relative health/model paths.  Each runs through the fully assembled server with a raw "
                "client; the scripted backend records the request line it received, a decoy listener records any "
                "contact; the trace is validated against UrlPath (FwdOK / C16e guards).  Non-trivial = the target "
                "contains a segment other than a/b, is not in origin form, or carries a query.",
        "exhaustive": True,
        "assumptions": ["'under the base path' is judged after decoding %2e/%2E and resolving dot segments; a path counts "
                        "as outside only if it is outside both with and without collapsing repeated slashes first",
                        "the Host header olla sends upstream is the client's (by design, core.CopyHeaders) and is not "
                        "constrained; 'host' = the listener that was actually contacted",
                        "exact path equality (base + rest) is demanded only for targets made of plain segments"],
        "parts": [{
            "name": "urlpath",
            "mc": [{"module": "UrlPath", "cfg": "UrlPath_mc.cfg", "quick_params": {"MaxLen": 3}, "thorough_params": {"MaxLen": 4}}],
            "quick": {"gen": [_G_CFG, _G_SEQ2, _G_SEQ3, _G_DOTS3, _G_FORMS, _G_NAMESAKE, _G_BQUERY, _G_BQUERY_CFG, _G_ALIASES]},
            "thorough": {"gen": [_G_CFG, _T_SEQ3, _T_SEQ4, _T_DEEP5, _T_FORMS, _G_NAMESAKE, _G_BQUERY, _G_BQUERY_CFG, _G_ALIASES]},
            "pkg": "internal/app", "test": "TestVerif_UrlPath",
            "harness_dirs": ["app"],
            "harness_files": ["stack_test.go", "urlpath_test.go"],
            "trace": {"module": "UrlPathTrace", "cfg": "UrlPath_trace.cfg"},
            "nontrivial": _nontrivial,
        }],
    }
