def register(PROPS, HARNESS_PKGS):
    types = '{"vllm", "ollama", "sglang", "openai-compatible", "lemonade"}'
    part = {
        "name": "passthrough",
        "mc": [{"module": "Passthrough", "cfg": "Passthrough_mc.cfg"}],
        "quick": {"gen": [{"module": "Passthrough", "cfg": "Passthrough_gen.cfg", "params": {"EP": '{"e1", "e2"}', "Types": types}}], "sample": 500},
        "thorough": {"gen": [{"module": "Passthrough", "cfg": "Passthrough_gen.cfg", "params": {"EP": '{"e1", "e2", "e3"}', "Types": types}}], "sample": 5000},
        "pkg": "internal/app", "test": "TestVerif_Passthrough",
        "harness_files": ["stack_test.go", "dispatch_test.go", "routing_test.go", "provider_test.go", "passthrough_test.go"],
        "trace": {"module": "PassthroughTrace", "cfg": "Passthrough_trace.cfg"},
        "nontrivial": lambda s: len(set(s["types"].values())) > 1 or any(p != "ok" for p in s["plans"].values()),
    }
    # a deployment's own profile whose anthropic_support block is switched off (see verifCustomProfiles)
    ctypes = '{"vllm", "verifoff", "openai-compatible"}'
    custom = dict(part)
    custom.update({"name": "custom", "mc": [], "env": {"VERIF_CUSTOM_PROFILES": "1"},
                   "quick": {"gen": [{"module": "Passthrough", "cfg": "Passthrough_gen.cfg", "params": {"EP": '{"e1", "e2"}', "Types": ctypes}}], "sample": 150},
                   "thorough": {"gen": [{"module": "Passthrough", "cfg": "Passthrough_gen.cfg", "params": {"EP": '{"e1", "e2", "e3"}', "Types": ctypes}}], "sample": 1500}})
    PROPS["C14"] = {
        "rule": "TLC enumerates passthrough on/off x stream x endpoint-type mix (native and non-native profiles) x healthy "
                "subset x per-endpoint fault (ok / reset before a byte / refused); each boots the assembled server, posts "
                "an Anthropic request and records for every contacted backend the path and whether the body is the "
                "client's bytes or an OpenAI translation, plus the X-Olla-Mode header. Native support per type is read "
                "from config/profiles/*.yaml. Non-trivial = mixed types or a failing endpoint.",
        "exhaustive": True,
        "assumptions": ["'translated body' = JSON chat request with messages, without Anthropic-only top-level fields, and not byte-identical to the client's"],
        "parts": [part, custom],
    }
