"""Binding self-tests: an accepted trace with one recorded field altered, or one event removed, must be
rejected by the trace specification — otherwise the trace spec 'constrains only length'.

  bin/verif selftest [ID ...]        (default: every property)

For each part of each property: generate + run the quick scenarios once (first 40 scenarios), validate the
trace (must be accepted or explained by listed findings), then try corruptions of judged fields and event
deletions and count how many TLC rejects.  Exit 0 when every part rejected at least one corruption; exit 2 otherwise (the machinery, not olla, is in doubt)."""
import json, os, random, shutil, sys

IGNORED = {"seq", "scn", "ms", "d", "target", "what", "bytes", "hr", "xb", "ct", "tps", "hosthdr", "line", "url", "err", "booted", "known", "sha"}


def corrupt(ev, rnd, depth=0):
    """alter one judged scalar somewhere in the event (recursing into nested records / lists)"""
    if isinstance(ev, dict):
        keys = [k for k in ev if k not in IGNORED and k != "ev"]
        rnd.shuffle(keys)
        for k in keys:
            v = ev[k]
            if isinstance(v, bool):
                ev[k] = not v
                return k
            if isinstance(v, int):
                ev[k] = v + 1000
                return k
            if isinstance(v, str) and v:
                ev[k] = {"admit": "refuse", "refuse": "admit", "healthy": "offline", "offline": "healthy"}.get(v, v + "X")
                return k
            if isinstance(v, (dict, list)) and v and depth < 3:
                r = corrupt(v, rnd, depth + 1)
                if r is not None:
                    return "%s.%s" % (k, r)
        return None
    if isinstance(ev, list):
        idx = list(range(len(ev)))
        rnd.shuffle(idx)
        for i in idx:
            v = ev[i]
            if isinstance(v, bool):
                ev[i] = not v
                return str(i)
            if isinstance(v, int):
                ev[i] = v + 1000
                return str(i)
            if isinstance(v, str) and v:
                ev[i] = v + "X"
                return str(i)
            if isinstance(v, (dict, list)) and v and depth < 3:
                r = corrupt(v, rnd, depth + 1)
                if r is not None:
                    return "%d.%s" % (i, r)
    return None


def rejects(V, work, part, tp, path, tag, devs, dq):
    """True when TLC does not accept the trace (a runtime error while explaining it is a rejection too)"""
    try:
        r = V.validate(work, part["trace"]["module"], part["trace"]["cfg"], tp, path, tag, devs, deque=dq)
        return r["status"] == "violation"
    except V.Inconclusive:
        return True


def main(argv):
    import importlib.util, importlib.machinery
    here = os.path.dirname(os.path.abspath(__file__))
    loader = importlib.machinery.SourceFileLoader("verif_driver", os.path.join(here, "verif"))
    spec = importlib.util.spec_from_loader("verif_driver", loader)
    V = importlib.util.module_from_spec(spec)
    loader.exec_module(V)
    props = V.props
    ids = argv or sorted(props.PROPS)
    rnd = random.Random(int(os.environ.get("VERIF_SEED", "1") or 1))
    bad = 0
    for pid in ids:
        for part in props.PROPS[pid]["parts"]:
            work = os.path.join(V.VERIF, ".work", "selftest-%s-%s-%d" % (pid, part["name"], os.getpid()))
            shutil.rmtree(work, ignore_errors=True)
            os.makedirs(work)
            try:
                specdir = V.prepare_spec_dir(work)
                scns = []
                for i, g in enumerate(part["quick"].get("gen", [])):
                    sim = None
                    if g.get("simulate"):
                        sim = dict(g["simulate"]); sim["seed"] = 1
                    s, _ = V.gen(specdir, g["module"], g["cfg"], dict(g.get("params", {})), "st_gen%d" % i, simulate=sim)
                    scns += s
                rnd.shuffle(scns)
                scns = scns[:40]
                scn_path = os.path.join(work, "scn.ndjson")
                open(scn_path, "w").write("\n".join(scns) + "\n")
                trace_path = os.path.join(work, "trace.ndjson")
                env = {"VERIF_SCN": scn_path, "VERIF_TRACE": trace_path, "VERIF_SEED": "1", "VERIF_TIER": "quick"}
                env.update(part.get("env", {})); env.update(part["quick"].get("env", {}))
                rc, out = V.go_test(work, part["pkg"], part["test"], env, tag="st", part=part)
                if rc != 0:
                    print("SELFTEST %s/%s: harness failed" % (pid, part["name"])); bad += 1; continue
                devs = [f["id"] for f in V.open_deviations(pid)]
                tp = dict(part["trace"].get("params", {}))
                dq = part["trace"].get("deque", False)
                base = V.validate(work, part["trace"]["module"], part["trace"]["cfg"], tp, trace_path, "st_base", devs, deque=dq)
                if base["status"] == "violation":
                    print("SELFTEST %s/%s: the uncorrupted trace is rejected (%s)" % (pid, part["name"], base["reason"][:120])); bad += 1; continue
                lines = open(trace_path).read().splitlines()
                cand = [i for i, l in enumerate(lines) if '"ev":"Reset"' not in l]
                tried = rejected = 0
                for _ in range(10):
                    i = rnd.choice(cand)
                    ev = json.loads(lines[i])
                    k = corrupt(ev, rnd)
                    if k is None:
                        continue
                    mod = list(lines); mod[i] = json.dumps(ev)
                    p = os.path.join(work, "corrupt.ndjson"); open(p, "w").write("\n".join(mod) + "\n")
                    tried += 1
                    rej = rejects(V, work, part, tp, p, "st_c", devs, dq)
                    rejected += rej
                    if os.environ.get("VERIF_DEBUG"):
                        print("   corrupt", i, k, rej)
                dtried = drejected = 0
                for _ in range(10):
                    i = rnd.choice(cand)
                    mod = lines[:i] + lines[i + 1:]
                    p = os.path.join(work, "deleted.ndjson"); open(p, "w").write("\n".join(mod) + "\n")
                    dtried += 1
                    drejected += rejects(V, work, part, tp, p, "st_d", devs, dq)
                ok = rejected > 0   # (deleting an event that carries its own obligation only is legitimately harmless)
                print("SELFTEST %s/%s: %d events; corrupted field rejected %d/%d; deleted event rejected %d/%d  %s"
                      % (pid, part["name"], len(lines), rejected, tried, drejected, dtried, "ok" if ok else "WEAK"))
                bad += not ok
            except V.Inconclusive as e:
                print("SELFTEST %s/%s: inconclusive: %s" % (pid, part["name"], str(e)[:200])); bad += 1
            finally:
                if not os.environ.get("VERIF_KEEP"):
                    shutil.rmtree(work, ignore_errors=True)
    return 0 if not bad else 2
