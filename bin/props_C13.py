def _g(**kw):
    p = {"MinItems": 0, "MaxItems": 2, "Classes": '{"ascii"}', "NFs": "{1}", "Hdrs": '{"sep"}',
         "Fins": '{"stop"}', "FinPoss": '{"own"}', "Usages": '{"fin"}', "Chunks": '{"event"}',
         "Noises": '{"none"}', "Boths": "{FALSE}", "Mals": '{"none"}', "MalPoss": "{0}", "Arbs": "{FALSE}"}
    p.update(kw)
    return {"module": "AnthropicStreamGen", "cfg": "AnthropicStream_gen.cfg", "params": p}


def register(PROPS, HARNESS_PKGS):
    HARNESS_PKGS["anthropic"] = "internal/adapter/translator/anthropic"
    PROPS["C13"] = {
        "rule": "tbd",
        "exhaustive": False,
        "assumptions": [],
        "parts": [{
            "name": "stream",
            "harness_dirs": ["anthropic"],
            "mc": [{"module": "AnthropicStream", "cfg": "AnthropicStream_mc.cfg"}],
            "quick": {"gen": [_g(MaxItems=3, NFs="{1, 2}", Hdrs='{"sep", "joined"}')]},
            "thorough": {"gen": [_g(MaxItems=3, NFs="{1, 2}", Hdrs='{"sep", "joined"}')]},
            "pkg": "internal/adapter/translator/anthropic", "test": "TestVerif_AnthropicStream",
            "trace": {"module": "AnthropicStreamTrace", "cfg": "AnthropicStream_trace.cfg"},
            "nontrivial": lambda s: len(s["shape"]) >= 2 or not s["strict"],
        }],
    }
