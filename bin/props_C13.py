"""C13 -- translated responses and streams are well-formed Anthropic and lose nothing
(spec/AnthropicStream*.tla, harness/anthropic/stream_test.go)."""


def _set(*xs):
    return "{" + ", ".join('"%s"' % x if isinstance(x, str) else str(x) for x in xs) + "}"


_FINS = _set("stop", "length", "tool_calls", "none")
_USAGES = _set("none", "fin", "own", "nochoices", "running")
_CHUNKS = _set("all", "event", "line", "byte", "n7", "n64", "n1000")
_NOISES = _set("none", "comment", "crlf", "azure", "nodone", "afterdone", "nospace")
_CLASSES = _set("ascii", "uni", "empty", "big", "ws")
_MALS = _set("nonjson", "jsonarr", "jsonnull", "wrongtype", "choicesobj", "choicenum", "contentnum", "toolstr",
             "toolmix", "orphan", "negidx", "usagebad", "binary", "nospace", "eventline", "eof", "readerr")
_BOTH2 = "{FALSE, TRUE}"


def _g(**kw):
    """parameters for AnthropicStream_gen.cfg with defaults (one value per dimension)"""
    p = {"MinItems": 0, "MaxItems": 2, "Classes": _set("ascii"), "NFs": "{1}", "Hdrs": _set("sep"),
         "Fins": _set("stop"), "FinPoss": _set("own"), "Usages": _set("fin"), "Chunks": _set("event"),
         "Noises": _set("none"), "Boths": "{FALSE}", "Mals": _set("none"), "MalPoss": "{0}", "Arbs": "{FALSE}"}
    p.update(kw)
    return {"module": "AnthropicStreamGen", "cfg": "AnthropicStream_gen.cfg", "params": p}


# ---- quick: one focused grid per dimension of the quantifier (about 5 k streams)
_Q = [
    # every completion shape up to 3 items x delta fragmentation x header style, per event and per byte
    _g(MaxItems=3, NFs="{1, 2}", Hdrs=_set("sep", "joined"), Fins=_set("stop", "tool_calls"), Chunks=_set("event", "byte")),
    # the 16 shapes of length 4 (0..4 tool calls)
    _g(MinItems=4, MaxItems=4, NFs="{2}", Hdrs=_set("sep", "joined")),
    # finish reason x where it travels x where usage travels
    _g(Fins=_FINS, FinPoss=_set("own", "last"), Usages=_USAGES),
    # content classes x every chunking of the bytes x legal SSE noise
    _g(NFs="{1, 3}", Classes=_CLASSES, Chunks=_CHUNKS, Noises=_NOISES),
    # delta with content AND tool_calls
    _g(MinItems=2, MaxItems=3, NFs="{1, 2}", Hdrs=_set("sep", "joined"), Boths="{TRUE}"),
    # malformed lines at every position (no-crash / no-hang clause)
    _g(NFs="{2}", Mals=_MALS, MalPoss="{0, 1, 2, 3, 5, 8}", Chunks=_set("line", "n7")),
    # arbitrarily interleaved tool-call fragments (no-crash / no-hang clause)
    _g(MinItems=2, MaxItems=4, NFs="{2, 3}", Hdrs=_set("sep", "joined"), Arbs="{TRUE}", Chunks=_set("event", "byte")),
]

# ---- thorough: the products of those dimensions (about 230 k streams, sampled to 200 k, seed = VERIF_SEED)
_T = [
    _g(MaxItems=4, NFs="{1, 2, 3}", Hdrs=_set("sep", "joined"), Fins=_FINS, FinPoss=_set("own", "last"), Usages=_USAGES,
       Classes=_set("ascii", "uni"), Chunks=_set("event", "line", "byte", "n7"), Noises=_set("none", "comment"), Boths=_BOTH2),
    _g(MaxItems=3, NFs="{1, 2, 3}", Hdrs=_set("sep", "joined"), Classes=_CLASSES, Chunks=_CHUNKS, Noises=_NOISES,
       Fins=_set("stop", "none"), FinPoss=_set("own", "last"), Usages=_set("fin", "own")),
    _g(MaxItems=3, NFs="{1, 2}", Hdrs=_set("sep", "joined"), Classes=_set("ascii", "uni"), Mals=_MALS,
       MalPoss="{0, 1, 2, 3, 4, 5, 6, 7, 8, 10, 12}", Chunks=_set("all", "line", "byte", "n7")),
    _g(MinItems=2, MaxItems=4, NFs="{2, 3}", Hdrs=_set("sep", "joined"), Arbs="{TRUE}", Classes=_set("ascii", "uni", "empty"),
       Chunks=_set("event", "byte", "n64"), Fins=_FINS, Usages=_set("none", "fin", "nochoices")),
] + _Q


def _nontrivial(s):
    """a scenario is non-trivial if the completion has at least two items, or the input is not a
    well-formed rendering (malformed line / interleaved fragments)"""
    return len(s["shape"]) >= 2 or not s["strict"]


def register(PROPS, HARNESS_PKGS):
    HARNESS_PKGS["anthropic"] = "internal/adapter/translator/anthropic"
    PROPS["C13"] = {
        "rule": "TLC enumerates the input side: completions (every sequence of <= 4 text / tool-call items incl. empty, "
                "0..4 tool calls, text after tools) x content class (ascii, multi-byte+escapes, empty, > 64 KiB) x number "
                "of OpenAI deltas per item (1..3, tool fragments contiguous) x tool header style x finish reason (stop, "
                "length, tool_calls, absent) and where it travels x usage (absent, on the finish chunk, own chunk, "
                "empty-choices chunk) x read sizes of the byte stream (1 byte, 7, 64, 1000, per line, per event, all at "
                "once) x legal SSE noise (comments, CRLF, leading empty-choices chunk, no [DONE]) x delta with content "
                "and tool_calls, plus 17 kinds of malformed line at every position and interleaved tool fragments. Each "
                "scenario is rendered to bytes, piped into the real TransformStreamingResponse in those read sizes and "
                "the same completion is given to TransformResponse; the written SSE is tokenised and TLC validates the "
                "event sequence against the AnthropicStream grammar recogniser with content, stop-reason, usage and "
                "streamed-vs-buffered agreement. Non-trivial = completion of >= 2 items, or malformed/interleaved input.",
        "exhaustive": False,
        "assumptions": ["tool-call arguments are canonical JSON objects (compact, sorted keys), so that the streamed "
                        "partial_json concatenation and the buffered parsed input can be compared as strings",
                        "for malformed / arbitrarily interleaved input only 'returns, no panic, no hang (30 s watchdog)' "
                        "is demanded, as the property states",
                        "the relative order of text and tool calls and the split of text over text blocks are not "
                        "constrained (the buffered OpenAI form cannot express them)"],
        "parts": [{
            "name": "stream",
            "harness_dirs": ["anthropic"],
            "mc": [{"module": "AnthropicStream", "cfg": "AnthropicStream_mc.cfg"}],
            "quick": {"gen": _Q},
            "thorough": {"gen": _T, "sample": 200000},
            "pkg": "internal/adapter/translator/anthropic", "test": "TestVerif_AnthropicStream",
            "trace": {"module": "AnthropicStreamTrace", "cfg": "AnthropicStream_trace.cfg"},
            "nontrivial": _nontrivial,
        }, {
            # the same clause through the assembled server: proxy engine -> response recorder -> pipe -> translator
            "name": "wire",
            "mc": [],
            "quick": {"gen": [{"module": "AnthropicWire", "cfg": "AnthropicWire_gen.cfg",
                               "params": {"Cuts": '{"whole", "event", "payload_nl", "line", "n7"}'}}]},
            "thorough": {"gen": [{"module": "AnthropicWire", "cfg": "AnthropicWire_gen.cfg",
                                  "params": {"Cuts": '{"whole", "event", "payload_nl", "line", "n7", "byte"}'}}]},
            "pkg": "internal/app", "test": "TestVerif_Wire",
            "harness_dirs": ["app"], "harness_files": ["stack_test.go", "wire_test.go"],
            "trace": {"module": "AnthropicWireTrace", "cfg": "AnthropicWire_trace.cfg"},
            "nontrivial": lambda s: s["cut"] != "whole",
        }],
    }
    HARNESS_PKGS.setdefault("app", "internal/app")
