"""X02 -- pkg/eventbus (publish/subscribe bus of the proxy engines): growth of the specification beyond the listed
properties (DESIGN.md section 16).  Not in MANIFEST.json; evidence goes to evidence_extra/."""


def register(PROPS, HARNESS_PKGS):
    HARNESS_PKGS["eventbus"] = "pkg/eventbus"

    def sim(num, depth):
        return {"module": "EventBus", "cfg": "EventBus_sim.cfg", "params": {"MaxLen": depth},
                "simulate": {"num": num, "depth": depth + 1}}
    part = {
        "name": "bus",
        "mc": [{"module": "EventBus", "cfg": "EventBus_mc.cfg"}],
        "quick": {"gen": [sim(3000, 14)]},
        "thorough": {"gen": [sim(40000, 24)]},
        "pkg": "pkg/eventbus", "test": "TestVerif_EventBus",
        "harness_dirs": ["eventbus"],
        "trace": {"module": "EventBusTrace", "cfg": "EventBus_trace.cfg"},
        "nontrivial": lambda s: sum(1 for x in s if x[0] == "Publish") >= 4 and any(x[0] == "Subscribe" for x in s),
    }
    PROPS["X02"] = {
        "rule": "seeded TLC simulation walks over Subscribe/Unsubscribe/Publish/Recv/Shutdown/Stats for 3 subscriber "
                "slots; the real EventBus[int] (buffer 3) executes them and TLC validates every result (delivered "
                "counts, received events, statistics). Non-trivial = at least 4 publishes and a subscriber.",
        "exhaustive": False,
        "assumptions": ["calls are made one after another (the asynchronous worker pool is not driven)"],
        "parts": [part],
    }
