def register(PROPS, HARNESS_PKGS):
    def g(**kw):
        p = {"Profiles": '{"auto", "streaming"}', "CTs": '{"text/event-stream"}', "Kinds": '{"flow"}',
             "ChunkSizes": "{1, 1024}", "StallPoints": '{"prehdr", "headers", "chunk1"}', "Routes": '{"proxy", "anthropic"}'}
        p.update(kw)
        return {"module": "StreamGen", "cfg": "Stream_gen.cfg", "params": p}
    allct = '{"text/event-stream", "application/x-ndjson", "application/json", "application/octet-stream"}'
    part = {
        "name": "stream",
        "mc": [{"module": "Stream", "cfg": "Stream_mc.cfg"}],
        "quick": {"gen": [g(Kinds='{"flow"}', CTs='{"text/event-stream", "application/json"}', ChunkSizes="{1, 1024, 65536}"),
                          g(Kinds='{"flow"}', Profiles='{"streaming", "standard"}', CTs='{"application/octet-stream"}', ChunkSizes="{1024}"),
                          g(Kinds='{"tflow"}', Profiles='{"auto", "streaming"}'),
                          g(Kinds='{"stall", "abort", "pause"}', Profiles='{"auto"}')]},
        "thorough": {"gen": [g(Kinds='{"flow"}', Profiles='{"auto", "streaming", "standard"}', CTs=allct, ChunkSizes="{1, 1024, 65536, 262144}"),
                             g(Kinds='{"tflow"}', Profiles='{"auto", "streaming", "standard"}'),
                             g(Kinds='{"stall", "abort", "pause"}', Profiles='{"auto", "streaming", "standard"}', CTs=allct)]},
        "pkg": "internal/app", "test": "TestVerif_Stream",
        "harness_files": ["stack_test.go", "stream_test.go"],
        "trace": {"module": "StreamTrace", "cfg": "Stream_trace.cfg"},
        "nontrivial": lambda s: s["kind"] != "flow" or s["chunk"] > 1,
    }
    leak = dict(part)
    leak.update({"name": "leak", "mc": [], "env": {"VERIF_PAR": "1"},
                 "quick": {"gen": [g(Kinds='{"leak"}', Profiles='{"auto"}')]},
                 "thorough": {"gen": [g(Kinds='{"leak"}', Profiles='{"auto", "streaming", "standard"}')]},
                 "nontrivial": lambda s: True})
    PROPS["C18"] = {
        "rule": "TLC enumerates streaming scenarios: causally gated flow (the backend writes chunk k+1 only after the "
                "client acknowledged chunk k) x chunk size x content type x profile x engine, and the same on the translated Anthropic route (text deltas; the fragments of a tool call's arguments); a stall after headers / after "
                "the first chunk; a 300 ms pause; client abort at each stall point and while the backend keeps sending, on the proxy route and on the translated Anthropic route; each against the assembled server with "
                "read_timeout = 1 s; the harness measures (stuck?, whole?, elapsed ms, upstream closed?) and TLC checks "
                "the measurements against Stream.tla's obligations with 3 s slack. Non-trivial = anything but 1-byte flow.",
        "exhaustive": True,
        "assumptions": ["timing margins: pause 300 ms vs timeout 1000 ms; a stall must end within 1000 + 3000 ms; cancellation within 3000 ms",
                        "leak clause (part leak, one stack at a time): 20 aborted streams (backend stalled / still sending; proxy route / translated Anthropic route) must not add 20 goroutines (runtime.NumGoroutine after quiescence, warm-up excluded)"],
        "parts": [part, leak],
    }
