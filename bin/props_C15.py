"""C15 - client credentials and hop-by-hop headers stop at the proxy (spec/Headers.tla)."""

_P5 = '{"first", "failover_reset", "failover_refuse", "passthrough", "translated"}'
_S = '{"Authorization", "Cookie", "X-Api-Key", "X-Auth-Token", "Proxy-Authorization"}'
_H = '{"Connection", "Keep-Alive", "Proxy-Authenticate", "TE", "Trailer", "Transfer-Encoding", "Upgrade"}'
_F = '{"Via", "X-Forwarded-For", "X-Forwarded-Proto", "X-Forwarded-Host", "X-Real-IP"}'
_O = '{"X-Custom-Thing", "Accept", "anthropic-beta", "X_Under.Score~1"}'
_V4 = "{0, 1, 2, 3}"

_NAMED = {n.lower() for n in ["Authorization", "Cookie", "X-Api-Key", "X-Auth-Token", "Proxy-Authorization",
                              "Connection", "Keep-Alive", "Proxy-Authenticate", "TE", "Trailer", "Transfer-Encoding",
                              "Upgrade", "Via", "X-Forwarded-For", "X-Forwarded-Proto", "X-Forwarded-Host", "X-Real-IP"]}


def _hgen(shape, stride, **kw):
    p = {"Paths": _P5, "SensNames": _S, "HopNames": _H, "FwdNames": _F, "OtherNames": _O, "Variants": _V4,
         "Shape": shape, "Pads": "{0, 12, 40}", "Stride": stride}
    p.update(kw)
    return {"module": "HeadersGen", "cfg": "Headers_gen.cfg", "params": p}


def _nontrivial(s):
    """a credential / hop-by-hop / forwarded header in a spelling or multiplicity a literal-name test would not send"""
    return any(h["name"].lower() in _NAMED and (h["m"] > 1 or h["v"] != 0 or h["e"] != 0) for h in s["hs"])


_S3 = '{"Authorization", "X-Api-Key", "Proxy-Authorization"}'
_H3 = '{"Connection", "Upgrade", "TE"}'
_F3 = '{"Via", "X-Forwarded-For", "X-Real-IP"}'


def register(PROPS, HARNESS_PKGS):
    HARNESS_PKGS.setdefault("app", "internal/app")
    PROPS["C15"] = {
        "rule": "TLC enumerates the named part of the client's header block: every credential, hop-by-hop and "
                "Via/X-Forwarded-*/X-Real-IP name (and token-named others) x 4 case variants x one or two lines "
                "(second line in the same or another case) x empty first/last value, alone ('single'), all 21 names "
                "at once ('all'), credential x hop-by-hop x forwarded triples and forwarded pairs with independent "
                "configurations, x engine {sherpa, olla} x path {first attempt, failover after reset, failover after "
                "refused connection, Anthropic passthrough, Anthropic translated}, thinned by a code over all fields; "
                "the harness mixes in 0/12/40 seeded random token-named headers (random case, repeated, empty), writes "
                "the block literally through the fully assembled server and records the block each scripted backend "
                "received for every attempt; TLC checks each received block against the sent one. Non-trivial = a "
                "named header in non-canonical case, repeated, or with an empty value.",
        "exhaustive": False,
        "assumptions": [
            "header lines Go's HTTP client writes for its own hop (Host, Content-Length, Transfer-Encoding: chunked, "
            "User-Agent, Accept-Encoding) and olla's self-identification (X-Proxied-By, X-Model) are not 'client "
            "headers that arrive'",
            "hop-by-hop = the fixed list of the property plus whatever the client's Connection lines nominate (RFC 7230 6.1)",
            "a field's value list is its comma-separated elements over all of its lines (RFC 9110 5.3); field names "
            "compare case-insensitively",
        ],
        "parts": [
            {
                "name": "headers",
                "mc": [{"module": "Headers", "cfg": "Headers_mc.cfg"}],
                "quick": {"gen": [
                    _hgen("single", 13),
                    _hgen("all", 2, Pads="{0, 40}"),
                    _hgen("triple", 211, SensNames=_S3, HopNames=_H3, FwdNames=_F3, OtherNames="{}", Variants="{3}", Pads="{7}"),
                    _hgen("pairF", 97, SensNames="{}", HopNames="{}", OtherNames="{}", Variants="{0, 3}", Pads="{0}"),
                ]},
                "thorough": {"gen": [
                    _hgen("single", 1),
                    _hgen("all", 1),
                    _hgen("triple", 89, OtherNames="{}", Variants="{3}", Pads="{7}"),
                    _hgen("triple", 89, OtherNames="{}", Variants="{1}", Pads="{23}"),
                    _hgen("pairF", 23, SensNames="{}", HopNames="{}", OtherNames="{}", Pads="{0}"),
                ], "go_timeout": 1500},
                "pkg": "internal/app", "test": "TestVerif_Headers",
                "harness_dirs": ["app"],
                "harness_files": ["stack_test.go", "headers_test.go"],
                "trace": {"module": "HeadersTrace", "cfg": "Headers_trace.cfg"},
                "nontrivial": _nontrivial,
            },
        ],
    }
