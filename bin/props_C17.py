def register(PROPS, HARNESS_PKGS):
    def g(rates, bursts, beh, kinds='{"rate", "size"}', globals_="{0}"):
        return {"module": "AdmissionGen", "cfg": "Admission_gen.cfg", "params": {"Rates": rates, "Bursts": bursts, "Behaviours": beh, "Kinds": kinds, "Globals": globals_}}
    allb = '{"keepalive1", "newconn", "conns4", "burst", "twoips", "mixpaths", "drainwait", "mixhealth"}'
    part = {
        "name": "admission",
        "mc": [{"module": "Admission", "cfg": "Admission_mc.cfg"}],
        # the token-bucket design satisfies the window bound for EVERY horizon and number of admissions (TLAPS)
        "proofs": ["BucketProof"],
        "quick": {"gen": [g("{60, 600}", "{1, 3}", allb),
                          # a global limit next to the per-IP one (tighter and looser than it)
                          g("{60, 600}", "{3}", '{"keepalive1", "twoips", "mixhealth"}', '{"rate"}', "{120}"),
                          # ... and a global limit alone (per-IP limit 0 = disabled)
                          g("{0}", "{3}", '{"keepalive1", "newconn", "burst"}', '{"rate"}', "{120}")]},
        "thorough": {"gen": [g("{60, 120, 600}", "{1, 3, 5}", allb), g("{60, 120, 600}", "{1, 3, 5}", allb, '{"rate"}', "{60, 300}"),
                             g("{0}", "{1, 3}", allb, '{"rate"}', "{60, 300}")]},
        "pkg": "internal/app", "test": "TestVerif_Admission",
        "harness_files": ["stack_test.go", "dispatch_test.go", "admission_test.go"],
        "trace": {"module": "AdmissionTrace", "cfg": "Admission_trace.cfg"},
        "nontrivial": lambda s: s["kind"] == "rate" or s["size"] in ("max+1", "5max") or s["lenmode"] == "chunked",
    }
    bucket = dict(part)
    bucket.update({"name": "bucket", "mc": [], "proofs": [], "pkg": "internal/adapter/security", "test": "TestVerif_Bucket",
                   "harness_dirs": ["security"], "harness_files": ["bucket_test.go"],
                   "quick": {"gen": [g("{60, 600}", "{1, 3}", '{"keepalive1"}', '{"bucket"}')]},
                   "thorough": {"gen": [g("{60, 120, 600}", "{1, 3, 5}", '{"keepalive1"}', '{"bucket"}')]},
                   "nontrivial": lambda s: s["kind"] == "bucket"})
    HARNESS_PKGS.setdefault("security", "internal/adapter/security")
    PROPS["C17"] = {
        "rule": "TLC enumerates the admission grid: (rate, burst) x client behaviour (one keep-alive connection, a new "
                "connection per request, 4 parallel connections, a concurrent burst, two source IPs, one client rotating over the proxy, provider and Anthropic routes, one that drains its burst and comes back after several housekeeping sweeps of the limiter, one that mixes health-endpoint requests in), with and without a global limit next to the per-IP one and body size "
                "(max-1, max, max+1, 5*max) x declared/chunked length x route (proxy, provider, Anthropic); each runs "
                "against the assembled server with those limits; every request is recorded with its [send, recv] "
                "interval, status, whether a backend saw it and how many body bytes the backend got; TLC checks the "
                "window bound burst + rate x t over all pairs of admitted requests per IP, 429 for refusals, and the "
                "size clauses. Non-trivial = rate scenarios and over-limit or chunked size scenarios.",
        "exhaustive": True,
        "assumptions": ["interval-sound timing: an admission instant lies somewhere in [send, recv] of its request; the bound uses recv_j - send_i"],
        "parts": [part, bucket],
    }
