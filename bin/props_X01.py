"""X01 -- service orchestration (ServiceManager.Start/Stop): growth of the specification beyond the
listed properties (DESIGN.md section 16).  Not in MANIFEST.json; evidence goes to evidence_extra/."""


def register(PROPS, HARNESS_PKGS):
    HARNESS_PKGS["services"] = "internal/app/services"
    svcs4 = '{"a", "b", "c", "d"}'
    part = {
        "name": "lifecycle",
        "mc": [{"module": "Lifecycle", "cfg": "Lifecycle_mc.cfg"}],
        "quick": {"gen": [{"module": "Lifecycle", "cfg": "Lifecycle_gen.cfg", "params": {"Svcs": svcs4}}], "sample": 6000},
        "thorough": {"gen": [{"module": "Lifecycle", "cfg": "Lifecycle_gen.cfg", "params": {"Svcs": svcs4}}]},
        "pkg": "internal/app/services", "test": "TestVerif_Lifecycle",
        "harness_dirs": ["services"],
        "trace": {"module": "LifecycleTrace", "cfg": "Lifecycle_trace.cfg"},
        "nontrivial": lambda s: any(s["deps"][k] for k in s["deps"]) and not any("ghost" in s["deps"][k] for k in s["deps"]),
    }
    PROPS["X01"] = {
        "rule": "TLC enumerates every dependency graph over 4 services (plus a dependency on an unregistered name), with "
                "at most one service failing to start and one failing to stop; the real ServiceManager runs each with "
                "recording fake services (registration order rotated); TLC validates the Start/Stop call order against "
                "Lifecycle.tla. Non-trivial = a graph with at least one edge and no unregistered dependency.",
        "exhaustive": True,
        "assumptions": ["fake services: Start/Stop return immediately"],
        "parts": [part],
    }
