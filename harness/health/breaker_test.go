//go:build verif

package health

import (
	"encoding/json"
	"sync"
	"sync/atomic"
	"testing"
	"time"

	"github.com/thushan/olla/internal/zzverif"
)

// verifUnit is the duration of one spec time unit (HealthBreaker_trace.cfg: 100 ms).
const verifUnit = 100 * time.Millisecond

// rewind makes the breaker believe d has passed by shifting its stored timestamps.
func verifRewindBreaker(cb *CircuitBreaker, url string, d time.Duration) {
	st, ok := cb.endpoints.Load(url)
	if !ok {
		return
	}
	if v := atomic.LoadInt64(&st.lastFailure); v != 0 {
		atomic.StoreInt64(&st.lastFailure, v-int64(d))
	}
	if v := atomic.LoadInt64(&st.lastAttempt); v != 0 {
		atomic.StoreInt64(&st.lastAttempt, v-int64(d))
	}
}

func verifBreakerState(cb *CircuitBreaker, url string) (int64, bool) {
	st, ok := cb.endpoints.Load(url)
	if !ok {
		return 0, false
	}
	return atomic.LoadInt64(&st.failures), atomic.LoadInt32(&st.isOpen) == 1
}

// TestVerif_HealthBreaker replays TLC-generated scenarios (sequences over
// Ask/Fail/Succ/Tick) on the real health.CircuitBreaker and records every answer
// and the projected state. No assertions: the verdict is TLC's on the trace.
func TestVerif_HealthBreaker(t *testing.T) {
	tr := zzverif.OpenTrace()
	defer tr.Close()
	const url = "http://e1/health"
	for i, raw := range zzverif.LoadScenarios() {
		var steps []json.RawMessage
		if err := json.Unmarshal(raw, &steps); err != nil {
			t.Fatalf("scenario %d: %v", i, err)
		}
		cb := NewCircuitBreaker()
		tr.Emit("Reset", "scn", i)
		for _, s := range steps {
			name, args := zzverif.Tok(s)
			switch name {
			case "Ask":
				res := "admit"
				if cb.IsOpen(url) {
					res = "refuse"
				}
				f, o := verifBreakerState(cb, url)
				tr.Emit("Ask", "res", res, "f", f, "o", o)
			case "Race":
				// n goroutines ask at once (released together)
				n := zzverif.Int(args[0])
				var admits atomic.Int64
				var wg sync.WaitGroup
				start := make(chan struct{})
				for k := 0; k < n; k++ {
					wg.Add(1)
					go func() {
						defer wg.Done()
						<-start
						if !cb.IsOpen(url) {
							admits.Add(1)
						}
					}()
				}
				close(start)
				wg.Wait()
				f, o := verifBreakerState(cb, url)
				tr.Emit("Race", "n", n, "admits", admits.Load(), "f", f, "o", o)
			case "Fail":
				cb.RecordFailure(url)
				f, o := verifBreakerState(cb, url)
				tr.Emit("Fail", "f", f, "o", o)
			case "Succ":
				cb.RecordSuccess(url)
				f, o := verifBreakerState(cb, url)
				tr.Emit("Succ", "f", f, "o", o)
			case "Tick":
				d := zzverif.Int(args[0])
				verifRewindBreaker(cb, url, time.Duration(d)*verifUnit)
				tr.Emit("Tick", "d", d)
			default:
				t.Fatalf("unknown step %s", name)
			}
		}
	}
}
