//go:build verif

package health

import (
	"encoding/json"
	"runtime"
	"sync"
	"sync/atomic"
	"testing"
	"time"

	"github.com/thushan/olla/internal/zzverif"
)

// verifUnit is the duration of one spec time unit (HealthBreaker_trace.cfg: 100 ms).
const verifUnit = 100 * time.Millisecond

// rewind makes the breaker believe d has passed by shifting its stored timestamps.
func verifRewindBreaker(cb *CircuitBreaker, url string, d time.Duration) {
	st, ok := cb.endpoints.Load(url)
	if !ok {
		return
	}
	if v := atomic.LoadInt64(&st.lastFailure); v != 0 {
		atomic.StoreInt64(&st.lastFailure, v-int64(d))
	}
	if v := atomic.LoadInt64(&st.lastAttempt); v != 0 {
		atomic.StoreInt64(&st.lastAttempt, v-int64(d))
	}
}

func verifBreakerState(cb *CircuitBreaker, url string) (int64, bool) {
	st, ok := cb.endpoints.Load(url)
	if !ok {
		return 0, false
	}
	return atomic.LoadInt64(&st.failures), atomic.LoadInt32(&st.isOpen) == 1
}

// TestVerif_HealthBreaker replays TLC-generated scenarios (sequences over
// Ask/Fail/Succ/Tick) on the real health.CircuitBreaker and records every answer
// and the projected state. No assertions: the verdict is TLC's on the trace.
func TestVerif_HealthBreaker(t *testing.T) {
	tr := zzverif.OpenTrace()
	defer tr.Close()
	const url = "http://e1/health"
	for i, raw := range zzverif.LoadScenarios() {
		var steps []json.RawMessage
		if err := json.Unmarshal(raw, &steps); err != nil {
			t.Fatalf("scenario %d: %v", i, err)
		}
		cb := NewCircuitBreaker()
		tr.Emit("Reset", "scn", i)
		for _, s := range steps {
			name, args := zzverif.Tok(s)
			switch name {
			case "Ask":
				res := "admit"
				if cb.IsOpen(url) {
					res = "refuse"
				}
				f, o := verifBreakerState(cb, url)
				tr.Emit("Ask", "res", res, "f", f, "o", o)
			case "Race":
				// n goroutines ask at once, released together by a spin barrier. The burst is repeated from the
				// SAME breaker state (the probe clock is put back before every round) because the windows a
				// non-atomic admission leaves are a few nanoseconds wide; every round is an experiment of its own
				// and the trace records the smallest and the largest number admitted in one round.
				n := zzverif.Int(args[0])
				st, have := cb.endpoints.Load(url)
				// ages, not instants, are put back: real time keeps moving while the rounds run and must not carry
				// the breaker across one of its thresholds
				var ageA, ageF int64
				if have {
					now := time.Now().UnixNano()
					if v := atomic.LoadInt64(&st.lastAttempt); v != 0 {
						ageA = now - v
					}
					if v := atomic.LoadInt64(&st.lastFailure); v != 0 {
						ageF = now - v
					}
				}
				// only the half-open window has anything to race for: closed admits everyone, open-and-young no one
				rounds := 1
				if have && atomic.LoadInt32(&st.isOpen) == 1 && time.Duration(ageF) > cb.timeout {
					rounds = 150
				}
				minAd, maxAd := int64(n+1), int64(-1)
				for round := 0; round < rounds; round++ {
					if have && round > 0 {
						now := time.Now().UnixNano()
						if ageA != 0 {
							atomic.StoreInt64(&st.lastAttempt, now-ageA)
						} else {
							atomic.StoreInt64(&st.lastAttempt, 0)
						}
						if ageF != 0 {
							atomic.StoreInt64(&st.lastFailure, now-ageF)
						}
					}
					var admits, ready atomic.Int64
					var goFlag atomic.Bool
					var wg sync.WaitGroup
					for k := 0; k < n; k++ {
						wg.Add(1)
						go func() {
							defer wg.Done()
							ready.Add(1)
							for !goFlag.Load() {
							}
							if !cb.IsOpen(url) {
								admits.Add(1)
							}
						}()
					}
					for ready.Load() < int64(n) {
						runtime.Gosched()
					}
					goFlag.Store(true)
					wg.Wait()
					if a := admits.Load(); a < minAd {
						minAd = a
					}
					if a := admits.Load(); a > maxAd {
						maxAd = a
					}
					if !have { // no state yet: the breaker is closed and stays so; one round says it all
						break
					}
				}
				f, o := verifBreakerState(cb, url)
				tr.Emit("Race", "n", n, "admits", maxAd, "admitsMin", minAd, "f", f, "o", o)
			case "Fail":
				cb.RecordFailure(url)
				f, o := verifBreakerState(cb, url)
				tr.Emit("Fail", "f", f, "o", o)
			case "Succ":
				cb.RecordSuccess(url)
				f, o := verifBreakerState(cb, url)
				tr.Emit("Succ", "f", f, "o", o)
			case "Tick":
				d := zzverif.Int(args[0])
				verifRewindBreaker(cb, url, time.Duration(d)*verifUnit)
				tr.Emit("Tick", "d", d)
			default:
				t.Fatalf("unknown step %s", name)
			}
		}
	}
}
