//go:build verif

package health

import (
	"context"
	"encoding/json"
	"fmt"
	"io"
	"log/slog"
	"net/http"
	"net/http/httptest"
	"sync"
	"testing"
	"time"

	"github.com/thushan/olla/internal/adapter/discovery"
	"github.com/thushan/olla/internal/config"
	"github.com/thushan/olla/internal/logger"
	"github.com/thushan/olla/internal/zzverif"
)

type verifTickScn struct {
	CI   int    `json:"ci"` // check_interval in ms
	Mode string `json:"mode"`
}

// TestVerif_HealthTick: the checker started the way the discovery service starts it (StartChecking + an initial
// round), left alone in real time; the backend records when it is probed (spec/HealthTick.tla judges the gaps).
func TestVerif_HealthTick(t *testing.T) {
	tr := zzverif.OpenTrace()
	defer tr.Close()
	scns := zzverif.LoadScenarios()
	lg := logger.NewPlainStyledLogger(slog.New(slog.NewTextHandler(io.Discard, nil)))
	zzverif.Parallel(len(scns), 8, func(sn int) {
		var sc verifTickScn
		if err := json.Unmarshal(scns[sn], &sc); err != nil {
			panic(err)
		}
		b := tr.Block()
		defer b.Flush()
		var mu sync.Mutex
		var at []time.Time
		var last time.Time
		srv := httptest.NewServer(http.HandlerFunc(func(w http.ResponseWriter, r *http.Request) {
			mu.Lock()
			now := time.Now()
			// the retries of ONE failed check follow each other within half a second: one probe
			if last.IsZero() || now.Sub(last) > 700*time.Millisecond {
				at = append(at, now)
			}
			last = now
			mu.Unlock()
			if sc.Mode == "failing" {
				w.WriteHeader(http.StatusServiceUnavailable)
				return
			}
			w.WriteHeader(http.StatusOK)
			_, _ = w.Write([]byte(`{"status":"ok"}`))
		}))
		defer srv.Close()
		ctx, cancel := context.WithCancel(context.Background())
		defer cancel()
		repo := discovery.NewStaticEndpointRepository()
		prio := 100
		if err := repo.LoadFromConfig(ctx, []config.EndpointConfig{{
			Name: fmt.Sprintf("t%d", sn), URL: srv.URL, Type: "openai-compatible", HealthCheckURL: "/health", ModelURL: "/v1/models",
			CheckInterval: time.Duration(sc.CI) * time.Millisecond, CheckTimeout: 500 * time.Millisecond, Priority: &prio,
		}}); err != nil {
			panic(err)
		}
		chk := NewHTTPHealthCheckerWithDefaults(repo, lg)
		if err := chk.StartChecking(ctx); err != nil {
			panic(err)
		}
		defer chk.StopChecking(ctx)
		_ = chk.RunHealthCheck(ctx, true) // the initial round of the discovery service
		b.Emit("Reset", "scn", sn, "ci", sc.CI, "mode", sc.Mode)
		// long enough for three gaps of a healthy endpoint, or the first two of a failing one (ci, 2 ci)
		watch := time.Duration(3*sc.CI+3500) * time.Millisecond
		if sc.Mode == "failing" {
			watch = time.Duration(3*sc.CI+4500) * time.Millisecond
		}
		time.Sleep(watch)
		mu.Lock()
		gaps := []int64{}
		for i := 1; i < len(at); i++ {
			gaps = append(gaps, at[i].Sub(at[i-1]).Milliseconds())
		}
		mu.Unlock()
		want := 3
		if sc.Mode == "failing" {
			want = 2
		}
		if len(gaps) > want {
			gaps = gaps[:want]
		}
		b.Emit("Probes", "ci", sc.CI, "mode", sc.Mode, "gaps", gaps)
	})
}
