//go:build verif

package health

import (
	"context"
	"encoding/json"
	"errors"
	"fmt"
	"io"
	"log/slog"
	"math"
	"net"
	"net/http"
	"net/http/httptest"
	"os"
	"sync"
	"sync/atomic"
	"syscall"
	"testing"
	"time"

	"github.com/thushan/olla/internal/adapter/discovery"
	"github.com/thushan/olla/internal/adapter/proxy/core"
	"github.com/thushan/olla/internal/config"
	"github.com/thushan/olla/internal/core/domain"
	"github.com/thushan/olla/internal/core/ports"
	"github.com/thushan/olla/internal/logger"
	"github.com/thushan/olla/internal/verifhook"
	"github.com/thushan/olla/internal/zzverif"
)

// verifDisc is what the proxy's RetryHandler talks to in production
// (services.endpointRepositoryAdapter): UpdateEndpointStatus -> repository.UpdateEndpoint.
type verifDisc struct {
	repo *discovery.StaticEndpointRepository
}

func (d verifDisc) GetEndpoints(ctx context.Context) ([]*domain.Endpoint, error) {
	return d.repo.GetAll(ctx)
}
func (d verifDisc) GetHealthyEndpoints(ctx context.Context) ([]*domain.Endpoint, error) {
	return d.repo.GetHealthy(ctx)
}
func (d verifDisc) RefreshEndpoints(ctx context.Context) error { return nil }
func (d verifDisc) UpdateEndpointStatus(ctx context.Context, e *domain.Endpoint) error {
	return d.repo.UpdateEndpoint(ctx, e)
}

type verifOneSelector struct{}

func (verifOneSelector) Select(ctx context.Context, eps []*domain.Endpoint) (*domain.Endpoint, error) {
	return eps[0], nil
}
func (verifOneSelector) Name() string                            { return "one" }
func (verifOneSelector) IncrementConnections(e *domain.Endpoint) {}
func (verifOneSelector) DecrementConnections(e *domain.Endpoint) {}

// TestVerif_HealthSched replays TLC-generated health-checking scenarios for one endpoint on the
// real HTTPHealthChecker + HealthClient + CircuitBreaker + StaticEndpointRepository, with a real
// HTTP backend whose behaviour the scenario scripts. Logical time = rewinding stored timestamps.
func TestVerif_HealthSched(t *testing.T) {
	tr := zzverif.OpenTrace()
	defer tr.Close()
	scns := zzverif.LoadScenarios()
	lg := logger.NewPlainStyledLogger(slog.New(slog.NewTextHandler(io.Discard, nil)))
	// scheduler gate at health.store (between a check's probe and its repository write): a scenario can park
	// one check there and let other writers run before releasing it. Keyed by the endpoint's (unique) name.
	type gate struct {
		hold    atomic.Bool
		parked  chan struct{}
		release chan struct{}
	}
	var gates sync.Map
	verifhook.Set(func(name, key string) {
		if name != "health.store" {
			return
		}
		if v, ok := gates.Load(key); ok {
			g := v.(*gate)
			if g.hold.CompareAndSwap(true, false) {
				g.parked <- struct{}{}
				<-g.release
			}
		}
	})
	defer verifhook.Set(nil)
	// An environment fault is a transport error between MY client and MY answering backend (nothing of olla's
	// is in that path): the scenario's recording is discarded and the scenario re-run on a fresh stack. A
	// fault that persists makes the run inconclusive; it is never turned into a verdict.
	runOne := func(sn int, b *zzverif.Block) (envFault string) {
		var steps []json.RawMessage
		if err := json.Unmarshal(scns[sn], &steps); err != nil {
			panic(err)
		}
		_, a0 := zzverif.Tok(steps[0]) // ["Start", ci, backend]
		ci := zzverif.Int(a0[0])
		var mode atomic.Value
		mode.Store(zzverif.Str(a0[1]))
		var probes atomic.Int64

		srv := httptest.NewServer(http.HandlerFunc(func(w http.ResponseWriter, r *http.Request) {
			probes.Add(1)
			switch mode.Load().(string) {
			case "ok":
				w.WriteHeader(200)
			case "http4xx":
				w.WriteHeader(404)
			case "http5xx":
				w.WriteHeader(503)
			case "timeout":
				<-r.Context().Done()
			case "eof":
				// hang up without a word: a connection error, not an error status
				if hj, ok := w.(http.Hijacker); ok {
					if c, _, err := hj.Hijack(); err == nil {
						c.Close()
						return
					}
				}
			default:
				w.WriteHeader(200)
			}
		}))
		defer srv.Close()
		dialer := &net.Dialer{Timeout: 2 * time.Second}
		client := &http.Client{
			Timeout: DefaultHealthCheckerTimeout,
			Transport: &http.Transport{
				DisableKeepAlives: true,
				DialContext: func(ctx context.Context, network, addr string) (net.Conn, error) {
					if mode.Load().(string) == "refuse" {
						probes.Add(1)
						return dialer.DialContext(ctx, network, "127.0.0.1:1") // nothing listens on tcpmux
					}
					return dialer.DialContext(ctx, network, addr)
				},
			},
		}
		rec := &verifRecClient{inner: client}
		ctx := context.Background()
		repo := discovery.NewStaticEndpointRepository()
		prio := 100
		if err := repo.LoadFromConfig(ctx, []config.EndpointConfig{{
			Name: fmt.Sprintf("e1-%d", sn), URL: srv.URL, Type: "ollama", HealthCheckURL: "/health", ModelURL: "/api/tags",
			CheckInterval: time.Duration(ci) * time.Second, CheckTimeout: 100 * time.Millisecond, Priority: &prio,
		}}); err != nil {
			panic(err)
		}
		chk := NewHTTPHealthChecker(repo, lg, rec)
		var cbs atomic.Int64
		// the production callback re-discovers models over HTTP with the context it is given; this one
		// "works" for 40 ms and counts only if its context stayed alive (a cancelled re-discovery is none)
		chk.SetRecoveryCallback(RecoveryCallbackFunc(func(ctx context.Context, e *domain.Endpoint) error {
			select {
			case <-ctx.Done():
				return ctx.Err()
			case <-time.After(40 * time.Millisecond):
				// in every other scenario the FIRST re-discovery fails (the backend was not ready to list yet): it was
				// triggered all the same, and later recoveries must trigger theirs
				if cbs.Add(1) == 1 && sn%2 == 1 {
					return errors.New("verif: model listing not ready")
				}
				return nil
			}
		}))
		retry := core.NewRetryHandler(verifDisc{repo}, lg)
		var _ ports.DiscoveryService = verifDisc{}

		get := func() *domain.Endpoint {
			all, _ := repo.GetAll(ctx)
			return all[0]
		}
		hcURL := get().HealthCheckURLString
		lastSync := time.Now()
		var slowDone chan struct{}  // non-nil while a check is parked at the gate
		var slowShift time.Duration // logical-time shift applied while it was parked
		// shift makes logical time pass by d seconds: every stored timestamp moves by (real elapsed - d)
		shift := func(d int) {
			now := time.Now()
			delta := now.Sub(lastSync) - time.Duration(d)*time.Second
			lastSync = now
			if slowDone != nil {
				slowShift += delta // a parked check computes its timestamps from a local clock reading
			}
			e := get()
			if !e.NextCheckTime.IsZero() {
				e.NextCheckTime = e.NextCheckTime.Add(delta)
			}
			if !e.LastChecked.IsZero() {
				e.LastChecked = e.LastChecked.Add(delta)
			}
			_ = repo.UpdateEndpoint(ctx, e)
			if st, ok := chk.healthClient.circuitBreaker.endpoints.Load(hcURL); ok {
				if v := atomic.LoadInt64(&st.lastFailure); v != 0 {
					atomic.StoreInt64(&st.lastFailure, v+int64(delta))
				}
				if v := atomic.LoadInt64(&st.lastAttempt); v != 0 {
					atomic.StoreInt64(&st.lastAttempt, v+int64(delta))
				}
			}
		}
		// fixSlow moves the record the parked check just wrote by the logical time that passed while it was parked
		fixSlow := func() {
			e := get()
			if !e.NextCheckTime.IsZero() {
				e.NextCheckTime = e.NextCheckTime.Add(slowShift)
			}
			if !e.LastChecked.IsZero() {
				e.LastChecked = e.LastChecked.Add(slowShift)
			}
			_ = repo.UpdateEndpoint(ctx, e)
			slowShift = 0
		}
		state := func(prev string) []any {
			e := get()
			// a recovery callback runs in its own goroutine: give it time when one may be coming
			wait := 3 * time.Millisecond
			if e.Status == domain.StatusHealthy && prev != string(domain.StatusHealthy) {
				wait = 2 * time.Second
			} else if e.Status == domain.StatusHealthy && prev == "slow" {
				// an overlapped store may fire a callback although the stored status did not change
				wait = 600 * time.Millisecond
			}
			before := cbs.Load()
			dl := time.Now().Add(wait)
			for time.Now().Before(dl) {
				if cbs.Load() != before {
					break
				}
				time.Sleep(2 * time.Millisecond)
			}
			iv := int(math.Round(e.NextCheckTime.Sub(e.LastChecked).Seconds()))
			if e.LastChecked.IsZero() {
				iv = 0
			}
			return []any{"status", string(e.Status), "cf", e.ConsecutiveFailures, "mult", e.BackoffMultiplier, "iv", iv, "cb", cbs.Load()}
		}
		// the probe timeout is short only while the backend is scripted to time out: a loaded machine must not
		// turn an answering backend into a timeout
		applyTimeout := func() {
			e := get()
			if mode.Load().(string) == "timeout" {
				e.CheckTimeout = 100 * time.Millisecond
			} else {
				e.CheckTimeout = 3 * time.Second
			}
			_ = repo.UpdateEndpoint(ctx, e)
		}
		// a probe of a backend scripted to hang is real as soon as the health client made its HTTP call: on a loaded
		// machine the 100 ms probe timeout may expire before the backend's handler has even been entered (and counted)
		realProbes := func(calls int64) int64 {
			p := probes.Load()
			if p == 0 && calls > 0 && mode.Load().(string) == "timeout" {
				return calls
			}
			return p
		}
		noteFault := func(calls int64, lerr string) {
			m := mode.Load().(string)
			// (also a probe that ran into its 3 s timeout without the answering backend having seen it)
			if calls > 0 && probes.Load() == 0 && lerr != "" &&
				(m == "ok" || m == "http4xx" || m == "http5xx") {
				envFault = m + " backend never reached: " + lerr
			}
		}
		g := &gate{parked: make(chan struct{}, 1), release: make(chan struct{}, 1)}
		gates.Store(fmt.Sprintf("e1-%d", sn), g)
		defer gates.Delete(fmt.Sprintf("e1-%d", sn))
		b.Emit("Reset", "scn", sn, "ci", ci, "backend", mode.Load().(string))
		for _, s := range steps[1:] {
			name, args := zzverif.Tok(s)
			prev := string(get().Status)
			switch name {
			case "SetBackend":
				shift(0)
				mode.Store(zzverif.Str(args[0]))
				b.Emit("SetBackend", "b", zzverif.Str(args[0]))
			case "Tick":
				d := zzverif.Int(args[0])
				shift(d)
				b.Emit("Tick", "d", d)
			case "Round":
				shift(0)
				applyTimeout()
				probes.Store(0)
				rctx, cancel := context.WithTimeout(ctx, 15*time.Second)
				chk.performHealthChecks(rctx)
				cancel()
				calls, lerr := rec.calls.Swap(0), rec.lastErr()
				noteFault(calls, lerr)
				kv := append([]any{"probes", realProbes(calls), "calls", calls, "err", lerr}, state(prev)...)
				b.Emit("Round", kv...)
			case "RoundCut":
				// a round whose own time budget (60 ms) is shorter than what the probe of a hanging backend takes
				// (its 100 ms probe timeout); any other backend gets the usual budget
				shift(0)
				applyTimeout()
				probes.Store(0)
				budget := 15 * time.Second
				if mode.Load().(string) == "timeout" {
					budget = 60 * time.Millisecond
				}
				rctx, cancel := context.WithTimeout(ctx, budget)
				chk.performHealthChecks(rctx)
				cancel()
				calls, lerr := rec.calls.Swap(0), rec.lastErr()
				noteFault(calls, lerr)
				kv := append([]any{"probes", realProbes(calls), "calls", calls, "err", lerr}, state(prev)...)
				b.Emit("RoundCut", kv...)
			case "SlowBegin":
				// a due check runs its probe and parks before storing the result
				shift(0)
				applyTimeout()
				probes.Store(0)
				g.hold.Store(true)
				slowShift = 0
				slowDone = make(chan struct{})
				go func(done chan struct{}) {
					rctx, cancel := context.WithTimeout(ctx, 20*time.Second)
					chk.performHealthChecks(rctx)
					cancel()
					close(done)
				}(slowDone)
				select {
				case <-g.parked:
					calls, lerr := rec.calls.Swap(0), rec.lastErr()
					noteFault(calls, lerr)
					b.Emit("SlowBegin", "probes", probes.Load(), "calls", calls, "err", lerr)
				case <-slowDone: // nothing was due after all: the spec will not be able to explain a SlowBegin
					g.hold.Store(false)
					slowDone = nil
					b.Emit("SlowBegin", "probes", probes.Load(), "skipped", true)
				case <-time.After(10 * time.Second):
					b.Emit("Hang", "what", "slow check neither parked nor finished")
				}
			case "SlowEnd":
				if slowDone == nil { // the overlapped check never started (it was not due): nothing ends
					continue
				}
				g.release <- struct{}{}
				<-slowDone
				slowDone = nil
				fixSlow()
				if prev == string(domain.StatusHealthy) {
					prev = "slow"
				}
				b.Emit("SlowEnd", state(prev)...)
			case "ProxyFailure":
				shift(0)
				snap := get()
				req := httptest.NewRequest("POST", "/olla/proxy/v1/chat/completions", nil)
				_ = retry.ExecuteWithRetry(ctx, httptest.NewRecorder(), req, []*domain.Endpoint{snap}, verifOneSelector{}, &ports.RequestStats{},
					func(ctx context.Context, w http.ResponseWriter, r *http.Request, e *domain.Endpoint, st *ports.RequestStats) error {
						return &net.OpError{Op: "dial", Net: "tcp", Err: &osSyscallErr{}}
					})
				b.Emit("ProxyFailure", state(prev)...)
			default:
				panic("unknown step " + name)
			}
		}
		if slowDone != nil { // scenario ended with a parked check: let it store, and record that
			prev := string(get().Status)
			g.release <- struct{}{}
			<-slowDone
			fixSlow()
			if prev == string(domain.StatusHealthy) {
				prev = "slow"
			}
			b.Emit("SlowEnd", state(prev)...)
		}
		time.Sleep(70 * time.Millisecond)
		b.Emit("Final", "cb", cbs.Load())
		return envFault
	}
	zzverif.Parallel(len(scns), 40, func(sn int) { // mostly waiting (callbacks, timeouts), not computing
		for try := 0; ; try++ {
			b := tr.Block()
			fault := runOne(sn, b)
			if fault == "" {
				b.Flush()
				return
			}
			fmt.Fprintf(os.Stderr, "ENVFAULT scenario %d try %d: %s\n", sn, try, fault)
			if try == 2 {
				panic("persistent environment fault: " + fault)
			}
		}
	})
}

// verifRecClient counts the checker's HTTP calls and keeps the last transport error (diagnostics only).
type verifRecClient struct {
	inner HTTPClient
	calls atomic.Int64
	mu    sync.Mutex
	last  string
}

func (c *verifRecClient) Do(req *http.Request) (*http.Response, error) {
	c.calls.Add(1)
	resp, err := c.inner.Do(req)
	c.mu.Lock()
	if err != nil {
		c.last = err.Error()
	} else {
		c.last = ""
	}
	c.mu.Unlock()
	return resp, err
}

func (c *verifRecClient) lastErr() string {
	c.mu.Lock()
	defer c.mu.Unlock()
	s := c.last
	c.last = ""
	return s
}

// osSyscallErr is ECONNREFUSED as the kernel reports it for a refused dial.
type osSyscallErr struct{}

func (*osSyscallErr) Error() string { return "connect: connection refused" }
func (*osSyscallErr) Unwrap() error { return syscall.ECONNREFUSED }

var _ = errors.Is
