//go:build verif

package balancer

import (
	"context"
	"encoding/json"
	"fmt"
	"io"
	"log/slog"
	"sync"
	"sync/atomic"
	"testing"

	"github.com/thushan/olla/internal/adapter/stats"
	"github.com/thushan/olla/internal/core/domain"
	"github.com/thushan/olla/internal/logger"
	"github.com/thushan/olla/internal/zzverif"
)

type verifItem struct {
	St string `json:"st"`
	Pr int    `json:"pr"`
}

func verifIndex(eps []*domain.Endpoint, e *domain.Endpoint, err error) int {
	if err != nil || e == nil {
		return 0
	}
	for i, x := range eps {
		if x == e {
			return i + 1
		}
	}
	// not a member of the list it was given: report an impossible index
	return len(eps) + 1
}

// TestVerif_Balancer drives the three real selectors (from balancer.Factory, with the real
// stats.Collector) over TLC-enumerated (list, gauge) inputs and records every result.
func TestVerif_Balancer(t *testing.T) {
	tr := zzverif.OpenTrace()
	defer tr.Close()
	ctx := context.Background()
	lg := logger.NewPlainStyledLogger(slog.New(slog.NewTextHandler(io.Discard, nil)))
	for sn, raw := range zzverif.LoadScenarios() {
		var pair []json.RawMessage
		if err := json.Unmarshal(raw, &pair); err != nil || len(pair) != 2 {
			t.Fatalf("scenario %d: %v", sn, err)
		}
		var items []verifItem
		var g []int
		if err := json.Unmarshal(pair[0], &items); err != nil {
			t.Fatal(err)
		}
		if err := json.Unmarshal(pair[1], &g); err != nil {
			t.Fatal(err)
		}
		col := stats.NewCollector(lg)
		f := NewFactory(col)
		prio, _ := f.Create(DefaultBalancerPriority)
		rr, _ := f.Create(DefaultBalancerRoundRobin)
		lc, _ := f.Create(DefaultBalancerLeastConnections)
		eps := make([]*domain.Endpoint, len(items))
		for i, it := range items {
			// URL spellings seen in real configs: bare, trailing slash, nested base path
			u := fmt.Sprintf("http://10.0.%d.%d:11434", sn%250, i+1)
			switch (sn + i) % 3 {
			case 1:
				u += "/"
			case 2:
				u += "/engines/llama.cpp/"
			}
			eps[i] = &domain.Endpoint{Name: fmt.Sprintf("e%d", i+1), URLString: u, Status: domain.EndpointStatus(it.St), Priority: it.Pr}
		}
		for i, n := range g {
			for k := 0; k < n; k++ {
				lc.IncrementConnections(eps[i])
			}
		}
		gauges := func() []int64 {
			cs := col.GetConnectionStats()
			out := make([]int64, len(eps))
			for i, e := range eps {
				out[i] = cs[e.URLString]
			}
			return out
		}
		tr.Emit("Reset", "scn", sn, "L", items, "g", g)
		tr.Emit("Gauge", "g", gauges())
		// least-connections, with gauge changes through the other selectors' counters
		e, err := lc.Select(ctx, eps)
		r1 := verifIndex(eps, e, err)
		tr.Emit("SelLC", "res", r1)
		if r1 >= 1 && r1 <= len(eps) {
			prio.IncrementConnections(eps[r1-1])
			tr.Emit("Inc", "i", r1)
			e, err = lc.Select(ctx, eps)
			tr.Emit("SelLC", "res", verifIndex(eps, e, err))
			rr.DecrementConnections(eps[r1-1])
			tr.Emit("Dec", "i", r1)
			rr.DecrementConnections(eps[r1-1])
			tr.Emit("Dec", "i", r1)
			tr.Emit("Gauge", "g", gauges())
			e, err = lc.Select(ctx, eps)
			tr.Emit("SelLC", "res", verifIndex(eps, e, err))
		}
		// round robin: 2n+1 consecutive tickets
		for k := 0; k < 2*len(eps)+1; k++ {
			e, err = rr.Select(ctx, eps)
			tr.Emit("SelRR", "res", verifIndex(eps, e, err))
		}
		// priority: one logged selection and a batch for the "eventually picked" clause
		e, err = prio.Select(ctx, eps)
		tr.Emit("SelPrio", "res", verifIndex(eps, e, err))
		routable := 0
		for _, x := range eps {
			if x.Status.IsRoutable() {
				routable++
			}
		}
		k := 4
		if routable >= 2 {
			k = 1500
		}
		seen := map[int]bool{}
		anyErr := false
		for j := 0; j < k; j++ {
			e, err = prio.Select(ctx, eps)
			ix := verifIndex(eps, e, err)
			if ix == 0 {
				anyErr = true
			} else {
				seen[ix] = true
			}
		}
		picked := []int{}
		for ix := range seen {
			picked = append(picked, ix)
		}
		tr.Emit("PrioBatch", "k", k, "picked", picked, "err", anyErr)
		// concurrent round robin: G goroutines share the remaining tickets
		if routable >= 1 {
			const G, m = 8, 25
			cnt := make([]int, len(eps)+2)
			var mu sync.Mutex
			var wg sync.WaitGroup
			for gi := 0; gi < G; gi++ {
				wg.Add(1)
				go func() {
					defer wg.Done()
					local := make([]int, len(eps)+2)
					for j := 0; j < m; j++ {
						e, err := rr.Select(ctx, eps)
						local[verifIndex(eps, e, err)]++
					}
					mu.Lock()
					for i, v := range local {
						cnt[i] += v
					}
					mu.Unlock()
				}()
			}
			wg.Wait()
			if cnt[0] == 0 && cnt[len(eps)+1] == 0 {
				tr.Emit("RRBatch", "T", G*m, "cnt", cnt[1:len(eps)+1])
			} else {
				tr.Emit("SelRR", "res", len(eps)+1) // errors or foreign results: unexplainable on purpose
			}
		}
		// one selector instance serves all requests, each with its own candidate list: concurrent selections over
		// DIFFERENT lists must each return a member of the list they were given (every 40th input; two disjoint
		// lists of 512 routable endpoints keep whatever a selector does per call busy for a while)
		if sn%40 == 0 {
			// (list sizes alternate between inputs: 512 keeps a selector busy per call, 5 is what deployments have --
			// a selector may treat short lists differently, e.g. with a fixed-size scratch area)
			size := 512
			if (sn/40)%2 == 1 {
				size = 5
			}
			mk := func(tag string) []*domain.Endpoint {
				l := make([]*domain.Endpoint, size)
				for i := range l {
					l[i] = &domain.Endpoint{Name: fmt.Sprintf("%s%d", tag, i), URLString: fmt.Sprintf("http://10.%s.%d.%d:11434", map[string]string{"a": "1", "b": "2"}[tag], i/250, i%250+1),
						Status: domain.StatusHealthy, Priority: 100}
				}
				return l
			}
			la, lb := mk("a"), mk("b")
			own := map[*domain.Endpoint]string{}
			for _, e := range la {
				own[e] = "a"
			}
			for _, e := range lb {
				own[e] = "b"
			}
			for _, sel := range []struct {
				name string
				s    domain.EndpointSelector
			}{{"round-robin", rr}, {"priority", prio}, {"least-connections", lc}} {
				var foreign, errs atomic.Int64
				var wg sync.WaitGroup
				for gi := 0; gi < 8; gi++ {
					wg.Add(1)
					go func(gi int) {
						defer wg.Done()
						list, tag := la, "a"
						if gi%2 == 1 {
							list, tag = lb, "b"
						}
						rounds := 400
						if size < 100 {
							rounds = 20000
						}
						for j := 0; j < rounds; j++ {
							e, err := sel.s.Select(ctx, list)
							if err != nil || e == nil {
								errs.Add(1)
							} else if own[e] != tag {
								foreign.Add(1)
							}
						}
					}(gi)
				}
				wg.Wait()
				tr.Emit("Foreign", "sel", sel.name, "foreign", foreign.Load(), "errs", errs.Load())
			}
			// a wide top tier: 20 routable endpoints of one priority (and a lower tier): every one of them is picked
			wide := make([]*domain.Endpoint, 0, 24)
			for i := 0; i < 20; i++ {
				wide = append(wide, &domain.Endpoint{Name: fmt.Sprintf("w%d", i), URLString: fmt.Sprintf("http://10.3.0.%d:11434", i+1), Status: domain.StatusHealthy, Priority: 100})
			}
			for i := 0; i < 4; i++ {
				wide = append(wide, &domain.Endpoint{Name: fmt.Sprintf("low%d", i), URLString: fmt.Sprintf("http://10.3.1.%d:11434", i+1), Status: domain.StatusHealthy, Priority: 10})
			}
			pickedTop, pickedLow := map[string]bool{}, 0
			for j := 0; j < 6000; j++ {
				if e, err := prio.Select(ctx, wide); err == nil && e != nil {
					if e.Priority == 100 {
						pickedTop[e.Name] = true
					} else {
						pickedLow++
					}
				}
			}
			tr.Emit("WideTier", "top", 20, "pickedTop", len(pickedTop), "pickedLow", pickedLow)
		}
	}
}
