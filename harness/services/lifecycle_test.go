//go:build verif

package services

import (
	"context"
	"encoding/json"
	"errors"
	"io"
	"log/slog"
	"sort"
	"testing"
	"time"

	"github.com/thushan/olla/internal/logger"
	"github.com/thushan/olla/internal/zzverif"
)

type verifLifeScn struct {
	Deps      map[string][]string `json:"deps"`
	FailStart []string            `json:"failStart"`
	FailStop  []string            `json:"failStop"`
}

// verifFakeSvc is a ManagedService that records when the manager calls it.
type verifFakeSvc struct {
	name      string
	deps      []string
	failStart bool
	failStop  bool
	b         *zzverif.Block
}

func (s *verifFakeSvc) Name() string           { return s.name }
func (s *verifFakeSvc) Dependencies() []string { return s.deps }
func (s *verifFakeSvc) Start(ctx context.Context) error {
	s.b.Emit("StartSvc", "s", s.name, "err", s.failStart)
	if s.failStart {
		return errors.New("start failed: " + s.name)
	}
	return nil
}
func (s *verifFakeSvc) Stop(ctx context.Context) error {
	s.b.Emit("StopSvc", "s", s.name)
	if s.failStop {
		return errors.New("stop failed: " + s.name)
	}
	return nil
}

func verifHas(xs []string, x string) bool {
	for _, y := range xs {
		if y == x {
			return true
		}
	}
	return false
}

// TestVerif_Lifecycle runs the real ServiceManager over TLC-generated (dependency graph, failing
// services) scenarios with recording fake services. No assertions: TLC judges the trace.
func TestVerif_Lifecycle(t *testing.T) {
	tr := zzverif.OpenTrace()
	defer tr.Close()
	lg := logger.NewPlainStyledLogger(slog.New(slog.NewTextHandler(io.Discard, nil)))
	scns := zzverif.LoadScenarios()
	zzverif.Parallel(len(scns), 8, func(sn int) {
		var sc verifLifeScn
		if err := json.Unmarshal(scns[sn], &sc); err != nil {
			panic(err)
		}
		b := tr.Block()
		defer b.Flush()
		if sc.FailStart == nil {
			sc.FailStart = []string{}
		}
		if sc.FailStop == nil {
			sc.FailStop = []string{}
		}
		b.Emit("Reset", "scn", sn, "deps", sc.Deps, "failStart", sc.FailStart, "failStop", sc.FailStop)
		names := make([]string, 0, len(sc.Deps))
		for n := range sc.Deps {
			names = append(names, n)
		}
		// registration order must not matter; vary it with the scenario number
		sort.Strings(names)
		for i := 0; i < sn%len(names); i++ {
			names = append(names[1:], names[0])
		}
		sm := NewServiceManager(lg)
		for _, n := range names {
			if err := sm.Register(&verifFakeSvc{name: n, deps: sc.Deps[n], failStart: verifHas(sc.FailStart, n), failStop: verifHas(sc.FailStop, n), b: b}); err != nil {
				panic(err)
			}
		}
		done := make(chan struct{})
		go func() {
			defer close(done)
			defer func() {
				if r := recover(); r != nil {
					b.Emit("Panic", "what", r)
				}
			}()
			ctx := context.Background()
			b.Emit("Begin")
			err := sm.Start(ctx)
			b.Emit("StartRet", "err", err != nil)
			if err == nil {
				b.Emit("StopCall")
				err = sm.Stop(ctx)
				b.Emit("StopRet", "err", err != nil)
			}
		}()
		select {
		case <-done:
		case <-time.After(20 * time.Second):
			b.Emit("Hang")
		}
	})
}
