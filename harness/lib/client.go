package zzverif

import (
	"bufio"
	"bytes"
	"fmt"
	"io"
	"net"
	"net/http"
	"regexp"
	"strconv"
	"strings"
	"time"
)

// Resp is what a raw client saw.
type Resp struct {
	Status   int
	Header   http.Header
	Body     []byte
	Complete bool   // body was read to its proper end (Content-Length reached / terminal chunk)
	Err      string // transport-level error, if any
	Elapsed  time.Duration
	NoResp   bool // not even a status line
}

// Req describes a raw HTTP/1.1 request; everything is written literally.
type Req struct {
	Method  string
	Target  string
	Headers []string // "Name: value" lines, literal
	Body    []byte
	Chunked bool // send Body with Transfer-Encoding: chunked (in ChunkSize pieces)
	ChunkSz int
	Timeout time.Duration
	// AbortAfter > 0: close the connection after that many response body bytes have been read
	AbortAfter int
	LocalIP    string // source address to dial from (e.g. 127.0.0.2)
	OnChunk    func(n int, total int)
	OnData     func(sofar []byte) // called after every read with everything received so far (do not retain)
}

func (q *Req) bytes(host string) []byte {
	var b bytes.Buffer
	fmt.Fprintf(&b, "%s %s HTTP/1.1\r\n", q.Method, q.Target)
	hasHost := false
	for _, h := range q.Headers {
		if strings.HasPrefix(strings.ToLower(h), "host:") {
			hasHost = true
		}
	}
	if !hasHost {
		fmt.Fprintf(&b, "Host: %s\r\n", host)
	}
	for _, h := range q.Headers {
		b.WriteString(h)
		b.WriteString("\r\n")
	}
	b.WriteString("Connection: close\r\n")
	if q.Chunked {
		b.WriteString("Transfer-Encoding: chunked\r\n\r\n")
		sz := q.ChunkSz
		if sz <= 0 {
			sz = 1024
		}
		for off := 0; off < len(q.Body); off += sz {
			end := off + sz
			if end > len(q.Body) {
				end = len(q.Body)
			}
			fmt.Fprintf(&b, "%x\r\n", end-off)
			b.Write(q.Body[off:end])
			b.WriteString("\r\n")
		}
		b.WriteString("0\r\n\r\n")
	} else {
		if q.Body != nil || q.Method == "POST" || q.Method == "PUT" {
			fmt.Fprintf(&b, "Content-Length: %d\r\n", len(q.Body))
		}
		b.WriteString("\r\n")
		b.Write(q.Body)
	}
	return b.Bytes()
}

// Do sends the request to addr (host:port) on a fresh connection and reads the response.
func Do(addr string, q *Req) *Resp {
	start := time.Now()
	to := q.Timeout
	if to == 0 {
		to = 30 * time.Second
	}
	res := &Resp{}
	d := net.Dialer{Timeout: 5 * time.Second}
	if q.LocalIP != "" {
		d.LocalAddr = &net.TCPAddr{IP: net.ParseIP(q.LocalIP)}
	}
	c, err := d.Dial("tcp", addr)
	if err != nil {
		res.Err = "dial: " + err.Error()
		res.NoResp = true
		return res
	}
	defer c.Close()
	c.SetDeadline(time.Now().Add(to))
	if _, err := c.Write(q.bytes(addr)); err != nil {
		res.Err = "write: " + err.Error()
	}
	br := bufio.NewReader(c)
	resp, err := http.ReadResponse(br, &http.Request{Method: q.Method})
	if err != nil {
		res.Err = "read response: " + err.Error()
		res.NoResp = true
		res.Elapsed = time.Since(start)
		return res
	}
	res.Status = resp.StatusCode
	res.Header = resp.Header
	var body bytes.Buffer
	buf := make([]byte, 32<<10)
	for {
		n, rerr := resp.Body.Read(buf)
		if n > 0 {
			body.Write(buf[:n])
			if q.OnChunk != nil {
				q.OnChunk(n, body.Len())
			}
			if q.OnData != nil {
				q.OnData(body.Bytes())
			}
			if q.AbortAfter > 0 && body.Len() >= q.AbortAfter {
				res.Err = "aborted by client"
				break
			}
		}
		if rerr == io.EOF {
			res.Complete = true
			break
		}
		if rerr != nil {
			res.Err = "read body: " + rerr.Error()
			break
		}
	}
	res.Body = body.Bytes()
	res.Elapsed = time.Since(start)
	return res
}

var tokRe = regexp.MustCompile(`\[([A-Za-z0-9_]+):(\d+):(\d{4})\]`)

// Run is a maximal run of consecutive tokens of one attempt: n tokens starting at index from.
type Run struct {
	E    string `json:"e"`
	A    int    `json:"a"`
	From int    `json:"from"`
	N    int    `json:"n"`
}

// Attribute splits a delivered body into token runs; junk = number of bytes that are not part of
// any well-formed token (olla-generated text, partial tokens, ...).
func Attribute(body []byte) (runs []Run, junk int) {
	pos := 0
	for _, m := range tokRe.FindAllSubmatchIndex(body, -1) {
		junk += m[0] - pos
		pos = m[1]
		e := string(body[m[2]:m[3]])
		a, _ := strconv.Atoi(string(body[m[4]:m[5]]))
		i, _ := strconv.Atoi(string(body[m[6]:m[7]]))
		if k := len(runs) - 1; k >= 0 && runs[k].E == e && runs[k].A == a && runs[k].From+runs[k].N == i {
			runs[k].N++
		} else {
			runs = append(runs, Run{E: e, A: a, From: i, N: 1})
		}
	}
	junk += len(body) - pos
	return runs, junk
}
