// Package zzverif is the verification harness library. It is projected into
// /repo/internal/zzverif by a go build overlay (see /verif/bin/verif); it never
// judges a property: it drives the real code and records what happened.
package zzverif

import (
	"bufio"
	"encoding/json"
	"fmt"
	"os"
	"strconv"
	"sync"
)

// Ev is one trace event. Keys are spec-level field names.
type Ev map[string]any

// Trace is an NDJSON trace writer. seq is assigned under the mutex at the moment
// the harness observes the event.
type Trace struct {
	mu  sync.Mutex
	f   *os.File
	w   *bufio.Writer
	seq int
}

func OpenTrace() *Trace {
	p := os.Getenv("VERIF_TRACE")
	if p == "" {
		panic("VERIF_TRACE not set")
	}
	f, err := os.Create(p)
	if err != nil {
		panic(err)
	}
	return &Trace{f: f, w: bufio.NewWriterSize(f, 1<<20)}
}

func (t *Trace) Emit(name string, kv ...any) {
	e := Ev{"ev": name}
	for i := 0; i+1 < len(kv); i += 2 {
		e[kv[i].(string)] = kv[i+1]
	}
	t.EmitEv(e)
}

func (t *Trace) EmitEv(e Ev) {
	t.mu.Lock()
	defer t.mu.Unlock()
	t.seq++
	e["seq"] = t.seq
	b, err := json.Marshal(e)
	if err != nil {
		panic(err)
	}
	t.w.Write(b)
	t.w.WriteByte('\n')
}

// Sync flushes buffered events to the file (so that they survive a crash of the process).
func (t *Trace) Sync() {
	t.mu.Lock()
	defer t.mu.Unlock()
	t.w.Flush()
}

func (t *Trace) Close() {
	t.mu.Lock()
	defer t.mu.Unlock()
	t.w.Flush()
	t.f.Close()
}

// LoadScenarios reads one JSON value per line from VERIF_SCN.
func LoadScenarios() []json.RawMessage {
	p := os.Getenv("VERIF_SCN")
	if p == "" {
		panic("VERIF_SCN not set")
	}
	f, err := os.Open(p)
	if err != nil {
		panic(err)
	}
	defer f.Close()
	var out []json.RawMessage
	sc := bufio.NewScanner(f)
	sc.Buffer(make([]byte, 1<<20), 1<<26)
	for sc.Scan() {
		line := sc.Bytes()
		if len(line) == 0 {
			continue
		}
		out = append(out, append(json.RawMessage(nil), line...))
	}
	if err := sc.Err(); err != nil {
		panic(err)
	}
	return out
}

// Seed returns VERIF_SEED (default 1).
func Seed() int64 {
	if s := os.Getenv("VERIF_SEED"); s != "" {
		if n, err := strconv.ParseInt(s, 10, 64); err == nil {
			return n
		}
	}
	return 1
}

// Tok decodes a scenario token that is either a string ("Ask") or a tuple
// (["Tick", 3]) into its name and arguments.
func Tok(raw json.RawMessage) (string, []json.RawMessage) {
	var s string
	if json.Unmarshal(raw, &s) == nil {
		return s, nil
	}
	var arr []json.RawMessage
	if err := json.Unmarshal(raw, &arr); err != nil || len(arr) == 0 {
		panic(fmt.Sprintf("bad token %s", raw))
	}
	if err := json.Unmarshal(arr[0], &s); err != nil {
		panic(fmt.Sprintf("bad token %s", raw))
	}
	return s, arr[1:]
}

func Int(raw json.RawMessage) int {
	var n int
	if err := json.Unmarshal(raw, &n); err != nil {
		panic(fmt.Sprintf("bad int %s", raw))
	}
	return n
}

func Str(raw json.RawMessage) string {
	var s string
	if err := json.Unmarshal(raw, &s); err != nil {
		panic(fmt.Sprintf("bad string %s", raw))
	}
	return s
}

// Block collects the events of one scenario so that scenarios can run in parallel and
// still appear contiguously in the trace file.
type Block struct {
	t  *Trace
	ev []Ev
}

func (t *Trace) Block() *Block { return &Block{t: t} }

func (b *Block) Emit(name string, kv ...any) {
	e := Ev{"ev": name}
	for i := 0; i+1 < len(kv); i += 2 {
		e[kv[i].(string)] = kv[i+1]
	}
	b.ev = append(b.ev, e)
}

func (b *Block) Flush() {
	b.t.mu.Lock()
	defer b.t.mu.Unlock()
	for _, e := range b.ev {
		b.t.seq++
		e["seq"] = b.t.seq
		j, err := json.Marshal(e)
		if err != nil {
			panic(err)
		}
		b.t.w.Write(j)
		b.t.w.WriteByte('\n')
	}
	b.ev = nil
}

// Parallel runs fn(i) for i in [0,n) on `width` goroutines.
func Parallel(n, width int, fn func(i int)) {
	var wg sync.WaitGroup
	ch := make(chan int)
	for w := 0; w < width; w++ {
		wg.Add(1)
		go func() {
			defer wg.Done()
			for i := range ch {
				fn(i)
			}
		}()
	}
	for i := 0; i < n; i++ {
		ch <- i
	}
	close(ch)
	wg.Wait()
}
