package zzverif

import (
	"bufio"
	"bytes"
	"crypto/sha256"
	"encoding/hex"
	"fmt"
	"io"
	"net"
	"net/http"
	"os"
	"path/filepath"
	"sort"
	"strconv"
	"strings"
	"sync"
	"sync/atomic"
	"syscall"
	"time"
)

// Plan is what a scripted backend does with one proxied request (one "attempt").
//
//	ok             status + full body of N tokens (Content-Length or chunked)
//	http           like ok but with an error status and an error body (Body)
//	reset_pre      read the request, then RST without a byte
//	close_pre      read the request, then FIN without a byte
//	garbage        answer with bytes that are not HTTP, then close
//	hdr_then_reset status line + headers, then RST
//	reset_after    headers + K of N tokens, then RST
//	close_after    headers + K of N tokens, then FIN (short Content-Length / missing last chunk)
//	stall_after    headers + K of N tokens, then nothing until released or the peer goes away
//	stall_pre      read the request, then nothing at all until the peer goes away
//	raw            write Raw verbatim, then close
type Plan struct {
	Kind      string            `json:"kind"`
	Status    int               `json:"status,omitempty"`
	Chunked   bool              `json:"chunked,omitempty"`
	N         int               `json:"n,omitempty"`
	K         int               `json:"k,omitempty"`
	CT        string            `json:"ct,omitempty"`
	Body      string            `json:"body,omitempty"` // explicit body instead of tokens
	Chunks    [][]byte          `json:"-"`              // explicit chunk list instead of tokens (each written separately)
	Raw       string            `json:"raw,omitempty"`
	Hdr       map[string]string `json:"hdr,omitempty"`
	GapMs     int               `json:"gap_ms,omitempty"`     // pause between tokens
	TailBytes int               `json:"tail_bytes,omitempty"` // Body only: its last n bytes are written separately, 40 ms later
	// Gate, when non-nil, is consulted before each token i (0-based) is written: the backend
	// blocks until the function returns (used for causally gated streaming, C18)
	Gate func(i int) `json:"-"`
}

// Recv is one parsed request as the backend received it.
type Recv struct {
	Backend   *Backend
	Method    string
	Target    string // request-target exactly as on the request line
	Proto     string
	Host      string
	Header    http.Header
	RawHeader []string // header lines in wire order, verbatim
	Body      []byte
	BodySHA   string
	Chunked   bool
	ReqID     string // X-Verif-Req, if present
	Attempt   int    // how many times this ReqID has reached any backend of the group (1-based)
	Conn      net.Conn
	CloseSeen func() bool // has the peer closed / reset the connection
}

// Group shares the per-request attempt counter between the backends of one stack.
type Group struct {
	mu       sync.Mutex
	attempts map[string]int
}

func NewGroup() *Group { return &Group{attempts: map[string]int{}} }

func (g *Group) next(id string) int {
	g.mu.Lock()
	defer g.mu.Unlock()
	g.attempts[id]++
	return g.attempts[id]
}

// Backend is a scripted HTTP/1.1 server on a raw TCP listener, so that it can misbehave at
// socket level.
type Backend struct {
	Name  string
	Group *Group

	HealthPath   string // exact path answered by the health script
	ModelsPath   string // exact path answered by the listing script
	HealthStatus atomic.Int32
	HealthHold   atomic.Pointer[chan struct{}] // when set, health answers wait for close(ch)
	ModelsStatus atomic.Int32
	modelsBody   atomic.Value // []byte
	// HealthRaw, when set to a non-empty []byte, is written verbatim as the answer to a health probe
	// and the connection is closed (for answers that are not well-formed HTTP)
	HealthRaw atomic.Value

	// OnAttempt decides what to do with a proxied request (and is where the harness logs it).
	OnAttempt func(r *Recv) Plan
	// OnAux is told about health/listing requests (may be nil)
	OnAux func(kind string, r *Recv)
	// OnDone is called when the plan has been executed; wrote = tokens written, peerGone = the proxy
	// closed the connection before we finished
	OnDone func(r *Recv, p Plan, wrote int, peerGone bool)

	mu    sync.Mutex
	ln    net.Listener
	addr  string
	down  bool
	conns map[net.Conn]struct{}
	wg    sync.WaitGroup

	bhFd    int        // raw listening socket while the backend is a black hole
	bhConns []net.Conn // connections that keep its accept queue full
}

func NewBackend(name string, g *Group) *Backend {
	b := &Backend{Name: name, Group: g, HealthPath: "/health", ModelsPath: "/v1/models", conns: map[net.Conn]struct{}{}}
	b.HealthStatus.Store(200)
	b.ModelsStatus.Store(200)
	b.SetModelsOpenAI([]string{"m1"})
	for {
		ln, err := net.Listen("tcp", fmt.Sprintf("127.0.0.1:%d", nextPort()))
		if err != nil {
			continue
		}
		b.ln = ln
		b.addr = ln.Addr().String()
		go b.serve(ln)
		return b
	}
}

const (
	portLo, portHi = 12000, 32000 // below the kernel's ephemeral range
	portBlock      = 500
)

var (
	portMu     sync.Mutex
	portBlocks []int // indices of the blocks this process holds (each under an exclusive flock until it exits)
	portCur    int   // next unused port of the newest block
	portEnd    int
	portWrap   int // when no block is left to lease: own blocks are walked again from the start
)

// leaseBlock takes an exclusive advisory lock on one block of the private port range. Several test
// processes may run at once (checks started in parallel, a background sweep): a listener one of them closes
// on purpose ("connection refused") must not be picked up by another one's backend.
func leaseBlock() bool {
	dir := filepath.Join(os.TempDir(), "verif-portblocks")
	_ = os.MkdirAll(dir, 0o777)
	n := (portHi - portLo) / portBlock
	start := os.Getpid() % n
	for k := 0; k < n; k++ {
		idx := (start + k) % n
		base := portLo + idx*portBlock
		f, err := os.OpenFile(filepath.Join(dir, fmt.Sprintf("port%05d", base)), os.O_CREATE|os.O_RDWR, 0o666)
		if err != nil {
			continue
		}
		if syscall.Flock(int(f.Fd()), syscall.LOCK_EX|syscall.LOCK_NB) != nil {
			f.Close()
			continue
		}
		// (processes of an earlier revision of this harness lease 21000.. under the names block00..block21: a block
		// in that range is taken under both names, so that a sweep started from an older snapshot is respected)
		if base >= 21000 {
			g, err := os.OpenFile(filepath.Join(dir, fmt.Sprintf("block%02d", (base-21000)/portBlock)), os.O_CREATE|os.O_RDWR, 0o666)
			if err != nil || syscall.Flock(int(g.Fd()), syscall.LOCK_EX|syscall.LOCK_NB) != nil {
				if g != nil {
					g.Close()
				}
				f.Close()
				continue
			}
			portLeaseFiles = append(portLeaseFiles, g)
		}
		portLeaseFiles = append(portLeaseFiles, f) // kept open: the lock lives as long as the process
		portBlocks = append(portBlocks, idx)
		portCur = portLo + idx*portBlock
		portEnd = portCur + portBlock
		return true
	}
	return false
}

var portLeaseFiles []*os.File

// nextPort hands out every port at most once per process (and, through the block leases, to one process at a
// time): a listener that is closed on purpose can then never be re-used by another stack's listener or by an
// outbound connection, and two stacks never share an address.
func nextPort() int {
	portMu.Lock()
	defer portMu.Unlock()
	if portCur >= portEnd {
		if !leaseBlock() {
			// every block is held: walk this process's own blocks again (their early ports are long closed)
			if len(portBlocks) == 0 {
				// nothing to fall back on: other test processes hold every block. Wait for one to finish rather
				// than share addresses with them (a foreign listener on a port this process believes to be its
				// own answers in the name of the wrong stack)
				for t0 := time.Now(); time.Since(t0) < 3*time.Minute; {
					portMu.Unlock()
					time.Sleep(500 * time.Millisecond)
					portMu.Lock()
					if leaseBlock() {
						break
					}
				}
				if len(portBlocks) == 0 {
					portCur, portEnd = portLo+(os.Getpid()%20)*portBlock, portHi // no lock directory at all: as before
				}
			} else {
				idx := portBlocks[portWrap%len(portBlocks)]
				portWrap++
				portCur = portLo + idx*portBlock
				portEnd = portCur + portBlock
			}
		}
	}
	p := portCur
	portCur++
	return p
}

// FreePort returns an unused port from the private range.
func FreePort() int {
	for {
		p := nextPort()
		l, err := net.Listen("tcp", fmt.Sprintf("127.0.0.1:%d", p))
		if err != nil {
			continue
		}
		l.Close()
		return p
	}
}

func (b *Backend) Addr() string { return b.addr }
func (b *Backend) URL() string  { return "http://" + b.addr }

// SetModelsOpenAI sets the listing. The body is a polyglot: an OpenAI-style "data" array (read by the
// openai / vllm / sglang / llamacpp / lm-studio parsers) and an Ollama-style "models" array (read by
// the ollama parser) naming the same models, so every provider type can discover them.
func (b *Backend) SetModelsOpenAI(models []string) {
	var sb strings.Builder
	sb.WriteString(`{"object":"list","data":[`)
	for i, m := range models {
		if i > 0 {
			sb.WriteString(",")
		}
		fmt.Fprintf(&sb, `{"id":%q,"object":"model","created":1700000000,"owned_by":"verif"}`, m)
	}
	sb.WriteString(`],"models":[`)
	for i, m := range models {
		if i > 0 {
			sb.WriteString(",")
		}
		fmt.Fprintf(&sb, `{"name":%q,"model":%q,"modified_at":"2024-01-01T00:00:00Z","size":1000,"digest":"sha256:%s","details":{"family":%q,"parameter_size":"%dB","quantization_level":"Q4_0"}}`, m, m, digestOf(m), "fam"+m, 3+len(m))
	}
	sb.WriteString(`]}`)
	b.modelsBody.Store([]byte(sb.String()))
}

func (b *Backend) SetModelsRaw(body []byte) { b.modelsBody.Store(body) }

// SetDown closes (true) or re-opens (false) the listener on the same port.
func (b *Backend) SetDown(down bool) {
	b.mu.Lock()
	defer b.mu.Unlock()
	if down == b.down {
		return
	}
	b.down = down
	if down {
		b.ln.Close()
		for c := range b.conns {
			c.Close()
		}
		// "down" means refusing from now on: do not return before a fresh dial really is refused (a connection
		// the kernel completed just before the close would otherwise still look like a live backend)
		for i := 0; i < 100; i++ {
			c, err := net.DialTimeout("tcp", b.addr, 200*time.Millisecond)
			if err != nil {
				break
			}
			c.Close()
			time.Sleep(2 * time.Millisecond)
		}
		return
	}
	for i := 0; i < 200; i++ {
		ln, err := net.Listen("tcp", b.addr)
		if err == nil {
			b.ln = ln
			go b.serve(ln)
			return
		}
		time.Sleep(10 * time.Millisecond)
	}
	panic("could not re-open " + b.addr)
}

// SetBlackHole(true) turns the backend's address into one where connections neither succeed nor are
// refused: the listener is replaced by a raw socket with a backlog of zero whose accept queue is kept full
// and never drained, so the kernel drops every further SYN and a dial hangs until the dialler's own
// timeout. SetBlackHole(false) restores the normal listener.
func (b *Backend) SetBlackHole(on bool) {
	if on {
		b.SetDown(true)
		b.mu.Lock()
		defer b.mu.Unlock()
		_, portStr, _ := net.SplitHostPort(b.addr)
		port, _ := strconv.Atoi(portStr)
		for i := 0; ; i++ {
			fd, err := syscall.Socket(syscall.AF_INET, syscall.SOCK_STREAM, 0)
			if err != nil {
				panic(err)
			}
			_ = syscall.SetsockoptInt(fd, syscall.SOL_SOCKET, syscall.SO_REUSEADDR, 1)
			err = syscall.Bind(fd, &syscall.SockaddrInet4{Port: port, Addr: [4]byte{127, 0, 0, 1}})
			if err == nil {
				err = syscall.Listen(fd, 0)
			}
			if err != nil {
				syscall.Close(fd)
				if i > 200 {
					panic("black hole: " + err.Error())
				}
				time.Sleep(10 * time.Millisecond)
				continue
			}
			b.bhFd = fd
			break
		}
		// fill the accept queue: dial until a dial times out
		for i := 0; i < 8; i++ {
			c, err := net.DialTimeout("tcp", b.addr, 150*time.Millisecond)
			if err != nil {
				return
			}
			b.bhConns = append(b.bhConns, c)
		}
		panic("black hole: the accept queue never filled up")
	}
	b.mu.Lock()
	if b.bhFd != 0 {
		syscall.Close(b.bhFd)
		b.bhFd = 0
	}
	for _, c := range b.bhConns {
		c.Close()
	}
	b.bhConns = nil
	b.mu.Unlock()
	b.SetDown(false)
}

func (b *Backend) Close() {
	b.mu.Lock()
	if b.bhFd != 0 {
		syscall.Close(b.bhFd)
		b.bhFd = 0
	}
	for _, c := range b.bhConns {
		c.Close()
	}
	b.bhConns = nil
	b.down = true
	b.ln.Close()
	for c := range b.conns {
		c.Close()
	}
	b.mu.Unlock()
}

func (b *Backend) serve(ln net.Listener) {
	for {
		c, err := ln.Accept()
		if err != nil {
			return
		}
		b.mu.Lock()
		b.conns[c] = struct{}{}
		b.mu.Unlock()
		go func() {
			defer func() {
				b.mu.Lock()
				delete(b.conns, c)
				b.mu.Unlock()
				c.Close()
			}()
			b.handleConn(c)
		}()
	}
}

// teeLines remembers raw bytes so that the header block can be reported verbatim.
type teeReader struct {
	r   io.Reader
	buf bytes.Buffer
}

func (t *teeReader) Read(p []byte) (int, error) {
	n, err := t.r.Read(p)
	t.buf.Write(p[:n])
	return n, err
}

func rst(c net.Conn) {
	if tc, ok := c.(*net.TCPConn); ok {
		tc.SetLinger(0)
	}
	c.Close()
}

func (b *Backend) handleConn(c net.Conn) {
	tee := &teeReader{r: c}
	br := bufio.NewReaderSize(tee, 64<<10)
	for {
		tee.buf.Reset()
		// bytes already buffered in br belong to this request too; they were tee'd earlier. To keep the
		// raw header exact we read the head ourselves.
		head, err := readHead(br)
		if err != nil {
			return
		}
		req, err := http.ReadRequest(bufio.NewReader(io.MultiReader(bytes.NewReader(head), br)))
		if err != nil {
			return
		}
		lines := strings.Split(strings.TrimRight(string(head), "\r\n"), "\r\n")
		r := &Recv{Backend: b, Method: req.Method, Proto: req.Proto, Host: req.Host, Header: req.Header, Conn: c}
		if len(lines) > 0 {
			parts := strings.SplitN(lines[0], " ", 3)
			if len(parts) >= 2 {
				r.Target = parts[1]
			}
			r.RawHeader = lines[1:]
		}
		for _, te := range req.TransferEncoding {
			if te == "chunked" {
				r.Chunked = true
			}
		}
		body, _ := io.ReadAll(req.Body)
		r.Body = body
		sum := sha256.Sum256(body)
		r.BodySHA = hex.EncodeToString(sum[:])
		r.ReqID = req.Header.Get("X-Verif-Req")
		path := r.Target
		if i := strings.IndexByte(path, '?'); i >= 0 {
			path = path[:i]
		}
		switch {
		case req.Method == "GET" && path == b.HealthPath && r.ReqID == "":
			if b.OnAux != nil {
				b.OnAux("health", r)
			}
			if ch := b.HealthHold.Load(); ch != nil {
				<-*ch
			}
			if raw, ok := b.HealthRaw.Load().([]byte); ok && len(raw) > 0 {
				c.Write(raw)
				return
			}
			st := int(b.HealthStatus.Load())
			if st == 0 { // 0 = drop the connection
				rst(c)
				return
			}
			writeSimple(c, st, "application/json", []byte(`{"status":"ok"}`))
		case req.Method == "GET" && path == b.ModelsPath && r.ReqID == "":
			if b.OnAux != nil {
				b.OnAux("models", r)
			}
			st := int(b.ModelsStatus.Load())
			if st == 0 {
				rst(c)
				return
			}
			writeSimple(c, st, "application/json", b.modelsBody.Load().([]byte))
		default:
			if r.ReqID != "" && b.Group != nil {
				r.Attempt = b.Group.next(r.ReqID)
			}
			plan := Plan{Kind: "ok", Status: 200, N: 3}
			if b.OnAttempt != nil {
				plan = b.OnAttempt(r)
			}
			keep := b.execute(c, r, plan)
			if !keep {
				return
			}
		}
		if req.Close {
			return
		}
	}
}

func readHead(br *bufio.Reader) ([]byte, error) {
	var head []byte
	for {
		line, err := br.ReadBytes('\n')
		head = append(head, line...)
		if err != nil {
			return nil, err
		}
		if len(line) <= 2 && (string(line) == "\r\n" || string(line) == "\n") {
			return head, nil
		}
		if len(head) > 4<<20 {
			return nil, fmt.Errorf("header too large")
		}
	}
}

func writeSimple(c net.Conn, status int, ct string, body []byte) {
	fmt.Fprintf(c, "HTTP/1.1 %d %s\r\nContent-Type: %s\r\nContent-Length: %d\r\n\r\n", status, http.StatusText(status), ct, len(body))
	c.Write(body)
}

func digestOf(s string) string {
	sum := sha256.Sum256([]byte(s))
	return hex.EncodeToString(sum[:])
}

// Token is the i-th body token of attempt a on backend e; every delivered byte can be attributed.
func Token(e string, a, i int) string { return fmt.Sprintf("[%s:%d:%04d]", e, a, i) }

// execute carries out the plan; returns whether the connection may be reused.
func (b *Backend) execute(c net.Conn, r *Recv, p Plan) bool {
	wrote := 0
	peerGone := false
	done := func() {
		if b.OnDone != nil {
			b.OnDone(r, p, wrote, peerGone)
		}
	}
	switch p.Kind {
	case "reset_pre":
		rst(c)
		done()
		return false
	case "close_pre":
		c.Close()
		done()
		return false
	case "stall_pre":
		// say nothing at all: wait until the peer goes away (or 20 s)
		c.SetReadDeadline(time.Now().Add(20 * time.Second))
		buf := make([]byte, 1)
		if _, err := c.Read(buf); err != nil && !isTimeout(err) {
			peerGone = true
		}
		done()
		return false
	case "garbage":
		c.Write([]byte("THIS IS NOT HTTP\r\n\r\n"))
		c.Close()
		done()
		return false
	case "raw":
		c.Write([]byte(p.Raw))
		c.Close()
		done()
		return false
	}
	status := p.Status
	if status == 0 {
		status = 200
	}
	ct := p.CT
	if ct == "" {
		ct = "application/json"
	}
	var toks []string
	if p.Chunks != nil {
		for _, c := range p.Chunks {
			toks = append(toks, string(c))
		}
	} else if p.Body != "" {
		toks = []string{p.Body}
		if p.TailBytes > 0 && len(p.Body) > p.TailBytes {
			// the last TailBytes arrive on their own, after the reader has drained what came before
			toks = []string{p.Body[:len(p.Body)-p.TailBytes], p.Body[len(p.Body)-p.TailBytes:]}
		}
	} else {
		for i := 0; i < p.N; i++ {
			toks = append(toks, Token(b.Name, r.Attempt, i))
		}
	}
	total := 0
	for _, t := range toks {
		total += len(t)
	}
	var hb strings.Builder
	if p.CT == "-" { // a backend that does not say what its answer is
		fmt.Fprintf(&hb, "HTTP/1.1 %d %s\r\nX-Backend: %s/%d\r\n", status, http.StatusText(status), b.Name, r.Attempt)
	} else {
		fmt.Fprintf(&hb, "HTTP/1.1 %d %s\r\nContent-Type: %s\r\nX-Backend: %s/%d\r\n", status, http.StatusText(status), ct, b.Name, r.Attempt)
	}
	// an end-to-end header the backend sends on two lines (like Set-Cookie or Link), stamped with the attempt
	fmt.Fprintf(&hb, "X-Verif-Multi: %s/%d/1\r\nX-Verif-Multi: %s/%d/2\r\n", b.Name, r.Attempt, b.Name, r.Attempt)
	keys := make([]string, 0, len(p.Hdr))
	for k := range p.Hdr {
		keys = append(keys, k)
	}
	sort.Strings(keys)
	for _, k := range keys {
		fmt.Fprintf(&hb, "%s: %s\r\n", k, p.Hdr[k])
	}
	if p.Chunked {
		hb.WriteString("Transfer-Encoding: chunked\r\n\r\n")
	} else {
		fmt.Fprintf(&hb, "Content-Length: %d\r\n\r\n", total)
	}
	if _, err := c.Write([]byte(hb.String())); err != nil {
		peerGone = true
		done()
		return false
	}
	if p.Kind == "hdr_then_reset" {
		time.Sleep(20 * time.Millisecond) // let the proxy read the header block first
		rst(c)
		done()
		return false
	}
	limit := len(toks)
	if p.Kind == "reset_after" || p.Kind == "close_after" || p.Kind == "stall_after" {
		limit = p.K
	}
	for i := 0; i < limit && i < len(toks); i++ {
		if p.Gate != nil {
			p.Gate(i)
		}
		if p.GapMs > 0 && i > 0 {
			time.Sleep(time.Duration(p.GapMs) * time.Millisecond)
		}
		if p.TailBytes > 0 && i > 0 {
			time.Sleep(40 * time.Millisecond)
		}
		var err error
		if p.Chunked {
			_, err = fmt.Fprintf(c, "%x\r\n%s\r\n", len(toks[i]), toks[i])
		} else {
			_, err = c.Write([]byte(toks[i]))
		}
		if err != nil {
			peerGone = true
			done()
			return false
		}
		wrote++
	}
	switch p.Kind {
	case "reset_after":
		time.Sleep(30 * time.Millisecond) // let the delivered prefix travel through the proxy
		rst(c)
		done()
		return false
	case "close_after":
		time.Sleep(30 * time.Millisecond)
		c.Close()
		done()
		return false
	case "stall_after":
		// wait until the peer goes away (or 20 s)
		c.SetReadDeadline(time.Now().Add(20 * time.Second))
		buf := make([]byte, 1)
		_, err := c.Read(buf)
		if err != nil && !isTimeout(err) {
			peerGone = true
		}
		done()
		return false
	}
	if p.Chunked {
		if _, err := c.Write([]byte("0\r\n\r\n")); err != nil {
			peerGone = true
		}
	}
	done()
	return true
}

func isTimeout(err error) bool {
	ne, ok := err.(net.Error)
	return ok && ne.Timeout()
}
