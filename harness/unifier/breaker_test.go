//go:build verif

package unifier

import (
	"encoding/json"
	"errors"
	"sync"
	"sync/atomic"
	"testing"
	"time"

	"github.com/thushan/olla/internal/verifhook"
	"github.com/thushan/olla/internal/zzverif"
)

const verifUnit = 100 * time.Millisecond

// Results are reported the way LifecycleUnifier.UnifyModels reports them: through
// EndpointManager.RecordFailure / RecordSuccess.
// TestVerif_UnifierBreaker replays TLC-generated scenarios on the real unifier.CircuitBreaker,
// created by the EndpointManager from the package's default configuration.
func TestVerif_UnifierBreaker(t *testing.T) {
	tr := zzverif.OpenTrace()
	defer tr.Close()
	cfg := DefaultConfig()
	// scheduler gate at unifier.breaker.halfopen (between Allow's load of the state -- "open", timeout
	// elapsed -- and its transition to half-open): one caller of a Race is held there while the others run
	var hold atomic.Bool
	parked := make(chan struct{}, 1)
	release := make(chan struct{}, 1)
	verifhook.Set(func(name, key string) {
		if name == "unifier.breaker.halfopen" && hold.CompareAndSwap(true, false) {
			parked <- struct{}{}
			<-release
		}
	})
	defer verifhook.Set(nil)
	for i, raw := range zzverif.LoadScenarios() {
		var steps []json.RawMessage
		if err := json.Unmarshal(raw, &steps); err != nil {
			t.Fatalf("scenario %d: %v", i, err)
		}
		mgr := NewEndpointManager(cfg, nil)
		cb := mgr.GetCircuitBreaker("http://e1")
		if cb == nil {
			t.Fatalf("circuit breaker disabled in default config")
		}
		emit := func(name string, kv ...any) {
			s := cb.GetStats()
			kv = append(kv, "st", s.State, "f", s.Failures, "s", s.Successes, "h", s.HalfOpenRequests)
			tr.Emit(name, kv...)
		}
		tr.Emit("Reset", "scn", i)
		for _, s := range steps {
			name, args := zzverif.Tok(s)
			switch name {
			case "Ask":
				res := "refuse"
				if cb.Allow() {
					res = "admit"
				}
				emit("Ask", "res", res)
			case "Race":
				// n overlapping Allow() calls; the first is held at the gate if it gets there
				n := zzverif.Int(args[0])
				var admits atomic.Int64
				var wg sync.WaitGroup
				call := func() {
					defer wg.Done()
					if cb.Allow() {
						admits.Add(1)
					}
				}
				hold.Store(true)
				wg.Add(1)
				firstDone := make(chan struct{})
				go func() { call(); close(firstDone) }()
				isParked := false
				select {
				case <-parked:
					isParked = true
				case <-firstDone:
					hold.Store(false)
				case <-time.After(5 * time.Second):
					hold.Store(false)
				}
				for k := 1; k < n; k++ {
					wg.Add(1)
					go call()
				}
				if isParked {
					time.Sleep(5 * time.Millisecond) // let the others run (or block) before the held caller goes on
					release <- struct{}{}
				}
				all := make(chan struct{})
				go func() { wg.Wait(); close(all) }()
				select {
				case <-all:
					emit("Race", "n", n, "admits", admits.Load(), "parked", isParked)
				case <-time.After(10 * time.Second):
					emit("Hang", "n", n)
				}
			case "Fail":
				mgr.RecordFailure("http://e1", errors.New("boom"))
				emit("Fail")
			case "Succ":
				mgr.RecordSuccess("http://e1")
				emit("Succ")
			case "Tick":
				d := zzverif.Int(args[0])
				if v := cb.lastFailureTime.Load(); v != 0 {
					cb.lastFailureTime.Store(v - int64(time.Duration(d)*verifUnit))
				}
				tr.Emit("Tick", "d", d)
			default:
				t.Fatalf("unknown step %s", name)
			}
		}
	}
}
