//go:build verif

package unifier

import (
	"encoding/json"
	"errors"
	"testing"
	"time"

	"github.com/thushan/olla/internal/zzverif"
)

const verifUnit = 100 * time.Millisecond

// Results are reported the way LifecycleUnifier.UnifyModels reports them: through
// EndpointManager.RecordFailure / RecordSuccess.
// TestVerif_UnifierBreaker replays TLC-generated scenarios on the real unifier.CircuitBreaker,
// created by the EndpointManager from the package's default configuration.
func TestVerif_UnifierBreaker(t *testing.T) {
	tr := zzverif.OpenTrace()
	defer tr.Close()
	cfg := DefaultConfig()
	for i, raw := range zzverif.LoadScenarios() {
		var steps []json.RawMessage
		if err := json.Unmarshal(raw, &steps); err != nil {
			t.Fatalf("scenario %d: %v", i, err)
		}
		mgr := NewEndpointManager(cfg, nil)
		cb := mgr.GetCircuitBreaker("http://e1")
		if cb == nil {
			t.Fatalf("circuit breaker disabled in default config")
		}
		emit := func(name string, kv ...any) {
			s := cb.GetStats()
			kv = append(kv, "st", s.State, "f", s.Failures, "s", s.Successes, "h", s.HalfOpenRequests)
			tr.Emit(name, kv...)
		}
		tr.Emit("Reset", "scn", i)
		for _, s := range steps {
			name, args := zzverif.Tok(s)
			switch name {
			case "Ask":
				res := "refuse"
				if cb.Allow() {
					res = "admit"
				}
				emit("Ask", "res", res)
			case "Fail":
				mgr.RecordFailure("http://e1", errors.New("boom"))
				emit("Fail")
			case "Succ":
				mgr.RecordSuccess("http://e1")
				emit("Succ")
			case "Tick":
				d := zzverif.Int(args[0])
				if v := cb.lastFailureTime.Load(); v != 0 {
					cb.lastFailureTime.Store(v - int64(time.Duration(d)*verifUnit))
				}
				tr.Emit("Tick", "d", d)
			default:
				t.Fatalf("unknown step %s", name)
			}
		}
	}
}
