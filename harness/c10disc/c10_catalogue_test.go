//go:build verif

package discovery

import (
	"context"
	"encoding/json"
	"fmt"
	"io"
	"log/slog"
	"net/http"
	"net/http/httptest"
	"os"
	"runtime"
	"sort"
	"strings"
	"sync"
	"sync/atomic"
	"testing"
	"time"

	"github.com/thushan/olla/internal/adapter/registry"
	"github.com/thushan/olla/internal/adapter/registry/profile"
	"github.com/thushan/olla/internal/core/domain"
	"github.com/thushan/olla/internal/logger"
	"github.com/thushan/olla/internal/zzverif"
)

// ---------------------------------------------------------------------------- scenario format

type c10Entry struct {
	N []string `json:"n"` // name as one-character strings
	D string   `json:"d"` // digest ("" = none)
}

type c10Filter struct {
	Inc [][]string `json:"inc"`
	Exc [][]string `json:"exc"`
}

type c10Scenario struct {
	Flt   map[string]c10Filter `json:"flt"`
	Ops   []json.RawMessage    `json:"ops"`
	Probe [][]string           `json:"probe"`
}

var c10Eps = []string{"e1", "e2", "e3"}

func c10Join(cs []string) string { return strings.Join(cs, "") }

func c10Split(s string) []string {
	out := make([]string, 0, len(s))
	for _, r := range s {
		out = append(out, string(r))
	}
	return out
}

func c10Entries(raw json.RawMessage) []c10Entry {
	var l []c10Entry
	if err := json.Unmarshal(raw, &l); err != nil {
		panic(fmt.Sprintf("bad listing %s: %v", raw, err))
	}
	for i := range l {
		if l[i].N == nil {
			l[i].N = []string{}
		}
	}
	return l
}

// ---------------------------------------------------------------------------- scripted backend

type c10Resp struct {
	status  int
	listing []c10Entry
	raw     string // body override
	useRaw  bool
	cut     bool // close the connection without answering
}

type c10Backend struct {
	mu    sync.Mutex
	queue []c10Resp
	srv   *httptest.Server
}

func c10OllamaBody(l []c10Entry) string {
	type mod struct {
		Name   string  `json:"name"`
		Digest *string `json:"digest,omitempty"`
		Size   int64   `json:"size"`
	}
	out := struct {
		Models []mod `json:"models"`
	}{Models: []mod{}}
	for _, e := range l {
		m := mod{Name: c10Join(e.N), Size: 1000}
		if e.D != "" {
			d := e.D
			m.Digest = &d
		}
		out.Models = append(out.Models, m)
	}
	b, _ := json.Marshal(out)
	return string(b)
}

func c10OpenAIBody(l []c10Entry) string {
	type mod struct {
		ID     string `json:"id"`
		Object string `json:"object"`
	}
	out := struct {
		Object string `json:"object"`
		Data   []mod  `json:"data"`
	}{Object: "list", Data: []mod{}}
	for _, e := range l {
		out.Data = append(out.Data, mod{ID: c10Join(e.N), Object: "model"})
	}
	b, _ := json.Marshal(out)
	return string(b)
}

func (b *c10Backend) handle(w http.ResponseWriter, r *http.Request) {
	b.mu.Lock()
	var resp c10Resp
	if len(b.queue) == 0 {
		resp = c10Resp{status: 599, raw: "unscripted", useRaw: true}
	} else {
		resp = b.queue[0]
		b.queue = b.queue[1:]
	}
	b.mu.Unlock()
	if resp.cut {
		if hj, ok := w.(http.Hijacker); ok {
			if c, _, err := hj.Hijack(); err == nil {
				c.Close()
				return
			}
		}
	}
	body := resp.raw
	if !resp.useRaw {
		if strings.HasPrefix(r.URL.Path, "/api/tags") {
			body = c10OllamaBody(resp.listing)
		} else {
			body = c10OpenAIBody(resp.listing)
		}
	}
	w.Header().Set("Content-Type", "application/json")
	if resp.status == http.StatusNoContent {
		w.WriteHeader(resp.status)
		return
	}
	w.Header().Set("Content-Length", fmt.Sprint(len(body)))
	w.WriteHeader(resp.status)
	io.WriteString(w, body)
}

func (b *c10Backend) script(rs ...c10Resp) {
	b.mu.Lock()
	b.queue = append([]c10Resp(nil), rs...)
	b.mu.Unlock()
}

// one rig = three scripted backends + an HTTP client, reused by consecutive scenarios
type c10Rig struct {
	be     map[string]*c10Backend
	client *http.Client
}

func c10NewRig() *c10Rig {
	r := &c10Rig{be: map[string]*c10Backend{}}
	for _, id := range c10Eps {
		b := &c10Backend{}
		b.srv = httptest.NewServer(http.HandlerFunc(b.handle))
		r.be[id] = b
	}
	r.client = &http.Client{Timeout: 60 * time.Second, Transport: &http.Transport{MaxIdleConnsPerHost: 4, IdleConnTimeout: 30 * time.Second}}
	return r
}

func (r *c10Rig) close() {
	r.client.CloseIdleConnections()
	for _, b := range r.be {
		b.srv.Close()
	}
}

func c10FailResp(kind string, l []c10Entry) c10Resp {
	switch kind {
	case "h500":
		return c10Resp{status: 500, listing: l}
	case "h404":
		return c10Resp{status: 404, listing: l}
	case "h203":
		return c10Resp{status: 203, listing: l}
	case "h204":
		return c10Resp{status: 204}
	case "garbage":
		return c10Resp{status: 200, raw: "<html><body>models: " + c10OllamaBody(l) + "</body></html>", useRaw: true}
	case "trunc":
		full := c10OllamaBody(l)
		return c10Resp{status: 200, raw: full[:len(full)-3], useRaw: true}
	case "cut":
		return c10Resp{cut: true}
	}
	panic("unknown failure kind " + kind)
}

// ---------------------------------------------------------------------------- one scenario run

type c10Run struct {
	b        *zzverif.Block
	reg      domain.ModelRegistry
	probe    *registry.VerifC10Probe
	svc      *ModelDiscoveryService
	eps      map[string]*domain.Endpoint
	idOf     map[string]string // URL -> id
	rig      *c10Rig
	probeNms []string
	expected int64
	unified  bool
}

func c10Models(l []c10Entry) []*domain.ModelInfo {
	out := make([]*domain.ModelInfo, 0, len(l))
	for _, e := range l {
		mi := &domain.ModelInfo{Name: c10Join(e.N), Size: 1000, LastSeen: time.Now()}
		if e.D != "" {
			d := e.D
			mi.Details = &domain.ModelDetails{Digest: &d}
		}
		out = append(out, mi)
	}
	return out
}

func (r *c10Run) id(url string) string {
	if id, ok := r.idOf[url]; ok {
		return id
	}
	return "?" + url
}

// guarded runs fn, turning a panic or a hang of the code under test into an event
func (r *c10Run) guarded(what string, fn func()) bool {
	done := make(chan any, 1)
	go func() {
		defer func() { done <- recover() }()
		fn()
	}()
	watchdog := time.NewTimer(120 * time.Second)
	defer watchdog.Stop()
	select {
	case p := <-done:
		if p != nil {
			r.b.Emit("Panic", "in", what, "msg", fmt.Sprint(p))
			return false
		}
		return true
	case <-watchdog.C:
		r.b.Emit("Hang", "in", what)
		return false
	}
}

// A unification the harness expected (one per successful registration) did not complete within half a minute:
// this build evidently does not start one for every registration.  The catalogue is dumped as it is -- the
// specification judges the state, not the harness's expectation -- and from then on the wait is one second.
var c10GaveUp atomic.Bool

func (r *c10Run) dump(ctx context.Context) {
	quiet := true
	if r.probe != nil {
		patience := 30 * time.Second
		if c10GaveUp.Load() {
			patience = time.Second
		}
		if !r.probe.WaitMerged(r.expected, patience) {
			c10GaveUp.Store(true)
			r.expected = r.probe.Done()
		}
	}
	perEp := map[string][][]string{}
	for _, id := range c10Eps {
		ms, err := r.reg.GetModelsForEndpoint(ctx, r.eps[id].URLString)
		names := [][]string{}
		if err != nil {
			names = append(names, []string{"!", "e", "r", "r"})
		}
		for _, m := range ms {
			names = append(names, c10Split(m.Name))
		}
		perEp[id] = names
	}
	type look struct {
		M         []string `json:"m"`
		Eps       []string `json:"eps"`       // the registry's answer
		Base      []string `json:"base"`      // the base index alone (same as eps for the plain registry)
		Avail     bool     `json:"avail"`     // the registry's answer
		AvailBase bool     `json:"availBase"` // the base index alone
	}
	idsOf := func(urls []string, err error) []string {
		ids := []string{}
		if err != nil {
			ids = append(ids, "?err")
		}
		seen := map[string]bool{}
		for _, u := range urls {
			if id := r.id(u); !seen[id] {
				seen[id] = true
				ids = append(ids, id)
			}
		}
		sort.Strings(ids)
		return ids
	}
	var base interface {
		GetEndpointsForModel(ctx context.Context, modelName string) ([]string, error)
		IsModelAvailable(ctx context.Context, modelName string) bool
	} = r.reg
	if ur, ok := r.reg.(*registry.UnifiedMemoryModelRegistry); ok {
		base = ur.MemoryModelRegistry
	}
	looks := []look{}
	for _, n := range r.probeNms {
		looks = append(looks, look{M: c10Split(n),
			Eps: idsOf(r.reg.GetEndpointsForModel(ctx, n)), Base: idsOf(base.GetEndpointsForModel(ctx, n)),
			Avail: r.reg.IsModelAvailable(ctx, n), AvailBase: base.IsModelAvailable(ctx, n)})
	}
	cnt := map[string]int{}
	extra, totM, totE := 0, -1, -1
	if st, err := r.reg.GetStats(ctx); err == nil {
		totM, totE = st.TotalModels, st.TotalEndpoints
		for _, id := range c10Eps {
			cnt[id] = 0
		}
		for u, n := range st.ModelsPerEndpoint {
			if id, ok := r.idOf[u]; ok {
				cnt[id] = n
			} else {
				extra += 1
			}
		}
	}
	type src struct {
		E   string   `json:"e"`
		Nat []string `json:"nat"`
	}
	type uent struct {
		ID  []string   `json:"id"`
		Al  [][]string `json:"al"`
		Src []src      `json:"src"`
	}
	unis := []uent{}
	hasUni := false
	if ur, ok := r.reg.(interface {
		GetUnifiedModels(ctx context.Context) ([]*domain.UnifiedModel, error)
	}); ok {
		hasUni = true
		ums, _ := ur.GetUnifiedModels(ctx)
		for _, um := range ums {
			if um == nil {
				continue
			}
			u := uent{ID: c10Split(um.ID), Al: [][]string{}, Src: []src{}}
			for _, a := range um.Aliases {
				u.Al = append(u.Al, c10Split(a.Name))
			}
			for _, s := range um.SourceEndpoints {
				u.Src = append(u.Src, src{E: r.id(s.EndpointURL), Nat: c10Split(s.NativeName)})
			}
			unis = append(unis, u)
		}
		sort.Slice(unis, func(i, j int) bool { return c10Join(unis[i].ID) < c10Join(unis[j].ID) })
	}
	r.b.Emit("Dump", "quiet", quiet, "perEp", perEp, "cnt", cnt, "cntExtra", extra, "totM", totM, "totE", totE,
		"look", looks, "hasUni", hasUni, "uni", unis)
}

func (r *c10Run) discover(ctx context.Context, id string) error {
	err := r.svc.DiscoverEndpoint(ctx, r.eps[id])
	return err
}

func (r *c10Run) step(ctx context.Context, raw json.RawMessage) {
	name, args := zzverif.Tok(raw)
	switch name {
	case "Reg":
		id := zzverif.Str(args[0])
		l := c10Entries(args[1])
		r.rig.be[id].script(c10Resp{status: 200, listing: l})
		var err error
		if r.guarded("Reg", func() { err = r.discover(ctx, id) }) {
			if err == nil && r.unified {
				r.expected++
			}
			r.b.Emit("Reg", "e", id, "L", l, "err", err != nil)
		}
	case "Fail":
		id := zzverif.Str(args[0])
		kind := zzverif.Str(args[1])
		l := c10Entries(args[2])
		r.rig.be[id].script(c10FailResp(kind, l))
		var err error
		if r.guarded("Fail", func() { err = r.discover(ctx, id) }) {
			if err == nil && r.unified {
				r.expected++
			}
			r.b.Emit("Fail", "e", id, "k", kind, "L", l, "err", err != nil)
		}
	case "Bad":
		id := zzverif.Str(args[0])
		l := c10Entries(args[1])
		ms := c10Models(l)
		var err error
		ok := r.guarded("Bad", func() {
			// the same calls DiscoverEndpoint makes once it has a list
			if ur, isU := r.reg.(*registry.UnifiedMemoryModelRegistry); isU {
				err = ur.RegisterModelsWithEndpoint(ctx, r.eps[id], ms)
			} else {
				err = r.reg.RegisterModels(ctx, r.eps[id].URLString, ms)
			}
		})
		if ok {
			if err == nil && r.unified {
				r.expected++
			}
			r.b.Emit("Bad", "e", id, "L", l, "rejected", err != nil)
		}
	case "Rm":
		id := zzverif.Str(args[0])
		var err error
		if r.guarded("Rm", func() { err = r.reg.RemoveEndpoint(ctx, r.eps[id].URLString) }) {
			r.b.Emit("Rm", "e", id, "err", err != nil)
		}
	case "Chase":
		// a successful discovery whose background unification is held at the gate while a rejected list for the
		// same endpoint goes through the registry API; then the unification is let go
		id := zzverif.Str(args[0])
		l, bad := c10Entries(args[1]), c10Entries(args[2])
		ms := c10Models(bad)
		r.rig.be[id].script(c10Resp{status: 200, listing: l})
		var e1, e2 error
		ok := r.guarded("Chase", func() {
			release := func() {}
			if r.unified {
				release = registry.VerifC10Hold(r.eps[id].URLString)
			}
			defer release()
			e1 = r.discover(ctx, id)
			if ur, isU := r.reg.(*registry.UnifiedMemoryModelRegistry); isU {
				e2 = ur.RegisterModelsWithEndpoint(ctx, r.eps[id], ms)
			} else {
				e2 = r.reg.RegisterModels(ctx, r.eps[id].URLString, ms)
			}
		})
		if ok {
			if r.unified {
				if e1 == nil {
					r.expected++
				}
				if e2 == nil {
					r.expected++
				}
			}
			r.b.Emit("Reg", "e", id, "L", l, "err", e1 != nil, "burst", 1)
			r.b.Emit("Bad", "e", id, "L", bad, "rejected", e2 != nil)
		}
	case "Race":
		// the endpoint is removed WHILE a successful listing of it is registered: whichever is taken to be the later
		// one, every view must tell the same story afterwards (several rounds, a dump after each: the window is small)
		id := zzverif.Str(args[0])
		l := c10Entries(args[1])
		for round := 0; round < 12; round++ {
			var e1, e2 error
			r.rig.be[id].script(c10Resp{status: 200, listing: l})
			// the removal starts somewhere inside the discovery (HTTP fetch, filter, registration): 0 .. 1.5 ms later
			delay := time.Duration((round*137+len(l)*61)%1500) * time.Microsecond
			ok := r.guarded("Race", func() {
				var wg sync.WaitGroup
				start := make(chan struct{})
				wg.Add(2)
				go func() {
					defer wg.Done()
					<-start
					time.Sleep(delay)
					e1 = r.reg.RemoveEndpoint(ctx, r.eps[id].URLString)
				}()
				go func() { defer wg.Done(); <-start; e2 = r.discover(ctx, id) }()
				close(start)
				wg.Wait()
			})
			if !ok {
				return
			}
			if e2 == nil && r.unified {
				r.expected++
			}
			r.b.Emit("Race", "e", id, "L", l, "errRm", e1 != nil, "errReg", e2 != nil)
			if round < 11 {
				r.guarded("Dump", func() { r.dump(ctx) })
			}
		}
	case "Swap":
		// two successful discoveries of one endpoint whose background unifications run in the OPPOSITE order: the
		// first one's is held at the gate until the second one's has finished
		id := zzverif.Str(args[0])
		l1, l2 := c10Entries(args[1]), c10Entries(args[2])
		r.rig.be[id].script(c10Resp{status: 200, listing: l1}, c10Resp{status: 200, listing: l2})
		var e1, e2 error
		ok := r.guarded("Swap", func() {
			release := func() {}
			if r.unified {
				release = registry.VerifC10HoldFirst(r.eps[id].URLString)
			}
			e1 = r.discover(ctx, id)
			e2 = r.discover(ctx, id)
			if r.unified && r.probe != nil {
				if e1 == nil && e2 == nil {
					// the second listing's unification completes while the first one's is still held
					r.probe.WaitMerged(r.expected+1, 5*time.Second)
				}
			}
			release()
		})
		if ok {
			if r.unified {
				if e1 == nil {
					r.expected++
				}
				if e2 == nil {
					r.expected++
				}
			}
			r.b.Emit("Reg", "e", id, "L", l1, "err", e1 != nil, "burst", 1)
			r.b.Emit("Reg", "e", id, "L", l2, "err", e2 != nil, "burst", 2)
		}
	case "Burst":
		// two successful discoveries of the same endpoint, the second issued as soon as the first
		// returned (its asynchronous merge may still be pending)
		id := zzverif.Str(args[0])
		l1, l2 := c10Entries(args[1]), c10Entries(args[2])
		r.rig.be[id].script(c10Resp{status: 200, listing: l1}, c10Resp{status: 200, listing: l2})
		var e1, e2 error
		if r.guarded("Burst", func() { e1 = r.discover(ctx, id); e2 = r.discover(ctx, id) }) {
			if r.unified {
				if e1 == nil {
					r.expected++
				}
				if e2 == nil {
					r.expected++
				}
			}
			// recorded as two successful discoveries with no dump in between
			r.b.Emit("Reg", "e", id, "L", l1, "err", e1 != nil, "burst", 1)
			r.b.Emit("Reg", "e", id, "L", l2, "err", e2 != nil, "burst", 2)
		}
	case "Par":
		// operations on pairwise distinct endpoints, released together
		var toks map[string]json.RawMessage
		if err := json.Unmarshal(args[0], &toks); err != nil {
			panic(fmt.Sprintf("bad Par %s: %v", args[0], err))
		}
		type pop struct {
			Op  string     `json:"op"`
			E   string     `json:"e"`
			K   string     `json:"k"`
			L   []c10Entry `json:"L"`
			Err bool       `json:"err"`
		}
		ids := make([]string, 0, len(toks))
		for id := range toks {
			ids = append(ids, id)
		}
		sort.Strings(ids)
		ops := make([]pop, len(ids))
		for i, id := range ids {
			n, a := zzverif.Tok(toks[id])
			o := pop{Op: n, E: id, L: []c10Entry{}}
			switch n {
			case "Reg":
				o.L = c10Entries(a[1])
				r.rig.be[id].script(c10Resp{status: 200, listing: o.L})
			case "Fail":
				o.K = zzverif.Str(a[1])
				o.L = c10Entries(a[2])
				r.rig.be[id].script(c10FailResp(o.K, o.L))
			case "Rm":
			default:
				panic("unknown Par op " + n)
			}
			ops[i] = o
		}
		errs := make([]error, len(ops))
		ok := r.guarded("Par", func() {
			var wg sync.WaitGroup
			start := make(chan struct{})
			for i := range ops {
				wg.Add(1)
				go func(i int) {
					defer wg.Done()
					<-start
					if ops[i].Op == "Rm" {
						errs[i] = r.reg.RemoveEndpoint(ctx, r.eps[ops[i].E].URLString)
					} else {
						errs[i] = r.discover(ctx, ops[i].E)
					}
				}(i)
			}
			close(start)
			wg.Wait()
		})
		if ok {
			for i := range ops {
				ops[i].Err = errs[i] != nil
				if errs[i] == nil && ops[i].Op != "Rm" && r.unified {
					r.expected++
				}
			}
			r.b.Emit("Par", "ops", ops)
		}
	default:
		panic("unknown op " + name)
	}
	r.guarded("Dump", func() { r.dump(ctx) })
}

func c10FilterConfig(f c10Filter) *domain.FilterConfig {
	if len(f.Inc) == 0 && len(f.Exc) == 0 {
		return nil
	}
	fc := &domain.FilterConfig{}
	for _, p := range f.Inc {
		fc.Include = append(fc.Include, c10Join(p))
	}
	for _, p := range f.Exc {
		fc.Exclude = append(fc.Exclude, c10Join(p))
	}
	return fc
}

func c10RunScenario(tr *zzverif.Trace, sn int, raw json.RawMessage, rig *c10Rig, pf *profile.Factory, lg logger.StyledLogger, unified bool) {
	var scn c10Scenario
	if err := json.Unmarshal(raw, &scn); err != nil {
		panic(fmt.Sprintf("scenario %d: %v", sn, err))
	}
	b := tr.Block()
	defer b.Flush()
	ctx := context.Background()
	reg, err := registry.NewModelRegistry(registry.RegistryConfig{Type: "memory", EnableUnifier: unified}, lg)
	if err != nil {
		panic(err)
	}
	client := NewHTTPModelDiscoveryClient(pf, lg, rig.client)
	svc := NewModelDiscoveryService(client, nil, reg, DiscoveryConfig{Interval: time.Hour, Timeout: 45 * time.Second, ConcurrentWorkers: 2}, lg)
	run := &c10Run{b: b, reg: reg, svc: svc, rig: rig, unified: unified,
		eps: map[string]*domain.Endpoint{}, idOf: map[string]string{}}
	run.probe = registry.VerifC10Instrument(reg)
	flt := map[string]c10Filter{}
	for i, id := range c10Eps {
		f := scn.Flt[id]
		if f.Inc == nil {
			f.Inc = [][]string{}
		}
		if f.Exc == nil {
			f.Exc = [][]string{}
		}
		flt[id] = f
		typ := domain.ProfileOllama
		if i == 2 {
			typ = domain.ProfileOpenAICompatible
		}
		ep := &domain.Endpoint{Name: "backend-" + id, URLString: rig.be[id].srv.URL, Type: typ, Status: domain.StatusHealthy}
		if fc := c10FilterConfig(f); fc != nil {
			if i == 1 {
				svc.SetEndpointFilterConfig(ep.Name, fc) // override path
			} else {
				ep.ModelFilter = fc // the endpoint's own configuration
			}
		}
		run.eps[id] = ep
		run.idOf[ep.URLString] = id
		run.probe.Watch(ep.URLString)
		rig.be[id].script()
	}
	for _, p := range scn.Probe {
		run.probeNms = append(run.probeNms, c10Join(p))
	}
	variant := "plain"
	if unified {
		variant = "unified"
	}
	b.Emit("Reset", "scn", sn, "variant", variant, "flt", flt)
	for _, op := range scn.Ops {
		run.step(ctx, op)
	}
}

// TestVerif_Catalogue replays TLC-generated operation sequences on the real model registry
// (registry.NewModelRegistry, unified and plain) through the real discovery service and HTTP
// discovery client against scripted listings, and dumps the four catalogue views after every
// operation once the asynchronous unification has drained.
func TestVerif_Catalogue(t *testing.T) {
	if err := os.Chdir("../../.."); err != nil { // ./config/profiles
		t.Fatal(err)
	}
	pf, err := profile.NewFactoryWithDefaults()
	if err != nil {
		t.Fatalf("profiles: %v", err)
	}
	lg := logger.NewPlainStyledLogger(slog.New(slog.NewTextHandler(io.Discard, nil)))
	tr := zzverif.OpenTrace()
	defer tr.Close()
	scns := zzverif.LoadScenarios()
	width := runtime.NumCPU()
	if width > 8 {
		width = 8
	}
	rigs := make(chan *c10Rig, width)
	for i := 0; i < width; i++ {
		rigs <- c10NewRig()
	}
	zzverif.Parallel(len(scns), width, func(i int) {
		rig := <-rigs
		defer func() { rigs <- rig }()
		c10RunScenario(tr, i, scns[i], rig, pf, lg, true)
		c10RunScenario(tr, i, scns[i], rig, pf, lg, false)
	})
	close(rigs)
	for r := range rigs {
		r.close()
	}
}
