//go:build verif

package discovery

import (
	"context"
	"encoding/json"
	"io"
	"log/slog"
	"net/http"
	"net/http/httptest"
	"net/url"
	"sort"
	"strings"
	"testing"
	"time"

	"github.com/thushan/olla/internal/adapter/registry"
	"github.com/thushan/olla/internal/adapter/registry/profile"
	"github.com/thushan/olla/internal/core/domain"
	"github.com/thushan/olla/internal/logger"
	"github.com/thushan/olla/internal/zzverif"
)

type verifFleetScn struct {
	Kind string `json:"kind"`
	Cls  string `json:"cls"`
}

func verifFleetBad(cls string) (int, string, string) {
	switch cls {
	case "notjson":
		return 200, "text/html", "<html><body>It works!</body></html>"
	case "truncated":
		return 200, "application/json", `{"models":[{"name":"m1","size":1,"dig`
	case "http500":
		return 500, "application/json", `{"error":"loading"}`
	case "http404":
		return 404, "text/plain", "not here"
	case "emptybody":
		return 200, "application/json", ""
	}
	return 200, "application/json", `{"models":[]}`
}

// TestVerif_Fleet: ONE discovery round (DiscoverAll, the periodic one) over two endpoints: what the first says is
// of some hostile class, the second is a perfectly fine backend that takes 150 ms to list its models. Whatever
// the first one said, the second one's catalogue is its listing afterwards and it is not blamed (Poison.tla).
func TestVerif_Fleet(t *testing.T) {
	tr := zzverif.OpenTrace()
	defer tr.Close()
	lg := logger.NewPlainStyledLogger(slog.New(slog.NewTextHandler(io.Discard, nil)))
	for sn, raw := range zzverif.LoadScenarios() {
		var sc verifFleetScn
		if json.Unmarshal(raw, &sc) != nil || sc.Kind != "fleet" {
			continue
		}
		st, ct, body := verifFleetBad(sc.Cls)
		bad := httptest.NewServer(http.HandlerFunc(func(w http.ResponseWriter, r *http.Request) {
			w.Header().Set("Content-Type", ct)
			w.WriteHeader(st)
			_, _ = w.Write([]byte(body))
		}))
		good := httptest.NewServer(http.HandlerFunc(func(w http.ResponseWriter, r *http.Request) {
			time.Sleep(150 * time.Millisecond)
			w.Header().Set("Content-Type", "application/json")
			_, _ = w.Write([]byte(`{"models":[{"name":"m9","size":4661224676,"digest":"365c0bd3c000"},{"name":"m8","size":1,"digest":"365c0bd3c001"}]}`))
		}))
		mk := func(name, raw string) *domain.Endpoint {
			u, _ := url.Parse(raw)
			return &domain.Endpoint{Name: name, URL: u, URLString: raw, Type: domain.ProfileOllama, Status: domain.StatusHealthy,
				HealthCheckURLString: raw + "/", ModelURLString: raw + "/api/tags", CheckInterval: time.Second, CheckTimeout: time.Second}
		}
		repo := NewTestStaticEndpointRepository()
		repo.AddTestEndpoint(mk("good", good.URL))
		repo.AddTestEndpoint(mk("bad", bad.URL))
		factory, err := profile.NewFactoryWithDefaults()
		if err != nil {
			t.Fatalf("profiles: %v", err)
		}
		client := NewHTTPModelDiscoveryClient(factory, lg, &http.Client{Timeout: 5 * time.Second})
		reg := registry.NewMemoryModelRegistry(lg)
		svc := NewModelDiscoveryService(client, repo, reg, DiscoveryConfig{Interval: time.Hour, Timeout: 5 * time.Second, ConcurrentWorkers: 5}, lg)
		tr.Emit("Reset", "scn", sn, "kind", "fleet", "known", []string{})
		rounds := 6
		for i := 0; i < rounds; i++ {
			_ = svc.DiscoverAll(context.Background())
		}
		ms, _ := reg.GetModelsForEndpoint(context.Background(), good.URL)
		names := []string{}
		for _, m := range ms {
			names = append(names, strings.TrimSpace(m.Name))
		}
		sort.Strings(names)
		tr.Emit("Fleet", "cls", sc.Cls, "rounds", rounds, "bystander", names, "blamed", svc.getFailureCount(good.URL), "disabled", svc.isEndpointDisabled(good.URL))
		bad.Close()
		good.Close()
	}
}
