//go:build verif

package app

import (
	"bytes"
	"crypto/sha256"
	"encoding/hex"
	"encoding/json"
	"fmt"
	"github.com/thushan/olla/internal/config"
	"os"
	"strings"
	"sync"
	"sync/atomic"
	"testing"
	"time"

	"github.com/thushan/olla/internal/verifhook"
	"github.com/thushan/olla/internal/zzverif"
)

type verifStep struct {
	Op    string            `json:"op"`
	Route string            `json:"route"`
	Plans map[string]string `json:"plans"`
	N     int               `json:"n"`
	Model string            `json:"model"`
}

type verifDispatchScn struct {
	Engine    string            `json:"engine"`
	LB        string            `json:"lb"`
	Framing   string            `json:"framing"`
	Eps       []string          `json:"eps"`
	Placement string            `json:"placement"`
	Boot      map[string]string `json:"boot"`
	EpType    string            `json:"eptype"`
	Twins     bool              `json:"twins"` // every endpoint carries the same configured name (names are optional and unchecked)
	Steps     []verifStep       `json:"steps"`
}

const verifN, verifK = 5, 2

const verifOpenAICompletion = `{"id":"chatcmpl-1","object":"chat.completion","created":1700000000,"model":"m1","choices":[{"index":0,"message":{"role":"assistant","content":"hello from the backend"},"finish_reason":"stop"}],"usage":{"prompt_tokens":3,"completion_tokens":4,"total_tokens":7}}`
const verifOpenAIStream = "data: {\"id\":\"c1\",\"object\":\"chat.completion.chunk\",\"model\":\"m1\",\"choices\":[{\"index\":0,\"delta\":{\"role\":\"assistant\",\"content\":\"hello\"},\"finish_reason\":null}]}\n\n" +
	"data: {\"id\":\"c1\",\"object\":\"chat.completion.chunk\",\"model\":\"m1\",\"choices\":[{\"index\":0,\"delta\":{},\"finish_reason\":\"stop\"}]}\n\ndata: [DONE]\n\n"

// verifPlanFor adapts the plan to the route: translated routes need an OpenAI-shaped answer.
func verifPlanFor(route, kind string, chunked bool, burst bool) zzverif.Plan {
	p := verifPlan(kind, chunked, burst)
	if kind == "ok" && route == "anthropic" {
		return zzverif.Plan{Kind: "ok", Status: 200, Chunked: chunked, Body: verifOpenAICompletion}
	}
	if kind == "cabort" && route == "anthropic_stream" {
		// an OpenAI stream that keeps coming (the client walks away after the first translated bytes)
		return zzverif.Plan{Kind: "ok", Status: 200, Chunked: true, CT: "text/event-stream", Chunks: verifStreamSSE(20000)}
	}
	if kind == "ok" && route == "anthropic_stream" {
		return zzverif.Plan{Kind: "ok", Status: 200, Chunked: true, Body: verifOpenAIStream, CT: "text/event-stream"}
	}
	return p
}

func verifPlan(kind string, chunked bool, burst bool) zzverif.Plan {
	if burst && kind == "ok" {
		// long enough, and slow enough, for concurrent responses to overlap inside the proxy
		return zzverif.Plan{Kind: "ok", Status: 200, N: 400, Chunked: chunked}
	}
	switch kind {
	case "ok":
		return zzverif.Plan{Kind: "ok", Status: 200, N: verifN, Chunked: chunked}
	case "http":
		return zzverif.Plan{Kind: "ok", Status: 500, Chunked: chunked, Body: `{"error":{"message":"backend exploded","type":"server_error"}}`}
	case "http_big":
		// an error page larger than any "small error body" assumption
		return zzverif.Plan{Kind: "ok", Status: 503, Chunked: chunked, TailBytes: 20000,
			Body: `{"error":{"message":"` + strings.Repeat("overloaded ", 12000) + `","type":"server_error"}}`}
	case "http_alt":
		// an error answer that is not an OpenAI error envelope
		return zzverif.Plan{Kind: "ok", Status: 404, Chunked: chunked, Body: `{"object":"error","message":"model not found","code":404}`}
	case "http_text":
		// an error answer that is not JSON at all (a gateway in front of the backend)
		return zzverif.Plan{Kind: "ok", Status: 429, Chunked: chunked, CT: "text/plain", Body: "Too Many Requests: slow down"}
	case "http_empty":
		// an error status with an empty JSON-less page
		return zzverif.Plan{Kind: "ok", Status: 503, Chunked: chunked, CT: "text/html", Body: "<html><body><h1>503 Service Unavailable</h1></body></html>"}
	case "reset_after", "close_after":
		return zzverif.Plan{Kind: kind, Status: 200, N: verifN, K: verifK, Chunked: chunked}
	case "st099":
		// a status code Go's client accepts and Go's server refuses to write
		return zzverif.Plan{Kind: "raw", Raw: "HTTP/1.1 099 Odd\r\nContent-Type: text/plain\r\nContent-Length: 3\r\n\r\nodd"}
	case "cut_noct":
		// a 200 answer WITHOUT a Content-Type, cut after a few tokens: whatever ends up at the client is that prefix
		return zzverif.Plan{Kind: "reset_after", Status: 200, N: verifN, K: verifK, Chunked: chunked, CT: "-"}
	case "http_cut":
		// an error status whose body is cut off after a few tokens: one failed attempt, however it ends
		return zzverif.Plan{Kind: "reset_after", Status: 500, N: verifN, K: verifK, Chunked: chunked}
	case "hdr_then_reset":
		return zzverif.Plan{Kind: kind, Status: 200, N: verifN, K: 0, Chunked: chunked}
	case "cabort":
		// a healthy but slow answer: the client walks away after the first token
		return zzverif.Plan{Kind: "ok", Status: 200, N: verifN, Chunked: chunked, GapMs: 120}
	default:
		return zzverif.Plan{Kind: kind}
	}
}

func verifBodyClass(body []byte, runs []zzverif.Run, junk int) string {
	if len(body) == 0 {
		return "empty"
	}
	if len(runs) > 0 && junk == 0 {
		return "tokens"
	}
	var v map[string]any
	if json.Unmarshal(body, &v) == nil {
		if v["type"] == "error" {
			if e, ok := v["error"].(map[string]any); ok {
				_, t := e["type"].(string)
				_, m := e["message"].(string)
				if t && m {
					return "anthropic_error"
				}
			}
		}
		if _, ok := v["error"]; ok {
			return "openai_error"
		}
		return "json"
	}
	if strings.HasPrefix(string(body), "event:") || strings.Contains(string(body), "\ndata:") {
		return "sse"
	}
	return "text"
}

func verifSig(r *zzverif.Recv) string {
	h := sha256.New()
	fmt.Fprintf(h, "%s %s\n", r.Method, r.Target)
	keys := []string{"Content-Type", "X-Verif-Req", "X-Custom-Thing", "Accept"}
	for _, k := range keys {
		fmt.Fprintf(h, "%s=%s\n", k, strings.Join(r.Header.Values(k), "|"))
	}
	h.Write(r.Body)
	return hex.EncodeToString(h.Sum(nil))[:12]
}

// verifClientView turns a raw response into the fields the specification compares.
func verifClientView(res *zzverif.Resp) []any {
	runs, junk := zzverif.Attribute(res.Body)
	from := false
	e, a := "none", 0
	if xb := res.Header.Get("X-Backend"); xb != "" {
		from = true
		parts := strings.SplitN(xb, "/", 2)
		e = parts[0]
		if len(parts) == 2 {
			fmt.Sscanf(parts[1], "%d", &a)
		}
	}
	n := 0
	mixed := false
	for _, r := range runs {
		if r.E != e || r.A != a {
			mixed = true
		}
	}
	if len(runs) > 1 || (len(runs) == 1 && runs[0].From != 0) {
		mixed = true
	}
	if len(runs) >= 1 {
		n = runs[0].N
	}
	st := res.Status
	if res.NoResp {
		st = 0
	}
	// the backend's two X-Verif-Multi lines: how many values arrived, and how many of them are this attempt's
	hmAll, hmOwn := 0, 0
	for i, v := range res.Header.Values("X-Verif-Multi") {
		hmAll++
		if v == fmt.Sprintf("%s/%d/%d", e, a, i+1) {
			hmOwn++
		}
	}
	// does the body claim to be a finished Anthropic message (streamed: message_stop; buffered: a stop_reason)?
	fin := bytes.Contains(res.Body, []byte("message_stop"))
	var msg struct {
		Type       string  `json:"type"`
		StopReason *string `json:"stop_reason"`
	}
	if json.Unmarshal(res.Body, &msg) == nil && msg.Type == "message" && msg.StopReason != nil {
		fin = true
	}
	return []any{"fin", fin, "hmAll", hmAll, "hmOwn", hmOwn, "st", st, "from", from, "e", e, "a", a, "n", n, "complete", res.Complete, "junk", junk,
		"mixed", mixed, "bodyClass", verifBodyClass(res.Body, runs, junk), "ms", res.Elapsed.Milliseconds(),
		"ct", res.Header.Get("Content-Type")}
}

func verifRequestFor(route, rid, model string) (target string, hdrs []string, body string) {
	if model == "" {
		model = "m1"
	}
	if model == "mctl" {
		// a model name nobody lists AND that contains control characters and a quote (written with JSON escapes):
		// whatever error text olla builds around it must still be a well-formed error body
		model = `mx\u007f\u0007\"q\u00e9`
	}
	defer func() { body = strings.Replace(body, `"model":"m1"`, `"model":"`+model+`"`, 1) }()
	target = "/olla/proxy/v1/chat/completions"
	body = fmt.Sprintf(`{"model":"m1","messages":[{"role":"user","content":"hello %s"}],"stream":false}`, rid)
	hdrs = []string{"Content-Type: application/json", "X-Verif-Req: " + rid, "X-Custom-Thing: keep-me"}
	switch route {
	case "provider":
		target = "/olla/openai/v1/chat/completions"
	case "anthropic":
		target = "/olla/anthropic/v1/messages"
		body = fmt.Sprintf(`{"model":"m1","max_tokens":16,"messages":[{"role":"user","content":"hello %s"}]}`, rid)
		hdrs = append(hdrs, "anthropic-version: 2023-06-01")
	case "anthropic_stream":
		target = "/olla/anthropic/v1/messages"
		body = fmt.Sprintf(`{"model":"m1","max_tokens":16,"stream":true,"messages":[{"role":"user","content":"hello %s"}]}`, rid)
		hdrs = append(hdrs, "anthropic-version: 2023-06-01")
	}
	return
}

// TestVerif_Dispatch drives TLC-generated fault scenarios through the fully assembled server and
// records what the backends received and what the client got.
func TestVerif_Dispatch(t *testing.T) {
	tr := zzverif.OpenTrace()
	defer tr.Close()
	scns := zzverif.LoadScenarios()
	width := 12
	if v := os.Getenv("VERIF_PAR"); v != "" {
		fmt.Sscanf(v, "%d", &width)
	}
	// fault injection inside olla: an attempt on an endpoint whose plan is "panic" panics at the
	// proxy.engine point, the first thing an engine does in an attempt (scenarios using it run one at a time: the
	// hook is process-wide)
	var boomMu sync.Mutex
	boomSet := map[string]bool{}
	verifhook.Set(func(name, key string) {
		if name != "proxy.engine" {
			return
		}
		boomMu.Lock()
		b := boomSet[key]
		boomMu.Unlock()
		if b {
			panic("verif: injected panic in proxy attempt on " + key)
		}
	})
	defer verifhook.Set(nil)
	zzverif.Parallel(len(scns), width, func(sn int) {
		var sc verifDispatchScn
		if err := json.Unmarshal(scns[sn], &sc); err != nil {
			panic(err)
		}
		b := tr.Block()
		defer b.Flush()
		if width == 1 {
			boomMu.Lock()
			for k := range boomSet {
				delete(boomSet, k)
			}
			boomMu.Unlock()
		}
		opts := make([]verifEndpointOpt, len(sc.Eps))
		modelsOf := map[string][]string{}
		for i, name := range sc.Eps {
			opts[i].Models = []string{"m1"}
			if sc.Placement == "split" && i > 0 {
				opts[i].Models = []string{"m2"}
			}
			opts[i].Boot = sc.Boot[name]
			opts[i].Type = sc.EpType
			if sc.Twins {
				opts[i].CfgName = "twin"
			}
			modelsOf[name] = opts[i].Models
		}
		var mod func(*config.Config)
		for _, stp := range sc.Steps {
			for _, k := range stp.Plans {
				if k == "dial_timeout" {
					// a black-holed backend costs one connection timeout per attempt: keep it short
					mod = func(c *config.Config) { c.Proxy.ConnectionTimeout = 600 * time.Millisecond }
				}
			}
		}
		if sn%2 == 1 {
			// every other stack streams through a 64 KiB buffer (the engines' own default) instead of the 8 KiB of
			// the shipped configuration: reads, and the last read before EOF, can then be much larger
			inner := mod
			mod = func(c *config.Config) {
				if inner != nil {
					inner(c)
				}
				c.Proxy.StreamBufferSize = 64 << 10
			}
		}
		stk, err := verifBoot(sc.Engine, sc.LB, "auto", opts, mod)
		if err != nil {
			b.Emit("Reset", "scn", sn, "engine", sc.Engine, "eps", sc.Eps, "booted", false, "err", err.Error())
			return
		}
		defer stk.Close()
		var mu sync.Mutex // serialises event emission from backend goroutines
		emit := func(name string, kv ...any) {
			mu.Lock()
			defer mu.Unlock()
			b.Emit(name, kv...)
		}
		emit("Reset", "scn", sn, "engine", sc.Engine, "lb", sc.LB, "eps", sc.Eps, "booted", true, "models", modelsOf)
		for _, be := range stk.backends {
			if sc.Boot[be.Name] == "dead" {
				emit("Down", "e", be.Name, "d", true)
			}
		}
		emit("Health", "st", stk.statuses())
		chunked := sc.Framing == "chunked"
		var plans sync.Map // backend name -> kind for the current step
		var inBurst, abortStep atomic.Bool
		var curRoute atomic.Value
		curRoute.Store("proxy")
		for _, be := range stk.backends {
			be := be
			be.OnAttempt = func(r *zzverif.Recv) zzverif.Plan {
				kind := "ok"
				if v, ok := plans.Load(be.Name); ok {
					kind = v.(string)
				}
				if kind == "ok" && abortStep.Load() {
					kind = "cabort" // the client of this step walks away: every healthy answer of the step is a slow one
				}
				p := verifPlanFor(curRoute.Load().(string), kind, chunked, inBurst.Load())
				pst := p.Status
				if kind == "http_cut" || kind == "cut_noct" {
					kind = "reset_after" // the specification knows both as a reset after the response started
				}
				emit("BackendRecv", "r", r.ReqID, "e", be.Name, "a", r.Attempt, "kind", kind, "pst", pst,
					"pn", p.N, "pk", p.K, "pb", len(p.Body), "sig", verifSig(r), "gs", stk.gaugeOf(be), "go", stk.gaugeOthers(be), "target", r.Target)
				return p
			}
		}
		reqNo := 0
		for _, stp := range sc.Steps {
			switch stp.Op {
			case "health":
				stk.healthRound()
				emit("Health", "st", stk.statuses())
			case "req", "burst":
				n := 1
				if stp.Op == "burst" && stp.N > 1 {
					n = stp.N
				}
				inBurst.Store(stp.Op == "burst")
				aborting := false
				for _, k := range stp.Plans {
					aborting = aborting || k == "cabort"
				}
				abortStep.Store(aborting)
				for _, be := range stk.backends {
					kind := stp.Plans[be.Name]
					plans.Store(be.Name, kind)
					if kind == "refuse" {
						be.SetDown(true)
						emit("Down", "e", be.Name, "d", true)
					}
					if kind == "dial_timeout" {
						// connections to it neither succeed nor are refused: the dial ends in olla's own timeout
						be.SetBlackHole(true)
						emit("Down", "e", be.Name, "d", true, "how", "blackhole")
					}
					boomMu.Lock()
					was := boomSet[be.Name]
					boomSet[be.Name] = kind == "panic"
					boomMu.Unlock()
					if was != (kind == "panic") {
						emit("Boom", "e", be.Name, "b", kind == "panic")
					}
				}
				route := stp.Route
				curRoute.Store(route)
				model := stp.Model
				if model == "" {
					model = "m1"
				}
				rids := make([]string, n)
				for i := range rids {
					reqNo++
					rids[i] = fmt.Sprintf("r%d", reqNo)
					emit("ClientSend", "r", rids[i], "route", route, "model", model)
				}
				var wg sync.WaitGroup
				for _, rid := range rids {
					wg.Add(1)
					go func(rid string) {
						defer wg.Done()
						target, hdrs, body := verifRequestFor(route, rid, model)
						rq := &zzverif.Req{Method: "POST", Target: target, Headers: hdrs, Body: []byte(body),
							Chunked: chunked, ChunkSz: 17, Timeout: 25 * time.Second}
						if aborting {
							rq.AbortAfter = 1 // hang up as soon as any of the body has arrived
						}
						res := zzverif.Do(stk.addr, rq)
						if aborting {
							// olla notices the hang-up on its own time: let the attempt be wound up before the next step
							// samples gauges (a gauge that never comes back is still caught at the Stats step)
							for t0 := time.Now(); time.Since(t0) < 3*time.Second && stk.gaugeSum() > 0; {
								time.Sleep(5 * time.Millisecond)
							}
						}
						// the gauge decrement and the repository write may trail the client's last byte
						time.Sleep(15 * time.Millisecond)
						kv := append([]any{"r", rid}, verifClientView(res)...)
						emit("ClientDone", kv...)
					}(rid)
				}
				wg.Wait()
				emit("Repo", "st", stk.statuses())
				for _, be := range stk.backends {
					if stp.Plans[be.Name] == "refuse" {
						be.SetDown(false)
						emit("Down", "e", be.Name, "d", false)
					}
					if stp.Plans[be.Name] == "dial_timeout" {
						be.SetBlackHole(false)
						emit("Down", "e", be.Name, "d", false)
					}
				}
			}
		}
		// quiescence: all clients returned; wait until gauges and counters stop moving (the deferred
		// decrement runs after the client may already have its last byte)
		emit("Stats", verifStats(stk)...)
	})
}

func verifStats(stk *verifStack) []any {
	col := stk.collector()
	snap := func() string {
		b, _ := json.Marshal([]any{col.GetConnectionStats(), col.GetEndpointStats(), col.GetProxyStats(), col.GetTranslatorStats()})
		// LastUsedNano etc. do not change without traffic
		return string(b)
	}
	last := snap()
	stable := time.Now()
	deadline := time.Now().Add(5 * time.Second)
	for time.Now().Before(deadline) && time.Since(stable) < 150*time.Millisecond {
		time.Sleep(10 * time.Millisecond)
		if cur := snap(); cur != last {
			last, stable = cur, time.Now()
		}
	}
	eps := map[string]any{}
	es := col.GetEndpointStats()
	cs := col.GetConnectionStats()
	for _, be := range stk.backends {
		for u, st := range es {
			if strings.HasPrefix(u, be.URL()) {
				eps[be.Name] = map[string]any{"total": st.TotalRequests, "ok": st.SuccessfulRequests, "fail": st.FailedRequests, "gauge": cs[u]}
			}
		}
	}
	ps := col.GetProxyStats()
	var tt, tok, tfail int64
	for _, ts := range col.GetTranslatorStats() {
		tt += ts.TotalRequests
		tok += ts.SuccessfulRequests
		tfail += ts.FailedRequests
	}
	// per-model scope: summed over every model the collector knows
	var mt, mok, mfail int64
	for _, ms := range col.GetModelStats() {
		mt += ms.TotalRequests
		mok += ms.SuccessfulRequests
		mfail += ms.FailedRequests
	}
	return []any{"ep", eps, "proxy", map[string]any{"total": ps.TotalRequests, "ok": ps.SuccessfulRequests, "fail": ps.FailedRequests},
		"tr", map[string]any{"total": tt, "ok": tok, "fail": tfail}, "model", map[string]any{"total": mt, "ok": mok, "fail": mfail}}
}
