//go:build verif

package app

import (
	"encoding/json"
	"sort"
	"strings"
	"sync"
	"testing"
	"time"

	"github.com/thushan/olla/internal/zzverif"
)

type verifStatusScn struct {
	Lists map[string][]string `json:"lists"`
	Width int                 `json:"width"`
}

// TestVerif_StatusView: the status page's view of a catalogue that does not change, asked by `width` clients at
// the same moment (spec/StatusView.tla).
func TestVerif_StatusView(t *testing.T) {
	tr := zzverif.OpenTrace()
	defer tr.Close()
	scns := zzverif.LoadScenarios()
	zzverif.Parallel(len(scns), 6, func(sn int) {
		var sc verifStatusScn
		if err := json.Unmarshal(scns[sn], &sc); err != nil {
			panic(err)
		}
		b := tr.Block()
		defer b.Flush()
		names := []string{"e1", "e2", "e3"}
		opts := make([]verifEndpointOpt, len(names))
		for i, n := range names {
			opts[i].Models = append([]string{}, sc.Lists[n]...)
		}
		stk, err := verifBoot("sherpa", "round-robin", "auto", opts, nil)
		if err != nil {
			b.Emit("Reset", "scn", sn, "booted", false, "lists", map[string][]string{})
			return
		}
		defer stk.Close()
		time.Sleep(150 * time.Millisecond) // the listings of the boot discovery have been registered
		b.Emit("Reset", "scn", sn, "booted", true, "lists", sc.Lists, "width", sc.Width)
		idOf := map[string]string{}
		for _, be := range stk.backends {
			idOf[be.Name] = be.Name
			idOf[be.URL()] = be.Name
			idOf[strings.TrimSuffix(be.URL(), "/")] = be.Name
		}
		var mu sync.Mutex
		for round := 0; round < 4; round++ {
			var wg sync.WaitGroup
			for c := 0; c < sc.Width; c++ {
				wg.Add(1)
				go func() {
					defer wg.Done()
					res := zzverif.Do(stk.addr, &zzverif.Req{Method: "GET", Target: "/internal/status/models", Timeout: 10 * time.Second})
					var parsed struct {
						Total  int `json:"total_models"`
						Recent []struct {
							Name      string   `json:"name"`
							Endpoints []string `json:"endpoints"`
						} `json:"recent_models"`
					}
					_ = json.Unmarshal(res.Body, &parsed)
					eps := map[string][]string{}
					for _, m := range parsed.Recent {
						set := map[string]bool{}
						for _, e := range m.Endpoints {
							if id, ok := idOf[e]; ok {
								set[id] = true
							} else {
								set["?"+e] = true
							}
						}
						l := []string{}
						for id := range set {
							l = append(l, id)
						}
						sort.Strings(l)
						eps[m.Name] = l
					}
					st := res.Status
					if res.NoResp {
						st = 0
					}
					mu.Lock()
					b.Emit("Status", "st", st, "total", parsed.Total, "eps", eps)
					mu.Unlock()
				}()
			}
			wg.Wait()
		}
	})
}
