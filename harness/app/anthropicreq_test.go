//go:build verif

package app

import (
	"bytes"
	"encoding/json"
	"fmt"
	"math/rand"
	"sync"
	"testing"
	"time"

	"github.com/thushan/olla/internal/zzverif"
	"github.com/thushan/olla/internal/zzverifc12"
)

const verifReqC12Completion = `{"id":"chatcmpl-1","object":"chat.completion","created":1700000000,"model":"m","choices":[{"index":0,"message":{"role":"assistant","content":"hello from the backend"},"finish_reason":"stop"}],"usage":{"prompt_tokens":3,"completion_tokens":4,"total_tokens":7}}`
const verifReqC12Stream = "data: {\"id\":\"c1\",\"object\":\"chat.completion.chunk\",\"model\":\"m\",\"choices\":[{\"index\":0,\"delta\":{\"role\":\"assistant\",\"content\":\"hello\"},\"finish_reason\":null}]}\n\n" +
	"data: {\"id\":\"c1\",\"object\":\"chat.completion.chunk\",\"model\":\"m\",\"choices\":[{\"index\":0,\"delta\":{},\"finish_reason\":\"stop\"}]}\n\ndata: [DONE]\n\n"

type verifReqC12Up struct {
	target string
	body   []byte
}

// TestVerif_AnthropicReqHTTP sends concretised abstract Anthropic requests to the assembled server
// (POST /olla/anthropic/v1/messages, both proxy engines) and records the client's status and error
// shape, how many requests reached the recording backend and the abstract projection of the body
// the backend received.
func TestVerif_AnthropicReqHTTP(t *testing.T) {
	tr := zzverif.OpenTrace()
	defer tr.Close()
	scns := zzverif.LoadScenarios()
	seed := zzverif.Seed()
	model := fmt.Sprintf("claude-verif-%d", seed)
	var mu sync.Mutex
	ups := map[string][]verifReqC12Up{}
	var stacks []*verifStack
	for _, engine := range []string{"sherpa", "olla"} {
		stk, err := verifBoot(engine, "priority", "auto", []verifEndpointOpt{{Models: []string{model}}}, nil)
		if err != nil {
			t.Fatalf("boot %s: %v", engine, err)
		}
		defer stk.Close()
		for _, be := range stk.backends {
			be.OnAttempt = func(r *zzverif.Recv) zzverif.Plan {
				mu.Lock()
				ups[r.ReqID] = append(ups[r.ReqID], verifReqC12Up{target: r.Target, body: append([]byte(nil), r.Body...)})
				mu.Unlock()
				var probe struct {
					Stream bool `json:"stream"`
				}
				_ = json.Unmarshal(r.Body, &probe)
				if probe.Stream {
					return zzverif.Plan{Kind: "ok", Status: 200, Chunked: true, Body: verifReqC12Stream, CT: "text/event-stream"}
				}
				return zzverif.Plan{Kind: "ok", Status: 200, Body: verifReqC12Completion}
			}
		}
		stacks = append(stacks, stk)
	}
	zzverif.Parallel(len(scns), 8, func(sn int) {
		b := tr.Block()
		defer b.Flush()
		defer b.Emit("End")
		var q zzverifc12.Req
		if err := json.Unmarshal(scns[sn], &q); err != nil {
			panic(fmt.Sprintf("scenario %d: %v", sn, err))
		}
		rnd := rand.New(rand.NewSource(seed*1000003 + int64(sn)))
		c := zzverifc12.Concretise(q, rnd, model)
		stk := stacks[sn%len(stacks)]
		rid := fmt.Sprintf("c12-%d", sn)
		b.Emit("Reset", "scn", sn, "req", q, "engine", stk.cfg.Proxy.Engine)
		res := zzverif.Do(stk.addr, &zzverif.Req{Method: "POST", Target: "/olla/anthropic/v1/messages",
			Headers: []string{"Content-Type: application/json", "anthropic-version: 2023-06-01", "X-Verif-Req: " + rid},
			Body:    c.Body, Timeout: 20 * time.Second})
		if res.NoResp {
			b.Emit("NoResponse", "err", res.Err)
			return
		}
		mu.Lock()
		got := ups[rid]
		mu.Unlock()
		shape := zzverifc12.ErrorShape(res.Body)
		if bytes.HasPrefix(bytes.TrimSpace(res.Body), []byte("event:")) {
			shape = "sse"
		}
		var out any = "none"
		target := ""
		if len(got) >= 1 {
			target = got[0].target
			if o, ok := c.ProjectBytes(got[0].body); ok {
				out = o
			} else {
				out = zzverifc12.Out{Model: "other", Maxtok: "other", Stream: "other", Temp: "other", Topp: "other",
					Stop: []int{}, Msgs: []zzverifc12.OutMsg{}, Tools: []zzverifc12.OutTool{}, Tc: "other"}
			}
		}
		b.Emit("Http", "st", res.Status, "shape", shape, "up", len(got), "out", out, "target", target)
	})
}
