//go:build verif

package app

// C15 — client credentials and hop-by-hop headers stop at the proxy (spec/Headers.tla).
//
// The harness writes the client's header block literally (case variants, repeated lines, empty
// values, random token-named padding), sends it through the fully assembled server and records the
// header block exactly as each scripted backend received it.  It judges nothing: classification of a
// header line is limited to lower-casing the name and splitting the value at commas.

import (
	"bufio"
	"bytes"
	"crypto/sha256"
	"encoding/binary"
	"encoding/json"
	"fmt"
	"math/rand"
	"net"
	"net/http"
	"sort"
	"strings"
	"sync"
	"testing"
	"time"

	"github.com/thushan/olla/internal/zzverif"
)

type verifHdrSpec struct {
	Name string `json:"name"`
	M    int    `json:"m"` // number of lines (1 or 2)
	V    int    `json:"v"` // case variant of the first line: 0 as written, 1 lower, 2 UPPER, 3 aLtErNaTe
	W    int    `json:"w"` // the second line uses variant (v+w)%4
	E    int    `json:"e"` // 0 no empty value, 1 first line empty, 2 last line empty
}

type verifHdrScn struct {
	Engine string         `json:"engine"`
	Path   string         `json:"path"` // first | failover_reset | failover_refuse | passthrough | translated
	Hs     []verifHdrSpec `json:"hs"`
	Pad    int            `json:"pad"` // number of random token-named padding headers
}

// verifHdrLine is one header line, as written by the client or as received by a backend.
type verifHdrLine struct {
	N    string   `json:"n"`    // field name exactly as on the wire
	Ln   string   `json:"ln"`   // lower-cased field name
	V    string   `json:"v"`    // field value without surrounding whitespace
	Els  []string `json:"els"`  // comma-separated elements of the value (trimmed, empty ones dropped)
	Toks []string `json:"toks"` // Connection lines: lower-cased elements (the nominated names); else empty
}

func verifHdrMkLine(name, value string) verifHdrLine {
	l := verifHdrLine{N: name, Ln: strings.ToLower(name), V: strings.Trim(value, " \t"), Els: []string{}, Toks: []string{}}
	for _, e := range strings.Split(l.V, ",") {
		if e = strings.Trim(e, " \t"); e != "" {
			l.Els = append(l.Els, e)
		}
	}
	if l.Ln == "connection" {
		for _, e := range l.Els {
			l.Toks = append(l.Toks, strings.ToLower(e))
		}
	}
	return l
}

func verifHdrParse(raw []string) []verifHdrLine {
	out := make([]verifHdrLine, 0, len(raw))
	for _, r := range raw {
		i := strings.IndexByte(r, ':')
		if i < 0 {
			out = append(out, verifHdrMkLine(r, ""))
			continue
		}
		out = append(out, verifHdrMkLine(r[:i], r[i+1:]))
	}
	return out
}

func verifHdrCase(name string, variant int) string {
	switch variant % 4 {
	case 1:
		return strings.ToLower(name)
	case 2:
		return strings.ToUpper(name)
	case 3:
		b := []byte(strings.ToLower(name))
		up := false
		for i, c := range b {
			if c >= 'a' && c <= 'z' {
				if up {
					b[i] = c - 32
				}
				up = !up
			}
		}
		return string(b)
	}
	return name
}

// verifHdrValue is the (non-empty) value of the k-th line (1-based) of header `ln` in request rid.
func verifHdrValue(ln string, k int, rid string, long bool) string {
	switch ln {
	case "authorization":
		return fmt.Sprintf("Bearer sk-client-%s-%d", rid, k)
	case "cookie":
		return fmt.Sprintf("session=%s-%d; theme=dark", rid, k)
	case "x-api-key":
		return fmt.Sprintf("key-%s-%d", rid, k)
	case "x-auth-token":
		return fmt.Sprintf("tok-%s-%d", rid, k)
	case "proxy-authorization":
		return fmt.Sprintf("Basic cHJveHk6%s%d", rid, k)
	case "connection":
		if k == 1 {
			return "keep-alive, X-Verif-Nominated"
		}
		return "x-verif-nominated2"
	case "keep-alive":
		return fmt.Sprintf("timeout=5, max=%d00", k)
	case "proxy-authenticate":
		return fmt.Sprintf(`Basic realm="%s-%d"`, rid, k)
	case "te":
		if k == 1 {
			return "trailers"
		}
		return "trailers, deflate;q=0.5"
	case "trailer":
		return fmt.Sprintf("X-Verif-Trailer%d", k)
	case "upgrade":
		if k == 1 {
			return "websocket"
		}
		return "verif/1.0"
	case "transfer-encoding":
		return "chunked"
	case "via":
		if long {
			return fmt.Sprintf("1.0 hop%da, 1.1 hop%db (%s)", k, k, rid)
		}
		return fmt.Sprintf("1.1 hop%d-%s", k, rid)
	case "x-forwarded-for":
		if long {
			return fmt.Sprintf("10.1.%d.1, 10.2.%d.2", k, k)
		}
		return fmt.Sprintf("10.1.%d.1", k)
	case "x-forwarded-proto":
		if k == 1 {
			return "https"
		}
		return "wss"
	case "x-forwarded-host":
		return fmt.Sprintf("client%d.example", k)
	case "x-real-ip":
		return fmt.Sprintf("10.9.%d.9", k)
	}
	return fmt.Sprintf(`val-%s-%d; q="a, b"; x=%d`, rid, k, k)
}

// names the random padding must not hit: every named class, what Go's own HTTP machinery manages, what the
// harness itself sends, olla's own identification headers, and headers that change the server's behaviour
var verifHdrReserved = map[string]bool{
	"authorization": true, "cookie": true, "x-api-key": true, "x-auth-token": true, "proxy-authorization": true,
	"connection": true, "keep-alive": true, "proxy-authenticate": true, "te": true, "trailer": true,
	"transfer-encoding": true, "upgrade": true, "proxy-connection": true,
	"via": true, "x-forwarded-for": true, "x-forwarded-proto": true, "x-forwarded-host": true, "x-real-ip": true,
	"host": true, "content-length": true, "user-agent": true, "accept-encoding": true, "expect": true, "range": true,
	"content-type": true, "content-encoding": true, "x-verif-req": true, "x-proxied-by": true, "x-model": true,
	"x-verif-nominated": true, "x-verif-nominated2": true, "x-verif-base": true,
}

var verifHdrRealistic = []string{"Accept", "Accept-Language", "Cache-Control", "X-Request-Id", "anthropic-beta",
	"OpenAI-Organization", "X-Stainless-Lang", "x-stainless-retry-count", "Origin", "Referer", "Pragma", "DNT",
	"X-Custom-Thing", "CF-Connecting-IP", "Forwarded", "X-Forwarded-Port", "X-Forwarded-Server", "X-Api-Key-Id",
	"Authorization-Info", "X-Correlation-ID", "traceparent", "tracestate", "Idempotency-Key", "If-None-Match",
	"X-Amzn-Trace-Id", "Sec-Fetch-Mode", "X-Cookie-Consent", "Token", "Api-Key"}

const verifHdrTchar = "abcdefghijklmnopqrstuvwxyzABCDEFGHIJKLMNOPQRSTUVWXYZ0123456789-_.!#$%&'*+^`|~"
const verifHdrVchar = "abcdefghijklmnopqrstuvwxyzABCDEFGHIJKLMNOPQRSTUVWXYZ0123456789 ,;=:/\"'()[]{}<>@?!#$%&*+-._~^|"

// verifHdrPadding returns n random header lines (some names twice in different case, some values empty).
func verifHdrPadding(rnd *rand.Rand, n int, rid string) [][2]string {
	var out [][2]string
	used := map[string]bool{}
	for len(out) < n {
		var name string
		if rnd.Intn(3) == 0 {
			name = verifHdrRealistic[rnd.Intn(len(verifHdrRealistic))]
		} else {
			l := 1 + rnd.Intn(24)
			b := make([]byte, l)
			for i := range b {
				b[i] = verifHdrTchar[rnd.Intn(len(verifHdrTchar))]
			}
			name = string(b)
		}
		ln := strings.ToLower(name)
		if verifHdrReserved[ln] || used[ln] {
			continue
		}
		used[ln] = true
		lines := 1
		if rnd.Intn(5) == 0 && len(out)+1 < n {
			lines = 2
		}
		for k := 0; k < lines; k++ {
			val := ""
			if rnd.Intn(8) != 0 {
				l := 1 + rnd.Intn(40)
				b := make([]byte, l)
				for i := range b {
					b[i] = verifHdrVchar[rnd.Intn(len(verifHdrVchar))]
				}
				val = strings.Trim(string(b), " ")
			}
			out = append(out, [2]string{verifHdrCase(name, rnd.Intn(4)*k), val})
		}
	}
	return out
}

const verifHdrOpenAIAnswer = `{"id":"chatcmpl-1","object":"chat.completion","created":1700000000,"model":"m1","choices":[{"index":0,"message":{"role":"assistant","content":"hello from the backend"},"finish_reason":"stop"}],"usage":{"prompt_tokens":3,"completion_tokens":4,"total_tokens":7}}`
const verifHdrAnthropicAnswer = `{"id":"msg_1","type":"message","role":"assistant","model":"m1","content":[{"type":"text","text":"hello from the backend"}],"stop_reason":"end_turn","stop_sequence":null,"usage":{"input_tokens":3,"output_tokens":4}}`

// verifHdrRequest builds the literal request bytes and the list of header lines the client wrote.
func verifHdrRequest(sc *verifHdrScn, rid, host string, rnd *rand.Rand) ([]byte, []verifHdrLine) {
	target := "/olla/proxy/v1/chat/completions"
	body := fmt.Sprintf(`{"model":"m1","messages":[{"role":"user","content":"hello %s"}],"stream":false}`, rid)
	var lines [][2]string
	lines = append(lines, [2]string{"Host", host})
	lines = append(lines, [2]string{"Content-Type", "application/json"})
	lines = append(lines, [2]string{"X-Verif-Req", rid})
	if sc.Path == "passthrough" || sc.Path == "translated" {
		target = "/olla/anthropic/v1/messages"
		body = fmt.Sprintf(`{"model":"m1","max_tokens":16,"messages":[{"role":"user","content":"hello %s"}]}`, rid)
		lines = append(lines, [2]string{"anthropic-version", "2023-06-01"})
	}
	chunked := false
	var named [][2]string
	for _, h := range sc.Hs {
		ln := strings.ToLower(h.Name)
		if ln == "transfer-encoding" {
			// the only form Go's server accepts: exactly one line "chunked" with a chunked body
			chunked = true
			named = append(named, [2]string{verifHdrCase(h.Name, h.V), "chunked"})
			continue
		}
		for k := 1; k <= h.M; k++ {
			variant := h.V
			if k == 2 {
				variant = (h.V + h.W) % 4
			}
			val := verifHdrValue(ln, k, rid, (h.V+k)%2 == 0)
			if (h.E == 1 && k == 1) || (h.E == 2 && k == h.M) {
				val = ""
			}
			named = append(named, [2]string{verifHdrCase(h.Name, variant), val})
		}
		if ln == "connection" {
			// the headers the Connection lines nominate: hop-by-hop when the line naming them was really sent
			// (an emptied line nominates nothing: then they are ordinary client headers that must arrive)
			named = append(named, [2]string{"X-Verif-Nominated", "nom-" + rid})
			named = append(named, [2]string{"x-verif-NOMINATED2", "nom2-" + rid})
		}
	}
	pad := verifHdrPadding(rnd, sc.Pad, rid)
	// the named lines are spread between the padding lines, keeping their own order (stable merge:
	// insertion points chosen in increasing order)
	idx := make([]int, len(named))
	for i := range idx {
		idx[i] = rnd.Intn(len(pad) + 1)
	}
	sort.Ints(idx)
	j := 0
	for i := 0; i <= len(pad); i++ {
		for j < len(named) && idx[j] == i {
			lines = append(lines, named[j])
			j++
		}
		if i < len(pad) {
			lines = append(lines, pad[i])
		}
	}
	// the client's own hop-by-hop line: makes the server close the connection after the answer
	lines = append(lines, [2]string{"Connection", "close, x-verif-base"})
	var b bytes.Buffer
	fmt.Fprintf(&b, "POST %s HTTP/1.1\r\n", target)
	var sent []verifHdrLine
	for _, l := range lines {
		if l[1] == "" {
			fmt.Fprintf(&b, "%s:\r\n", l[0])
		} else {
			fmt.Fprintf(&b, "%s: %s\r\n", l[0], l[1])
		}
		sent = append(sent, verifHdrMkLine(l[0], l[1]))
	}
	if chunked {
		b.WriteString("\r\n")
		for off := 0; off < len(body); off += 23 {
			end := off + 23
			if end > len(body) {
				end = len(body)
			}
			fmt.Fprintf(&b, "%x\r\n%s\r\n", end-off, body[off:end])
		}
		b.WriteString("0\r\n\r\n")
	} else {
		fmt.Fprintf(&b, "Content-Length: %d\r\n\r\n%s", len(body), body)
		sent = append(sent, verifHdrMkLine("Content-Length", fmt.Sprint(len(body))))
	}
	return b.Bytes(), sent
}

type verifHdrResp struct {
	Status int
	Mode   string
	Err    string
}

// verifHdrDo writes raw on a fresh connection and reads one response (15 s watchdog).
func verifHdrDo(addr string, raw []byte) verifHdrResp {
	var res verifHdrResp
	c, err := net.DialTimeout("tcp", addr, 5*time.Second)
	if err != nil {
		res.Err = "dial: " + err.Error()
		return res
	}
	defer c.Close()
	c.SetDeadline(time.Now().Add(15 * time.Second))
	if _, err := c.Write(raw); err != nil {
		res.Err = "write: " + err.Error()
	}
	resp, err := http.ReadResponse(bufio.NewReader(c), &http.Request{Method: "POST"})
	if err != nil {
		if ne, ok := err.(net.Error); ok && ne.Timeout() {
			res.Err = "hang"
		} else {
			res.Err = "read: " + err.Error()
		}
		return res
	}
	var sink bytes.Buffer
	sink.ReadFrom(resp.Body)
	res.Status = resp.StatusCode
	res.Mode = resp.Header.Get("X-Olla-Mode")
	return res
}

func verifHdrStackKey(sc *verifHdrScn) string { return sc.Engine + "/" + sc.Path }

// TestVerif_Headers drives TLC-generated header sets through the assembled server on every request path.
func TestVerif_Headers(t *testing.T) {
	tr := zzverif.OpenTrace()
	defer tr.Close()
	raw := zzverif.LoadScenarios()
	scns := make([]verifHdrScn, len(raw))
	hashes := make([]int64, len(raw))
	for i := range raw {
		if err := json.Unmarshal(raw[i], &scns[i]); err != nil {
			panic(err)
		}
		h := sha256.Sum256(raw[i])
		hashes[i] = int64(binary.BigEndian.Uint64(h[:8]) >> 1)
	}
	// group the scenarios by stack; a failover stack serves few requests (the failing endpoint must stay in
	// rotation and its engine breaker closed), the others many
	groups := map[string][]int{}
	var keys []string
	for i := range scns {
		k := verifHdrStackKey(&scns[i])
		if _, ok := groups[k]; !ok {
			keys = append(keys, k)
		}
		groups[k] = append(groups[k], i)
	}
	sort.Strings(keys)
	var batches [][]int
	for _, k := range keys {
		size := 40
		if strings.HasPrefix(scns[groups[k][0]].Path, "failover") {
			size = 4
		}
		g := groups[k]
		for off := 0; off < len(g); off += size {
			end := off + size
			if end > len(g) {
				end = len(g)
			}
			batches = append(batches, g[off:end])
		}
	}
	seed := zzverif.Seed()
	zzverif.Parallel(len(batches), 10, func(bn int) {
		batch := batches[bn]
		blk := tr.Block()
		defer blk.Flush()
		var mu sync.Mutex
		emit := func(name string, kv ...any) {
			mu.Lock()
			defer mu.Unlock()
			blk.Emit(name, kv...)
		}
		first := &scns[batch[0]]
		done := 0
		defer func() {
			if p := recover(); p != nil {
				for _, sn := range batch[done:] {
					emit("Reset", "scn", sn, "engine", scns[sn].Engine, "path", scns[sn].Path, "booted", false, "err", fmt.Sprint("harness panic: ", p))
				}
			}
		}()
		typ := "openai-compatible"
		if first.Path == "passthrough" {
			typ = "vllm"
		}
		opts := []verifEndpointOpt{{Type: typ, Priority: 200, Models: []string{"m1"}}, {Type: typ, Priority: 100, Models: []string{"m1"}}}
		stk, err := verifBoot(first.Engine, "priority", "auto", opts, nil)
		if err != nil {
			for _, sn := range batch {
				emit("Reset", "scn", sn, "engine", scns[sn].Engine, "path", scns[sn].Path, "booted", false, "err", err.Error())
			}
			done = len(batch)
			return
		}
		defer stk.Close()
		var ridMu sync.Mutex
		earlier := map[string]bool{} // request ids of finished scenarios of this stack
		answer := verifHdrOpenAIAnswer
		if first.Path == "passthrough" {
			answer = verifHdrAnthropicAnswer
		}
		for bi, be := range stk.backends {
			bi, be := bi, be
			be.OnAttempt = func(r *zzverif.Recv) zzverif.Plan {
				ev := "BackendRecv"
				ridMu.Lock()
				if earlier[r.ReqID] {
					// a straggler of a request whose client has already given up: recorded, not attributed
					ev = "Stale"
				}
				ridMu.Unlock()
				emit(ev, "r", r.ReqID, "e", be.Name, "a", r.Attempt, "target", r.Target, "lines", verifHdrParse(r.RawHeader))
				if bi == 0 && first.Path == "failover_reset" {
					return zzverif.Plan{Kind: "reset_pre"}
				}
				return zzverif.Plan{Kind: "ok", Status: 200, Body: answer}
			}
		}
		if first.Path == "failover_refuse" {
			stk.backends[0].SetDown(true)
		}
		for _, sn := range batch {
			sc := &scns[sn]
			rid := fmt.Sprintf("q%d", sn)
			rnd := rand.New(rand.NewSource(seed*1000003 + hashes[sn]))
			emit("Reset", "scn", sn, "engine", sc.Engine, "path", sc.Path, "booted", true)
			if strings.HasPrefix(sc.Path, "failover") {
				// put the failing endpoint back into rotation (its health answers are fine / it is probed
				// while its listener is briefly open)
				if sc.Path == "failover_refuse" {
					stk.backends[0].SetDown(false)
				}
				stk.healthRound()
				if sc.Path == "failover_refuse" {
					stk.backends[0].SetDown(true)
				}
			}
			req, sent := verifHdrRequest(sc, rid, stk.addr, rnd)
			emit("ClientSend", "r", rid, "lines", sent)
			res := verifHdrDo(stk.addr, req)
			emit("ClientDone", "r", rid, "st", res.Status, "mode", res.Mode, "err", res.Err, "health", stk.statuses())
			ridMu.Lock()
			earlier[rid] = true
			ridMu.Unlock()
			done++
		}
	})
}
