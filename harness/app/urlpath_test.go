//go:build verif

package app

import (
	"bufio"
	"context"
	"encoding/json"
	"fmt"
	"net"
	"net/url"
	"sort"
	"strings"
	"sync"
	"testing"
	"time"

	"github.com/thushan/olla/internal/config"
	"github.com/thushan/olla/internal/zzverif"
)

// C16 — upstream URLs stay on the configured endpoint and under its base path.
//
// The harness boots the fully assembled server once per configuration (engine, endpoint base path,
// preserve_path, spelling of the relative health/model paths) against ONE scripted backend that it
// owns (so that the health probe and the model listing of the boot itself are observed) and a decoy
// listener that nothing is configured to talk to.  Every scenario of that configuration is one raw
// request; the harness records what the backend (and the decoy) received, split into path segments
// and raw query — it judges nothing.

type verifUrlScn struct {
	Kind     string   `json:"kind"` // "req" | "cfg"
	Engine   string   `json:"engine"`
	Bid      string   `json:"bid"`  // name of the base path in the specification
	Base     string   `json:"base"` // the base path as written in the endpoint URL
	Preserve bool     `json:"preserve"`
	Rel      string   `json:"rel"` // "slash" | "noslash": spelling of health_check_url / model_url
	Prefix   string   `json:"prefix"`
	Form     string   `json:"form"` // "origin" | "absolute" | "netpath"
	Segs     []string `json:"segs"`
	Query    string   `json:"query"`
}

func (s *verifUrlScn) key() string {
	return fmt.Sprintf("%s|%s|%v|%s|%s", s.Engine, s.Bid, s.Preserve, s.Rel, s.epType())
}

// verifUrlSplit projects a request target onto (rooted, path segments, raw query): "/a//b?x" ->
// (true, ["a","","b"], "x"); "/" -> (true, [], ""). An absolute-form target naming `self` is reduced
// to its path; any other non-rooted target is reported as not rooted.
func verifUrlSplit(target, self string) (rooted bool, segs []string, query string) {
	segs = []string{}
	t := target
	if strings.HasPrefix(t, "http://"+self+"/") {
		t = t[len("http://"+self):]
	} else if t == "http://"+self {
		t = "/"
	}
	if i := strings.IndexByte(t, '?'); i >= 0 {
		query = t[i+1:]
		t = t[:i]
	}
	if !strings.HasPrefix(t, "/") {
		return false, segs, query
	}
	t = t[1:]
	if t == "" {
		return true, segs, query
	}
	return true, strings.Split(t, "/"), query
}

// verifUrlJoinBase is how the harness scripts the backend's health/model paths (what a correct
// resolution of "<base>" + "/health" is); used only to answer 200 there, never to judge.
func verifUrlJoinBase(base, p string) string {
	b := strings.TrimRight(base, "/")
	return b + p
}

type verifUrlSink struct {
	mu sync.Mutex
	ev []zzverif.Ev
}

func (s *verifUrlSink) emit(name string, kv ...any) {
	e := zzverif.Ev{"ev": name}
	for i := 0; i+1 < len(kv); i += 2 {
		e[kv[i].(string)] = kv[i+1]
	}
	s.mu.Lock()
	s.ev = append(s.ev, e)
	s.mu.Unlock()
}

func (s *verifUrlSink) drain() []zzverif.Ev {
	s.mu.Lock()
	defer s.mu.Unlock()
	out := s.ev
	s.ev = nil
	return out
}

type verifUrlStack struct {
	stk     *verifStack
	be      *zzverif.Backend
	decoy   net.Listener
	decoyAt string
	boot    *verifUrlSink // events that belong to no request (boot probes, stray traffic)
	sinks   sync.Map      // request id -> *verifUrlSink
	wg      sync.WaitGroup
}

func (u *verifUrlStack) sinkFor(rid string) *verifUrlSink {
	if rid != "" {
		if v, ok := u.sinks.Load(rid); ok {
			return v.(*verifUrlSink)
		}
	}
	return u.boot
}

func (u *verifUrlStack) recvFields(r *zzverif.Recv) []any {
	rooted, segs, q := verifUrlSplit(r.Target, u.be.Addr())
	return []any{"listener", "endpoint", "rooted", rooted, "segs", segs, "query", q, "tgt", r.Target, "hosthdr", r.Host}
}

func (u *verifUrlStack) serveDecoy() {
	for {
		c, err := u.decoy.Accept()
		if err != nil {
			return
		}
		u.wg.Add(1)
		go func() {
			defer u.wg.Done()
			defer c.Close()
			c.SetDeadline(time.Now().Add(2 * time.Second))
			br := bufio.NewReader(c)
			first, rid := "", ""
			for i := 0; i < 100; i++ {
				line, err := br.ReadString('\n')
				line = strings.TrimRight(line, "\r\n")
				if i == 0 {
					first = line
				}
				if strings.HasPrefix(strings.ToLower(line), "x-verif-req:") {
					rid = strings.TrimSpace(line[len("x-verif-req:"):])
				}
				if err != nil || line == "" {
					break
				}
			}
			u.sinkFor(rid).emit("DecoyRecv", "listener", "decoy", "r", rid, "line", first)
			c.Write([]byte("HTTP/1.1 200 OK\r\nContent-Length: 5\r\nConnection: close\r\n\r\ndecoy"))
		}()
	}
}

func (u *verifUrlStack) close() {
	if u.stk != nil {
		u.stk.Close()
	}
	u.be.Close()
	u.decoy.Close()
	u.wg.Wait()
}

func verifUrlBoot(sc *verifUrlScn) (*verifUrlStack, error) {
	u := &verifUrlStack{boot: &verifUrlSink{}}
	u.be = zzverif.NewBackend("e1", zzverif.NewGroup())
	u.be.SetModelsOpenAI([]string{"m1"})
	basePath := sc.Base // the configured endpoint URL may carry a query of its own
	if i := strings.IndexByte(basePath, '?'); i >= 0 {
		basePath = basePath[:i]
	}
	u.be.HealthPath = verifUrlJoinBase(basePath, "/health")
	u.be.ModelsPath = verifUrlJoinBase(basePath, "/v1/models")
	u.be.OnAux = func(kind string, r *zzverif.Recv) {
		u.boot.emit("AuxRecv", append([]any{"which", kind}, u.recvFields(r)...)...)
	}
	u.be.OnAttempt = func(r *zzverif.Recv) zzverif.Plan {
		if r.ReqID == "" {
			u.boot.emit("AuxRecv", append([]any{"which", "other"}, u.recvFields(r)...)...)
		} else {
			u.sinkFor(r.ReqID).emit("BackendRecv", append([]any{"r", r.ReqID}, u.recvFields(r)...)...)
		}
		return zzverif.Plan{Kind: "ok", Status: 200, N: 2}
	}
	for {
		ln, err := net.Listen("tcp", fmt.Sprintf("127.0.0.1:%d", zzverif.FreePort()))
		if err != nil {
			continue
		}
		u.decoy, u.decoyAt = ln, ln.Addr().String()
		break
	}
	go u.serveDecoy()
	hc, mu := "/health", "/v1/models"
	if sc.Rel == "noslash" {
		hc, mu = "health", "v1/models"
	}
	epType := sc.epType()
	stk, err := verifBoot(sc.Engine, "priority", "auto", nil, func(cfg *config.Config) {
		p := 100
		cfg.Discovery.Static.Endpoints = []config.EndpointConfig{{
			Name: "e1", URL: u.be.URL() + sc.Base, Type: epType, Priority: &p,
			HealthCheckURL: hc, ModelURL: mu,
			CheckInterval: 5 * time.Second, CheckTimeout: 1 * time.Second, PreservePath: sc.Preserve,
		}}
	})
	if err != nil {
		u.close()
		return nil, err
	}
	u.stk = stk
	return u, nil
}

// verifUrlResolved reports what LoadFromConfig made of the endpoint's URLs (read back from the live
// repository of the booted stack).
func (u *verifUrlStack) resolved(b *zzverif.Block) {
	defer func() {
		if p := recover(); p != nil {
			b.Emit("Panic", "where", "resolved", "what", fmt.Sprint(p))
		}
	}()
	type item struct{ which, raw string }
	var items []item
	all, _ := u.stk.repo().GetAll(context.Background())
	for _, ep := range all {
		items = append(items, item{"health", ep.HealthCheckURLString}, item{"models", ep.ModelURLString})
	}
	for _, e := range items {
		host, rooted, segs, q := "other", false, []string{}, ""
		if pu, err := url.Parse(e.raw); err == nil && pu.Scheme == "http" && pu.Host == u.be.Addr() {
			host = "endpoint"
			p := pu.EscapedPath()
			if p == "" {
				p = "/"
			}
			rooted, segs, _ = verifUrlSplit(p, u.be.Addr())
			q = pu.RawQuery
		}
		b.Emit("Resolved", "which", e.which, "listener", host, "rooted", rooted, "segs", segs, "query", q, "url", e.raw)
	}
}

func verifUrlFlush(b *zzverif.Block, evs []zzverif.Ev) {
	for _, e := range evs {
		name := e["ev"].(string)
		kv := []any{}
		keys := make([]string, 0, len(e))
		for k := range e {
			if k != "ev" {
				keys = append(keys, k)
			}
		}
		sort.Strings(keys)
		for _, k := range keys {
			kv = append(kv, k, e[k])
		}
		b.Emit(name, kv...)
	}
}

// epType: a provider route is served by endpoints of that provider's kind; its aliases name the same kind
func (sc *verifUrlScn) epType() string {
	switch strings.Trim(strings.TrimPrefix(sc.Prefix, "/olla/"), "/") {
	case "lmstudio", "lm-studio", "lm_studio":
		return "lm-studio"
	case "ollama":
		return "ollama"
	case "vllm":
		return "vllm"
	}
	return "openai-compatible"
}

func verifUrlTarget(sc *verifUrlScn, decoy string) string {
	t := sc.Prefix + strings.Join(sc.Segs, "/")
	if sc.Query != "" {
		t += "?" + sc.Query
	}
	switch sc.Form {
	case "absolute":
		return "http://" + decoy + t
	case "netpath":
		return "//" + decoy + t
	}
	return t
}

// TestVerif_UrlPath drives TLC-enumerated request targets x endpoint configurations through the
// assembled server and records what reached the backend.
func TestVerif_UrlPath(t *testing.T) {
	tr := zzverif.OpenTrace()
	defer tr.Close()
	raw := zzverif.LoadScenarios()
	scns := make([]*verifUrlScn, len(raw))
	groups := map[string][]int{}
	var order []string
	for i, r := range raw {
		sc := &verifUrlScn{}
		if err := json.Unmarshal(r, sc); err != nil {
			panic(err)
		}
		if sc.Segs == nil {
			sc.Segs = []string{}
		}
		scns[i] = sc
		k := sc.key()
		if _, ok := groups[k]; !ok {
			order = append(order, k)
		}
		groups[k] = append(groups[k], i)
	}
	zzverif.Parallel(len(order), 3, func(gi int) {
		idx := groups[order[gi]]
		first := scns[idx[0]]
		cfgKV := func(sc *verifUrlScn) []any {
			return []any{"engine", sc.Engine, "bid", sc.Bid, "preserve", sc.Preserve, "rel", sc.Rel}
		}
		u, err := verifUrlBoot(first)
		if err != nil {
			for _, sn := range idx {
				b := tr.Block()
				b.Emit("Reset", append([]any{"scn", sn, "kind", scns[sn].Kind, "booted", false, "err", err.Error()}, cfgKV(scns[sn])...)...)
				b.Flush()
			}
			return
		}
		defer u.close()
		// the configuration block of this stack: resolved URLs + what the boot's own probes requested
		{
			b := tr.Block()
			b.Emit("Reset", append([]any{"scn", idx[0], "kind", "cfg", "booted", true}, cfgKV(first)...)...)
			u.resolved(b)
			u.stk.healthRound()
			verifUrlFlush(b, u.boot.drain())
			b.Emit("Statuses", "st", u.stk.statuses())
			b.Flush()
		}
		var reqs []int
		for _, sn := range idx {
			if scns[sn].Kind == "req" {
				reqs = append(reqs, sn)
			}
		}
		zzverif.Parallel(len(reqs), 12, func(ri int) {
			sn := reqs[ri]
			sc := scns[sn]
			rid := fmt.Sprintf("s%d", sn)
			sink := &verifUrlSink{}
			u.sinks.Store(rid, sink)
			b := tr.Block()
			defer b.Flush()
			target := verifUrlTarget(sc, u.decoyAt)
			b.Emit("Reset", append([]any{"scn", sn, "kind", "req", "booted", true, "prefix", sc.Prefix, "form", sc.Form,
				"segs", sc.Segs, "query", sc.Query}, cfgKV(sc)...)...)
			b.Emit("Send", "r", rid, "target", target)
			var res *zzverif.Resp
			func() {
				defer func() {
					if p := recover(); p != nil {
						sink.emit("Panic", "where", "client", "what", fmt.Sprint(p))
					}
				}()
				body := `{"model":"m1","messages":[{"role":"user","content":"hi"}],"stream":false}`
				res = zzverif.Do(u.stk.addr, &zzverif.Req{Method: "POST", Target: target,
					Headers: []string{"Content-Type: application/json", "X-Verif-Req: " + rid},
					Body:    []byte(body), Timeout: 10 * time.Second})
			}()
			verifUrlFlush(b, sink.drain())
			if res == nil {
				b.Emit("Done", "r", rid, "st", 0, "loc", "", "err", "panic")
				return
			}
			st := res.Status
			if res.NoResp {
				st = 0
			}
			loc := ""
			if res.Header != nil {
				loc = res.Header.Get("Location")
			}
			b.Emit("Done", "r", rid, "st", st, "loc", loc, "err", res.Err)
		})
		// anything that arrived outside a request's lifetime (late or unattributed traffic)
		time.Sleep(30 * time.Millisecond)
		var late []zzverif.Ev
		late = append(late, u.boot.drain()...)
		u.sinks.Range(func(_, v any) bool {
			late = append(late, v.(*verifUrlSink).drain()...)
			return true
		})
		if len(late) > 0 {
			b := tr.Block()
			b.Emit("Reset", append([]any{"scn", idx[0], "kind", "tail", "booted", true}, cfgKV(first)...)...)
			verifUrlFlush(b, late)
			b.Flush()
		}
	})
}
