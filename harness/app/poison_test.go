//go:build verif

package app

import (
	"context"
	"encoding/json"
	"fmt"
	"math/rand"
	"sort"
	"strings"
	"sync/atomic"
	"testing"
	"time"

	"github.com/thushan/olla/internal/config"
	"github.com/thushan/olla/internal/zzverif"
)

type verifPoisonScn struct {
	Kind   string `json:"kind"`
	Cls    string `json:"cls"`
	Format string `json:"format"`
}

// verifPoisonListing builds one instance of a listing class. It returns the bytes and the named,
// de-duplicated entries a parser could legitimately take from it.
func verifPoisonListing(cls string, rnd *rand.Rand) ([]byte, []string) {
	entry := func(name string) (string, string) {
		return fmt.Sprintf(`{"id":%q,"object":"model","created":1700000000,"owned_by":"x"}`, name),
			fmt.Sprintf(`{"name":%q,"model":%q,"modified_at":"2024-01-01T00:00:00Z","size":%d,"digest":"sha256:%064x","details":{"family":%q,"parameter_size":"7B","quantization_level":"Q4_0"}}`,
				name, name, 1000+rnd.Intn(1000), rnd.Int63(), "fam"+name)
	}
	both := func(names ...string) []byte {
		var d, m []string
		for _, n := range names {
			a, b := entry(n)
			d = append(d, a)
			m = append(m, b)
		}
		return []byte(`{"object":"list","data":[` + strings.Join(d, ",") + `],"models":[` + strings.Join(m, ",") + `]}`)
	}
	switch cls {
	case "mutated":
		// a well-formed listing with 1..4 byte-level accidents
		b := both("m1", "m3", "m4-"+fmt.Sprint(rnd.Intn(100)))
		special := []string{"\"", "{", "}", "[", "]", ",", ":", "\\", "\x00", "\xff", "\\u0000", "null", "1e999", "-", "\n"}
		for n := 1 + rnd.Intn(4); n > 0 && len(b) > 8; n-- {
			i := rnd.Intn(len(b))
			j := i + rnd.Intn(len(b)-i)
			switch rnd.Intn(5) {
			case 0: // flip a byte
				b[i] ^= byte(1 << uint(rnd.Intn(8)))
			case 1: // cut a range
				b = append(append([]byte{}, b[:i]...), b[j:]...)
			case 2: // double a range
				if j-i > 200 {
					j = i + 200
				}
				b = append(append(append([]byte{}, b[:j]...), b[i:j]...), b[j:]...)
			case 3: // insert a token that means something to a JSON parser
				b = append(append(append([]byte{}, b[:i]...), special[rnd.Intn(len(special))]...), b[i:]...)
			case 4: // the rest never arrives
				b = b[:i]
			}
		}
		return b, nil
	case "ok_new":
		return both("m1", "m3"), []string{"m1", "m3"}
	case "notjson":
		return []byte("<html><body>502 Bad Gateway " + strings.Repeat("x", rnd.Intn(50)) + "</body></html>"), nil
	case "truncated":
		b := both("m1", "m3")
		return b[:len(b)/2+rnd.Intn(len(b)/4)], nil
	case "emptybody":
		return []byte{}, nil
	case "emptylist":
		return []byte(`{"object":"list","data":[],"models":[]}`), []string{}
	case "nameless":
		a, b := entry("m3")
		return []byte(`{"object":"list","data":[{"id":"","object":"model"},{"object":"model"},` + a + `],"models":[{"name":"","model":""},{"size":3},` + b + `]}`), []string{"m3"}
	case "duplicates":
		return both("m3", "m1", "m3", "m3"), []string{"m1", "m3"}
	case "wrongtype":
		v := []string{`{"data":"models","models":"none"}`, `{"data":[1,2,3],"models":[true,false]}`, `{"data":{"id":"m3"},"models":{"name":"m3"}}`, `[{"id":"m3"}]`, `"m3"`, `42`}
		return []byte(v[rnd.Intn(len(v))]), nil
	case "nullentry":
		a, b := entry("m3")
		return []byte(`{"object":"list","data":[null,` + a + `,null],"models":[null,` + b + `]}`), []string{"m3"}
	case "deep":
		n := 20000
		return []byte(`{"data":` + strings.Repeat("[", n) + strings.Repeat("]", n) + `,"models":` + strings.Repeat(`{"a":`, 5000) + "1" + strings.Repeat("}", 5000) + `}`), nil
	case "hugenum":
		return []byte(`{"object":"list","data":[{"id":"m3","object":"model","created":1e999,"owned_by":"x"}],"models":[{"name":"m3","model":"m3","size":1e999,"digest":"sha256:00","details":{"family":"famm3"}}]}`), []string{"m3"}
	case "oversized":
		a, b := entry("m3")
		pad := strings.Repeat("p", 12<<20)
		return []byte(`{"object":"list","pad":"` + pad + `","data":[` + a + `],"models":[` + b + `]}`), []string{"m3"}
	case "nulbytes":
		return []byte("{\"data\":[{\"id\":\"m\x003\"}],\"models\":[{\"name\":\"m\x003\"}]}\x00\x00"), nil
	}
	return both("m1", "m2"), []string{"m1", "m2"}
}

func verifPoisonHealth(cls string) []byte {
	switch cls {
	case "garbage":
		return []byte("\x16\x03\x01\x02\x00\x01\x00\x01\xfc\x03\x03 not http at all\r\n\r\n")
	case "hugebody":
		return []byte("HTTP/1.1 200 OK\r\nContent-Type: application/json\r\nContent-Length: 8388608\r\n\r\n" + strings.Repeat("z", 8<<20))
	case "nobody":
		return []byte("HTTP/1.1 200 OK\r\nContent-Length: 0\r\n\r\n")
	case "badchunk":
		return []byte("HTTP/1.1 200 OK\r\nTransfer-Encoding: chunked\r\n\r\nZZZ\r\nhello\r\n0\r\n\r\n")
	case "hdronly":
		return []byte("HTTP/1.1 200 OK\r\nContent-Length: 100\r\n\r\n")
	case "status999":
		return []byte("HTTP/1.1 999 Whatever\r\nContent-Length: 2\r\n\r\nok")
	case "longheader":
		return []byte("HTTP/1.1 200 OK\r\nX-Long: " + strings.Repeat("h", 2<<20) + "\r\nContent-Length: 2\r\n\r\nok")
	}
	return []byte("HTTP/1.1 200 OK\r\nContent-Length: 2\r\n\r\nok")
}

// TestVerif_Poison: backend answers of hostile classes for listings and health probes, against the
// assembled server; the catalogue views and a bystander request are recorded after each.
func TestVerif_Poison(t *testing.T) {
	tr := zzverif.OpenTrace()
	defer tr.Close()
	scns := zzverif.LoadScenarios()
	rnd := rand.New(rand.NewSource(zzverif.Seed()))
	// scenarios run one after another and every event is flushed, so that a crash of the process leaves a
	// trace the driver can still hand to TLC (with a Panic event appended)
	for sn, raw := range scns {
		var sc verifPoisonScn
		if err := json.Unmarshal(raw, &sc); err != nil {
			t.Fatal(err)
		}
		if sc.Kind == "metrics" || sc.Kind == "fleet" {
			continue
		}
		typ := sc.Format
		if typ == "" {
			typ = "openai-compatible"
		}
		opts := []verifEndpointOpt{{Type: typ, Models: []string{"m1", "m2"}}, {Models: []string{"m9"}}}
		stk, err := verifBoot("sherpa", "priority", "auto", opts, func(c *config.Config) {
			// the plain registry: the unified catalogue's stale sources are C10's known finding, not this check's
			c.ModelRegistry.EnableUnifier = false
			c.ModelRegistry.Unification.Enabled = false
		})
		if err != nil {
			continue
		}
		e1 := stk.backends[0]
		d, _ := stk.mgr.GetRegistry().GetDiscovery()
		reg, _ := d.GetRegistry()
		names := func() []string {
			ms, _ := reg.GetModelsForEndpoint(context.Background(), e1.URL())
			out := []string{}
			for _, m := range ms {
				out = append(out, m.Name)
			}
			sort.Strings(out)
			return out
		}
		tr.Emit("Reset", "scn", sn, "kind", sc.Kind, "cls", sc.Cls, "format", typ, "known", names())
		probe := func() {
			_, hdrs, body := verifRequestFor("proxy", fmt.Sprintf("pz%d", sn), "m9")
			res := zzverif.Do(stk.addr, &zzverif.Req{Method: "POST", Target: "/olla/proxy/v1/chat/completions", Headers: hdrs, Body: []byte(body), Timeout: 10 * time.Second})
			st := res.Status
			if res.NoResp {
				st = 0
			}
			tr.Emit("Probe", "st", st)
		}
		cycle := func(wantModels bool) {
			// unhealthy -> healthy makes olla probe and re-list the endpoint
			var listed atomic.Bool
			e1.OnAux = func(kind string, r *zzverif.Recv) {
				if kind == "models" {
					listed.Store(true)
				}
			}
			e1.HealthStatus.Store(503)
			stk.healthRound()
			e1.HealthStatus.Store(200)
			stk.healthRound()
			if wantModels {
				dl := time.Now().Add(5 * time.Second)
				for !listed.Load() && time.Now().Before(dl) {
					time.Sleep(5 * time.Millisecond)
				}
				time.Sleep(250 * time.Millisecond)
			}
		}
		switch sc.Kind {
		case "listing":
			body, named := verifPoisonListing(sc.Cls, rnd)
			if named == nil {
				named = []string{}
			}
			e1.SetModelsRaw(body)
			tr.Emit("Listing", "cls", sc.Cls, "named", named, "bytes", len(body))
			tr.Sync()
			done := make(chan struct{})
			go func() { cycle(true); close(done) }()
			select {
			case <-done:
			case <-time.After(30 * time.Second):
				tr.Emit("Hang", "what", "re-discovery did not finish within 30 s")
			}
			perEp := names()
			by := []string{}
			cand := map[string]bool{"m1": true, "m2": true, "m3": true}
			for _, n := range perEp {
				cand[n] = true
			}
			for n := range cand {
				eps, _ := reg.GetEndpointsForModel(context.Background(), n)
				for _, u := range eps {
					if u == e1.URL() {
						by = append(by, n)
					}
				}
			}
			sort.Strings(by)
			st, _ := reg.GetStats(context.Background())
			tr.Emit("Dump", "perEp", perEp, "byModel", by, "count", st.ModelsPerEndpoint[e1.URL()])
			probe()
		case "health":
			e1.HealthRaw.Store(verifPoisonHealth(sc.Cls))
			tr.Sync()
			done := make(chan struct{})
			go func() { stk.healthRound(); close(done) }()
			select {
			case <-done:
				tr.Emit("HealthDone", "cls", sc.Cls, "status", stk.statuses()["e1"])
			case <-time.After(30 * time.Second):
				tr.Emit("Hang", "what", "health round did not finish within 30 s")
			}
			e1.HealthRaw.Store([]byte{})
			probe()
		}
		tr.Sync()
		stk.Close()
	}
}
