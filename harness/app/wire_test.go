//go:build verif

package app

import (
	"bufio"
	"bytes"
	"encoding/json"
	"fmt"
	"strings"
	"testing"
	"time"

	"github.com/thushan/olla/internal/zzverif"
)

type verifWireScn struct {
	Engine string `json:"engine"`
	Cut    string `json:"cut"`   // whole | event | payload_nl | line | n7 | byte
	Fin    string `json:"fin"`   // stop | length | tool_calls
	Shape  string `json:"shape"` // text | text_tool | tool
}

const (
	verifWireText = "Hello from the backend, with ümläuts and \"quotes\"."
	verifWireArgs = `{"city":"Köln","days":3}`
)

// verifWireStream renders the backend's OpenAI chunk stream: lines (without line ends) of one event each.
func verifWireStream(sc verifWireScn) []string {
	chunk := func(delta string, fin string, usage string) string {
		f := "null"
		if fin != "" {
			f = `"` + fin + `"`
		}
		u := ""
		if usage != "" {
			u = `,"usage":` + usage
		}
		return `data: {"id":"c1","object":"chat.completion.chunk","model":"m1","choices":[{"index":0,"delta":` + delta + `,"finish_reason":` + f + `}]` + u + `}`
	}
	q := func(s string) string { b, _ := json.Marshal(s); return string(b) }
	var ev []string
	ev = append(ev, chunk(`{"role":"assistant","content":""}`, "", ""))
	if sc.Shape != "tool" {
		half := len(verifWireText) / 2
		ev = append(ev, chunk(`{"content":`+q(verifWireText[:half])+`}`, "", ""))
		ev = append(ev, chunk(`{"content":`+q(verifWireText[half:])+`}`, "", ""))
	}
	if sc.Shape != "text" {
		ev = append(ev, chunk(`{"tool_calls":[{"index":0,"id":"call_w1","type":"function","function":{"name":"get_weather","arguments":""}}]}`, "", ""))
		ev = append(ev, chunk(`{"tool_calls":[{"index":0,"function":{"arguments":`+q(verifWireArgs[:9])+`}}]}`, "", ""))
		ev = append(ev, chunk(`{"tool_calls":[{"index":0,"function":{"arguments":`+q(verifWireArgs[9:])+`}}]}`, "", ""))
	}
	ev = append(ev, chunk(`{}`, sc.Fin, `{"prompt_tokens":21,"completion_tokens":13,"total_tokens":34}`))
	ev = append(ev, "data: [DONE]")
	return ev
}

// verifWirePieces cuts the stream into the backend's writes.
func verifWirePieces(sc verifWireScn, events []string) [][]byte {
	var whole bytes.Buffer
	var pieces [][]byte
	for _, e := range events {
		whole.WriteString(e + "\n\n")
	}
	all := whole.Bytes()
	switch sc.Cut {
	case "whole":
		return [][]byte{all}
	case "event":
		for _, e := range events {
			pieces = append(pieces, []byte(e+"\n\n"))
		}
	case "payload_nl": // the payload, then its terminating blank line on its own
		for _, e := range events {
			pieces = append(pieces, []byte(e), []byte("\n\n"))
		}
	case "line": // payload + first newline, then the second newline
		for _, e := range events {
			pieces = append(pieces, []byte(e+"\n"), []byte("\n"))
		}
	case "n7":
		for p := 0; p < len(all); p += 7 {
			end := p + 7
			if end > len(all) {
				end = len(all)
			}
			pieces = append(pieces, all[p:end])
		}
	case "byte":
		for p := range all {
			pieces = append(pieces, all[p:p+1])
		}
	}
	return pieces
}

// TestVerif_Wire: a streamed completion through the assembled server on the Anthropic route; the backend's
// bytes are written in the scenario's pieces, a few milliseconds apart, so that they travel through the proxy
// as separate reads and writes. The client's event stream is summarised; TLC judges the summary.
func TestVerif_Wire(t *testing.T) {
	tr := zzverif.OpenTrace()
	defer tr.Close()
	scns := zzverif.LoadScenarios()
	zzverif.Parallel(len(scns), 8, func(sn int) {
		var sc verifWireScn
		if err := json.Unmarshal(scns[sn], &sc); err != nil {
			panic(err)
		}
		b := tr.Block()
		defer b.Flush()
		b.Emit("Reset", "scn", sn, "engine", sc.Engine, "cut", sc.Cut, "fin", sc.Fin, "shape", sc.Shape)
		stk, err := verifBoot(sc.Engine, "priority", "auto", []verifEndpointOpt{{Models: []string{"m1"}}}, nil)
		if err != nil {
			b.Emit("Wire", "st", 0, "booted", false)
			return
		}
		defer stk.Close()
		pieces := verifWirePieces(sc, verifWireStream(sc))
		gap := 2 * time.Millisecond
		if len(pieces) > 200 {
			gap = 300 * time.Microsecond
		}
		stk.backends[0].OnAttempt = func(r *zzverif.Recv) zzverif.Plan {
			return zzverif.Plan{Kind: "ok", Status: 200, Chunked: true, CT: "text/event-stream", Chunks: pieces,
				Gate: func(i int) {
					if i > 0 {
						time.Sleep(gap)
					}
				}}
		}
		body := fmt.Sprintf(`{"model":"m1","max_tokens":64,"stream":true,"messages":[{"role":"user","content":"w%d"}],"tools":[{"name":"get_weather","description":"d","input_schema":{"type":"object"}}]}`, sn)
		res := zzverif.Do(stk.addr, &zzverif.Req{Method: "POST", Target: "/olla/anthropic/v1/messages",
			Headers: []string{"Content-Type: application/json", "anthropic-version: 2023-06-01", fmt.Sprintf("X-Verif-Req: w%d", sn)},
			Body:    []byte(body), Timeout: 30 * time.Second})
		// summarise the client's event stream
		first, last := "", ""
		starts, stops, deltas, blockStarts, blockStops, nested, orphan := 0, 0, 0, 0, 0, 0, 0
		open := -1
		var text, args strings.Builder
		toolID, toolName, stop := "", "", ""
		uout := -1
		sc2 := bufio.NewScanner(bytes.NewReader(res.Body))
		sc2.Buffer(make([]byte, 1<<20), 1<<20)
		for sc2.Scan() {
			line := sc2.Text()
			if !strings.HasPrefix(line, "data:") {
				continue
			}
			var ev map[string]any
			if json.Unmarshal([]byte(strings.TrimSpace(strings.TrimPrefix(line, "data:"))), &ev) != nil {
				continue
			}
			typ, _ := ev["type"].(string)
			if typ == "ping" {
				continue
			}
			if first == "" {
				first = typ
			}
			last = typ
			switch typ {
			case "message_start":
				starts++
			case "message_stop":
				stops++
			case "message_delta":
				deltas++
				if d, ok := ev["delta"].(map[string]any); ok {
					stop, _ = d["stop_reason"].(string)
				}
				if u, ok := ev["usage"].(map[string]any); ok {
					if v, ok := u["output_tokens"].(float64); ok {
						uout = int(v)
					}
				}
			case "content_block_start":
				blockStarts++
				if open >= 0 {
					nested++
				}
				open = int(ev["index"].(float64))
				if cb, ok := ev["content_block"].(map[string]any); ok && cb["type"] == "tool_use" {
					toolID, _ = cb["id"].(string)
					toolName, _ = cb["name"].(string)
				}
			case "content_block_stop":
				blockStops++
				if idx, ok := ev["index"].(float64); !ok || int(idx) != open {
					orphan++
				}
				open = -1
			case "content_block_delta":
				if idx, ok := ev["index"].(float64); !ok || int(idx) != open {
					orphan++
				}
				if d, ok := ev["delta"].(map[string]any); ok {
					if s, ok := d["text"].(string); ok {
						text.WriteString(s)
					}
					if s, ok := d["partial_json"].(string); ok {
						args.WriteString(s)
					}
				}
			}
		}
		hasTool := sc.Shape != "text"
		wantText := verifWireText
		if sc.Shape == "tool" {
			wantText = ""
		}
		var gotArgs, wantArgs any
		argsOK := json.Unmarshal([]byte(args.String()), &gotArgs) == nil && json.Unmarshal([]byte(verifWireArgs), &wantArgs) == nil &&
			fmt.Sprint(gotArgs) == fmt.Sprint(wantArgs)
		b.Emit("Wire", "st", res.Status, "complete", res.Complete, "first", first, "last", last, "starts", starts, "stops", stops,
			"deltas", deltas, "blockStarts", blockStarts, "blockStops", blockStops, "nested", nested, "orphan", orphan,
			"textOK", text.String() == wantText, "hasTool", hasTool, "toolOK", toolID == "call_w1" && toolName == "get_weather" && argsOK,
			"stop", stop, "fin", sc.Fin, "uout", uout, "expUout", 13, "pieces", len(pieces), "bytes", len(res.Body))
	})
}
