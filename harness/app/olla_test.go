//go:build verif

package app

import (
	"context"
	"encoding/json"
	"fmt"
	"sort"
	"sync"
	"sync/atomic"
	"testing"
	"time"

	"github.com/thushan/olla/internal/zzverif"
)

// one step of a system-level scenario (spec/Olla.tla)
type verifOllaStep struct {
	Op    string              `json:"op"` // boot | up | relist | health | req
	Kind  map[string]string   `json:"kind"`
	Lists map[string][]string `json:"lists"`
	LB    string              `json:"lb"`
	Eng   string              `json:"engine"`
	Prio  map[string]int      `json:"prio"`
	E     string              `json:"e"`
	B     string              `json:"b"` // up | sick | down
	S     []string            `json:"S"`
	Route string              `json:"route"`
	Model string              `json:"model"`
}

// knownModels reads olla's catalogue per endpoint, waiting until it has stopped changing (re-discovery after a
// recovery and the catalogue update are asynchronous).
func (s *verifStack) verifOllaKnown() map[string][]string {
	read := func() map[string][]string {
		out := map[string][]string{}
		d, err := s.mgr.GetRegistry().GetDiscovery()
		if err != nil {
			return out
		}
		reg, err := d.GetRegistry()
		if err != nil {
			return out
		}
		for _, be := range s.backends {
			names := []string{}
			ms, _ := reg.GetModelsForEndpoint(context.Background(), be.URL())
			for _, m := range ms {
				names = append(names, m.Name)
			}
			sort.Strings(names)
			out[be.Name] = names
		}
		return out
	}
	last, _ := json.Marshal(read())
	stable := time.Now()
	deadline := time.Now().Add(3 * time.Second)
	for time.Now().Before(deadline) && time.Since(stable) < 120*time.Millisecond {
		time.Sleep(10 * time.Millisecond)
		cur, _ := json.Marshal(read())
		if string(cur) != string(last) {
			last, stable = cur, time.Now()
		}
	}
	return read()
}

// TestVerif_Olla replays system-level walks (health rounds, backends going away and coming back, changing
// listings, requests on the proxy and provider routes) through the assembled server.
func TestVerif_Olla(t *testing.T) {
	tr := zzverif.OpenTrace()
	defer tr.Close()
	scns := zzverif.LoadScenarios()
	zzverif.Parallel(len(scns), 10, func(sn int) {
		var steps []verifOllaStep
		if err := json.Unmarshal(scns[sn], &steps); err != nil {
			panic(err)
		}
		b := tr.Block()
		defer b.Flush()
		var mu sync.Mutex
		emit := func(name string, kv ...any) {
			mu.Lock()
			defer mu.Unlock()
			b.Emit(name, kv...)
		}
		boot := steps[0]
		names := make([]string, 0, len(boot.Kind))
		for n := range boot.Kind {
			names = append(names, n)
		}
		sort.Strings(names)
		opts := make([]verifEndpointOpt, len(names))
		for i, n := range names {
			opts[i] = verifEndpointOpt{Type: boot.Kind[n], Priority: 100 * boot.Prio[n], Models: append([]string{}, boot.Lists[n]...)}
		}
		stk, err := verifBoot(boot.Eng, boot.LB, "auto", opts, nil)
		if err != nil {
			emit("Boot", "scn", sn, "booted", false, "kind", boot.Kind, "engine", boot.Eng, "lb", boot.LB, "prio", boot.Prio, "lists", boot.Lists, "known", map[string][]string{}, "status", map[string]string{})
			return
		}
		defer stk.Close()
		var curAnth atomic.Bool // the request in flight is on the Anthropic route: answer with a completion
		byName := map[string]*zzverif.Backend{}
		for _, be := range stk.backends {
			be := be
			byName[be.Name] = be
			be.OnAttempt = func(r *zzverif.Recv) zzverif.Plan {
				emit("BackendRecv", "e", be.Name, "target", r.Target)
				if r.Target == "/v1/messages" { // a backend with native Anthropic support is spoken to in its own dialect
					return zzverif.Plan{Kind: "ok", Status: 200, Body: verifHdrAnthropicAnswer}
				}
				if curAnth.Load() {
					return zzverif.Plan{Kind: "ok", Status: 200, Body: verifOpenAICompletion}
				}
				return zzverif.Plan{Kind: "ok", Status: 200, N: 2}
			}
		}
		emit("Boot", "scn", sn, "booted", true, "kind", boot.Kind, "engine", boot.Eng, "lb", boot.LB, "prio", boot.Prio, "lists", boot.Lists, "known", stk.verifOllaKnown(), "status", stk.statuses())
		reqNo := 0
		for _, st := range steps[1:] {
			switch st.Op {
			case "up":
				byName[st.E].SetDown(st.B == "down")
				if st.B == "sick" {
					byName[st.E].HealthStatus.Store(503)
				} else {
					byName[st.E].HealthStatus.Store(200)
				}
				emit("Up", "e", st.E, "b", st.B)
			case "relist":
				byName[st.E].SetModelsOpenAI(append([]string{}, st.S...))
				emit("Relist", "e", st.E, "S", append([]string{}, st.S...))
			case "health":
				stk.healthRound()
				known := stk.verifOllaKnown()
				emit("Health", "status", stk.statuses(), "known", known)
			case "list":
				lr := zzverif.Do(stk.addr, &zzverif.Req{Method: "GET", Target: "/olla/" + st.Route + "/v1/models", Timeout: 10 * time.Second})
				ids := []string{}
				var parsed struct {
					Data []struct {
						ID string `json:"id"`
					} `json:"data"`
				}
				if json.Unmarshal(lr.Body, &parsed) == nil {
					for _, d := range parsed.Data {
						ids = append(ids, d.ID)
					}
				}
				sort.Strings(ids)
				emit("List", "route", st.Route, "ids", ids, "st", lr.Status)
			case "req":
				reqNo++
				prefix := "/olla/proxy"
				if st.Route != "proxy" {
					prefix = "/olla/" + st.Route
				}
				curAnth.Store(st.Route == "anthropic")
				emit("Req", "route", st.Route, "model", st.Model)
				body := fmt.Sprintf(`{"model":%q,"messages":[{"role":"user","content":"s%d-%d"}]}`, st.Model, sn, reqNo)
				target := prefix + "/v1/chat/completions"
				hdrs := []string{"Content-Type: application/json", fmt.Sprintf("X-Verif-Req: o%d-%d", sn, reqNo)}
				if st.Route == "anthropic" {
					body = fmt.Sprintf(`{"model":%q,"max_tokens":32,"messages":[{"role":"user","content":"s%d-%d"}]}`, st.Model, sn, reqNo)
					target = "/olla/anthropic/v1/messages"
					hdrs = append(hdrs, "anthropic-version: 2023-06-01")
				}
				res := zzverif.Do(stk.addr, &zzverif.Req{Method: "POST", Target: target, Headers: hdrs,
					Body: []byte(body), Timeout: 20 * time.Second})
				code := res.Status
				if res.NoResp {
					code = 0
				}
				time.Sleep(15 * time.Millisecond) // the repository write may trail the client's last byte
				emit("Done", "st", code, "xb", res.Header.Get("X-Backend"))
				st := verifStats(stk) // waits until the collector's numbers have settled
				emit("Repo", "status", stk.statuses(), "stats", st[1])
			}
		}
	})
}
