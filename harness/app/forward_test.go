//go:build verif

package app

import (
	"crypto/sha256"
	"encoding/hex"
	"encoding/json"
	"fmt"
	"math/rand"
	"net"
	"os"
	"regexp"
	"strings"
	"sync"
	"sync/atomic"
	"testing"
	"time"

	"github.com/thushan/olla/internal/zzverif"
)

type verifFwdScn struct {
	Body    string `json:"body"`
	LenMode string `json:"lenmode"`
	Route   string `json:"route"`
	Query   string `json:"query"`
	Method  string `json:"method"`
}

var verifNonceRe = regexp.MustCompile(`nonce-[a-z0-9]+`)

const verifMiB = 1 << 20

// verifFwdBody builds the client body of a class; pad makes the exact size.
func verifFwdBody(class, route, nonce string, rnd *rand.Rand) (body []byte, ct string) {
	ct = "application/json"
	mk := func(size int, withModel bool) []byte {
		head := `{"model":"m1","messages":[{"role":"user","content":"` + nonce + ` `
		if !withModel {
			head = `{"messages":[{"role":"user","content":"` + nonce + ` `
		}
		if route == "anthropic" {
			head = `{"model":"m1","max_tokens":64,"messages":[{"role":"user","content":"` + nonce + ` `
		}
		tail := `"}]}`
		n := size - len(head) - len(tail)
		if n < 0 {
			n = 0
		}
		pad := make([]byte, n)
		const letters = "abcdefghijklmnopqrstuvwxyz0123456789 "
		for i := range pad {
			pad[i] = letters[rnd.Intn(len(letters))]
		}
		return []byte(head + string(pad) + tail)
	}
	switch class {
	case "empty":
		return nil, "application/json"
	case "json_small":
		return mk(200+rnd.Intn(3000), true), ct
	case "json_nomodel":
		return mk(300+rnd.Intn(500), false), ct
	case "nonjson":
		b := make([]byte, 500+rnd.Intn(4000))
		rnd.Read(b)
		return append([]byte(nonce+"\n"), b...), "application/octet-stream"
	case "json_1m_minus":
		return mk(verifMiB-1, true), ct
	case "json_1m":
		return mk(verifMiB, true), ct
	case "json_1m_plus":
		return mk(verifMiB+1, true), ct
	case "json_3m":
		return mk(3*verifMiB, true), ct
	case "json_9m":
		return mk(9*verifMiB+7, true), ct
	}
	return mk(100, true), ct
}

// verifFwdAbortedUpload announces a 6000-byte JSON body, sends about a third of it and closes the connection.
func verifFwdAbortedUpload(addr, id string) {
	c, err := net.DialTimeout("tcp", addr, 2*time.Second)
	if err != nil {
		return
	}
	defer c.Close()
	part := `{"model":"m1","messages":[{"role":"user","content":"` + id + " " + strings.Repeat("abandoned ", 200)
	fmt.Fprintf(c, "POST /olla/proxy/v1/chat/completions HTTP/1.1\r\nHost: %s\r\nContent-Type: application/json\r\nContent-Length: 6000\r\nX-Verif-Req: %s\r\n\r\n%s", addr, id, part)
	time.Sleep(5 * time.Millisecond)
}

// TestVerif_Forward: TLC-enumerated request shapes, first one by one, then all at once, through both engines.
func TestVerif_Forward(t *testing.T) {
	tr := zzverif.OpenTrace()
	defer tr.Close()
	raw := zzverif.LoadScenarios()
	scns := make([]verifFwdScn, len(raw))
	for i := range raw {
		if err := json.Unmarshal(raw[i], &scns[i]); err != nil {
			t.Fatal(err)
		}
	}
	rnd := rand.New(rand.NewSource(zzverif.Seed()))
	var rndMu sync.Mutex
	var phase1 atomic.Bool
	type variant struct{ engine, eptype string }
	// the fourth and fifth stack have backends with native Anthropic support: the Anthropic route is served in
	// passthrough mode there (route "anthropic_pt": same conversation and model, the client's query kept)
	for _, vr := range []variant{{"sherpa", ""}, {"olla", ""}, {"sherpa", "vllm"}, {"olla", "vllm"}} {
		engine := vr.engine
		opts := []verifEndpointOpt{{Models: []string{"m1"}, Type: vr.eptype}, {Models: []string{"m1"}, Type: vr.eptype}}
		stk, err := verifBoot(engine, "round-robin", "auto", opts, nil)
		if err != nil {
			t.Fatalf("boot: %v", err)
		}
		tr.Emit("Reset", "engine", engine)
		for _, be := range stk.backends {
			be := be
			be.OnAttempt = func(r *zzverif.Recv) zzverif.Plan {
				model := ""
				var v map[string]any
				if json.Unmarshal(r.Body, &v) == nil {
					model, _ = v["model"].(string)
				}
				tr.Emit("Upstream", "r", r.ReqID, "e", be.Name, "method", r.Method, "target", r.Target, "sha", r.BodySHA[:16],
					"len", len(r.Body), "nonce", verifNonceRe.FindString(string(r.Body)), "model", model)
				// every third request meets a connection reset on its first attempt: the failover attempt must
				// carry the same request
				// ... and so does every request with a body of a MiB or more (whatever is buffered for the replay
				// must be all of it)
				if phase1.Load() && r.Attempt == 1 && (strings.HasSuffix(r.ReqID, "3") || len(r.Body) >= verifMiB-1) {
					return zzverif.Plan{Kind: "reset_pre"}
				}
				if strings.Contains(r.Target, "chat/completions") && strings.Contains(string(r.Body), `"max_tokens"`) {
					return zzverif.Plan{Kind: "ok", Status: 200, Body: verifOpenAICompletion}
				}
				return zzverif.Plan{Kind: "ok", Status: 200, N: 1}
			}
		}
		var seq atomic.Int64
		phase1.Store(true)
		one := func(sc verifFwdScn) {
			if vr.eptype != "" && sc.Route != "anthropic" {
				return
			}
			id := fmt.Sprintf("%s%s-%d", engine, vr.eptype, seq.Add(1))
			nonce := "nonce-" + strings.ReplaceAll(id, "-", "")
			rndMu.Lock()
			body, ct := verifFwdBody(sc.Body, sc.Route, nonce, rnd)
			rndMu.Unlock()
			if sc.Route == "anthropic" && (sc.Body == "empty" || sc.Body == "nonjson" || sc.Body == "json_nomodel") {
				return // not an Anthropic request at all: validation (C12) territory
			}
			rest := "/v1/chat/completions"
			prefix := "/olla/proxy"
			hdrs := []string{"Content-Type: " + ct, "X-Verif-Req: " + id}
			switch sc.Route {
			case "provider":
				prefix = "/olla/openai"
			case "anthropic":
				prefix = "/olla/anthropic"
				rest = "/v1/messages"
				hdrs = append(hdrs, "anthropic-version: 2023-06-01")
			}
			target := prefix + rest
			if sc.Query != "" {
				target += "?" + sc.Query
			}
			sum := sha256.Sum256(body)
			model := "m1"
			if sc.Body == "json_nomodel" || sc.Body == "nonjson" || sc.Body == "empty" {
				model = ""
			}
			upRest := rest
			routeName := sc.Route
			if sc.Route == "anthropic" {
				upRest = "/v1/chat/completions"
				if vr.eptype != "" {
					upRest, routeName = "/v1/messages", "anthropic_pt"
				}
			}
			tr.Emit("ClientSend", "r", id, "route", routeName, "method", sc.Method, "rest", upRest, "query", sc.Query,
				"sha", hex.EncodeToString(sum[:])[:16], "len", len(body), "lenmode", sc.LenMode, "nonce", verifNonceRe.FindString(string(body)), "model", model, "class", sc.Body)
			res := zzverif.Do(stk.addr, &zzverif.Req{Method: sc.Method, Target: target, Headers: hdrs, Body: body,
				Chunked: sc.LenMode == "chunked" && len(body) > 0, ChunkSz: 64 << 10, Timeout: 30 * time.Second})
			st := res.Status
			if res.NoResp {
				st = 0
			}
			tr.Emit("ClientDone", "r", id, "st", st)
			if phase1.Load() && (strings.HasSuffix(id, "3") || len(body) >= verifMiB-1) {
				stk.healthRound() // the reset marked that endpoint offline; readmit it
			}
		}
		// phase 1: one at a time
		for _, sc := range scns {
			one(sc)
		}
		phase1.Store(false)
		// phase 2: waves of concurrent requests (distinct bodies), big ones left out to keep waves dense
		small := []verifFwdScn{}
		for _, sc := range scns {
			if sc.Body != "json_9m" && sc.Body != "json_3m" && sc.Body != "json_1m_plus" && sc.Body != "json_1m" && sc.Body != "json_1m_minus" {
				small = append(small, sc)
			}
		}
		waves := 6
		if v := os.Getenv("VERIF_WAVES"); v != "" {
			fmt.Sscanf(v, "%d", &waves)
		}
		if len(small) > 0 {
			for w := 0; w < waves; w++ {
				// two clients give up in the middle of their upload (whatever buffer the inspection of THEIR body used
				// must not turn up in somebody else's request)
				for k := 0; k < 2; k++ {
					verifFwdAbortedUpload(stk.addr, fmt.Sprintf("%s-abort-%d-%d", engine, w, k))
				}
				var wg sync.WaitGroup
				for i := 0; i < 48; i++ {
					sc := small[(w*48+i)%len(small)]
					wg.Add(1)
					go func() {
						defer wg.Done()
						one(sc)
					}()
				}
				wg.Wait()
			}
		}
		stk.Close()
	}
}
