//go:build verif

package app

import (
	"crypto/sha256"
	"encoding/hex"
	"encoding/json"
	"fmt"
	"os"
	"path/filepath"
	"sort"
	"strings"
	"sync"
	"testing"
	"time"

	"github.com/thushan/olla/internal/config"
	"github.com/thushan/olla/internal/zzverif"
)

type verifPassScn struct {
	PT     bool              `json:"pt"`
	Stream bool              `json:"stream"`
	Types  map[string]string `json:"types"`
	H      []string          `json:"H"`
	Plans  map[string]string `json:"plans"`
}

const verifAnthropicMessage = `{"id":"msg_1","type":"message","role":"assistant","model":"m1","content":[{"type":"text","text":"hello from a native backend"}],"stop_reason":"end_turn","stop_sequence":null,"usage":{"input_tokens":3,"output_tokens":5}}`
const verifAnthropicStream = "event: message_start\ndata: {\"type\":\"message_start\",\"message\":{\"id\":\"msg_1\",\"type\":\"message\",\"role\":\"assistant\",\"model\":\"m1\",\"content\":[],\"stop_reason\":null,\"usage\":{\"input_tokens\":3,\"output_tokens\":0}}}\n\n" +
	"event: content_block_start\ndata: {\"type\":\"content_block_start\",\"index\":0,\"content_block\":{\"type\":\"text\",\"text\":\"\"}}\n\n" +
	"event: content_block_delta\ndata: {\"type\":\"content_block_delta\",\"index\":0,\"delta\":{\"type\":\"text_delta\",\"text\":\"hi\"}}\n\n" +
	"event: content_block_stop\ndata: {\"type\":\"content_block_stop\",\"index\":0}\n\n" +
	"event: message_delta\ndata: {\"type\":\"message_delta\",\"delta\":{\"stop_reason\":\"end_turn\"},\"usage\":{\"output_tokens\":1}}\n\n" +
	"event: message_stop\ndata: {\"type\":\"message_stop\"}\n\n"

var (
	verifInspectOnce sync.Once
	verifInspectPath string
)

// verifInspectDir: a scratch directory for the request inspector's logs (older ones are swept)
func verifInspectDir() string {
	verifInspectOnce.Do(func() {
		if old, _ := filepath.Glob(filepath.Join(os.TempDir(), "verif-inspect-*")); old != nil {
			for _, o := range old {
				if st, err := os.Stat(o); err == nil && time.Since(st.ModTime()) > 10*time.Minute {
					_ = os.RemoveAll(o)
				}
			}
		}
		verifInspectPath, _ = os.MkdirTemp("", "verif-inspect-")
	})
	return verifInspectPath
}

func verifNativeTypes() []string {
	out := []string{}
	for _, p := range verifShippedProfiles() {
		if p.API.AnthropicSupport != nil && p.API.AnthropicSupport.Enabled {
			out = append(out, p.Name)
		}
	}
	sort.Strings(out)
	return out
}

// verifBodyKind classifies what a backend received relative to what the client sent.
func verifBodyKind(body []byte, clientSHA string) string {
	sum := sha256.Sum256(body)
	if hex.EncodeToString(sum[:]) == clientSHA {
		return "same"
	}
	var v map[string]any
	if json.Unmarshal(body, &v) == nil {
		if _, ok := v["messages"]; ok {
			_, hasSystem := v["system"]
			_, hasAnthVer := v["anthropic_version"]
			if !hasSystem && !hasAnthVer {
				return "openai"
			}
		}
	}
	return "other"
}

// TestVerif_Passthrough: Anthropic requests against mixes of native / non-native endpoint types.
func TestVerif_Passthrough(t *testing.T) {
	tr := zzverif.OpenTrace()
	defer tr.Close()
	scns := zzverif.LoadScenarios()
	zzverif.Parallel(len(scns), 12, func(sn int) {
		var sc verifPassScn
		if err := json.Unmarshal(scns[sn], &sc); err != nil {
			panic(err)
		}
		b := tr.Block()
		defer b.Flush()
		names := make([]string, 0, len(sc.Types))
		for n := range sc.Types {
			names = append(names, n)
		}
		sort.Strings(names)
		opts := make([]verifEndpointOpt, len(names))
		for i, n := range names {
			opts[i].Type = sc.Types[n]
			opts[i].Models = []string{"m1"}
		}
		stk, err := verifBoot("sherpa", "priority", "auto", opts, func(c *config.Config) {
			c.Translators.Anthropic.Enabled = true
			c.Translators.Anthropic.PassthroughEnabled = sc.PT
			// legal configuration corners: "use the default size limit" (0), and the request inspector switched on
			// (it logs requests; what is forwarded must not depend on it)
			if sn%2 == 0 {
				c.Translators.Anthropic.MaxMessageSize = 0
			}
			if sn%4 >= 2 {
				c.Translators.Anthropic.Inspector.Enabled = true
				c.Translators.Anthropic.Inspector.OutputDir = verifInspectDir()
				c.Translators.Anthropic.Inspector.SessionHeader = "X-Session-ID"
			}
		})
		if err != nil {
			b.Emit("Reset", "scn", sn, "booted", false, "err", err.Error(), "pt", sc.PT, "stream", sc.Stream, "native", []string{},
				"types", sc.Types, "H", []string{}, "plans", sc.Plans)
			return
		}
		defer stk.Close()
		var mu sync.Mutex
		emit := func(name string, kv ...any) {
			mu.Lock()
			defer mu.Unlock()
			b.Emit(name, kv...)
		}
		body := fmt.Sprintf(`{"model":"m1","max_tokens":32,"system":"be brief","stream":%v,"messages":[{"role":"user","content":"hello p%d"}]}`, sc.Stream, sn)
		// white space around the JSON text is part of the body (a file sent with curl --data-binary ends in a
		// newline): "byte-identical" includes it
		switch sn % 3 {
		case 1:
			body += "\n"
		case 2:
			body = " \r\n" + body + " \n\n"
		}
		sum := sha256.Sum256([]byte(body))
		clientSHA := hex.EncodeToString(sum[:])
		for _, be := range stk.backends {
			if !verifHas(sc.H, be.Name) {
				be.HealthStatus.Store(503)
			}
			be := be
			be.OnAttempt = func(r *zzverif.Recv) zzverif.Plan {
				path := r.Target
				if i := strings.IndexByte(path, '?'); i >= 0 {
					path = path[:i]
				}
				emit("BackendRecv", "e", be.Name, "path", path, "kind", verifBodyKind(r.Body, clientSHA))
				if sc.Plans[be.Name] == "reset_pre" {
					return zzverif.Plan{Kind: "reset_pre"}
				}
				native := path == "/v1/messages"
				switch {
				case native && sc.Stream:
					return zzverif.Plan{Kind: "ok", Status: 200, Chunked: true, CT: "text/event-stream", Body: verifAnthropicStream}
				case native:
					return zzverif.Plan{Kind: "ok", Status: 200, Body: verifAnthropicMessage}
				case sc.Stream:
					return zzverif.Plan{Kind: "ok", Status: 200, Chunked: true, CT: "text/event-stream", Body: verifOpenAIStream}
				default:
					return zzverif.Plan{Kind: "ok", Status: 200, Body: verifOpenAICompletion}
				}
			}
		}
		stk.healthRound()
		hObs := []string{}
		for n, s := range stk.statuses() {
			if s == "healthy" {
				hObs = append(hObs, n)
			}
		}
		sort.Strings(hObs)
		emit("Reset", "scn", sn, "booted", true, "pt", sc.PT, "stream", sc.Stream, "native", verifNativeTypes(), "types", sc.Types,
			"H", hObs, "plans", sc.Plans)
		for _, be := range stk.backends {
			if sc.Plans[be.Name] == "refuse" {
				be.SetDown(true)
			}
		}
		emit("ClientSend", "sha", clientSHA[:12])
		res := zzverif.Do(stk.addr, &zzverif.Req{Method: "POST", Target: "/olla/anthropic/v1/messages",
			Headers: []string{"Content-Type: application/json", "anthropic-version: 2023-06-01", fmt.Sprintf("X-Verif-Req: a%d", sn)},
			Body:    []byte(body), Timeout: 20 * time.Second})
		st := res.Status
		if res.NoResp {
			st = 0
		}
		emit("ClientDone", "st", st, "mode", res.Header.Get("X-Olla-Mode"))
	})
}
