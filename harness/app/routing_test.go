//go:build verif

package app

import (
	"context"
	"encoding/json"
	"fmt"
	"sort"
	"strings"
	"sync"
	"testing"
	"time"

	"github.com/thushan/olla/internal/config"
	"github.com/thushan/olla/internal/core/domain"
	"github.com/thushan/olla/internal/zzverif"
)

type verifRoutingScn struct {
	Strategy string   `json:"strategy"`
	Fallback string   `json:"fallback"`
	Refresh  bool     `json:"refresh"`
	H        []string `json:"H"`
	L        []string `json:"L"`
	Unifier  bool     `json:"unifier"`
	Route    string   `json:"route"`
	D        []string `json:"D"`
	Relist   string   `json:"relist"`
	Chunked  bool     `json:"chunked"`
	Spelling string   `json:"spelling"`
	CType    string   `json:"ctype"`
}

// verifRoutingAsk: the name the request uses for the model the endpoints in L list as `listed`.
func verifRoutingAsk(stk *verifStack, spelling, listed string) string {
	switch spelling {
	case "case":
		return strings.ToUpper(listed)
	case "tag":
		return listed + ":latest"
	case "uid", "alias":
		// what olla's own unified catalogue publishes for the model
		d, err := stk.mgr.GetRegistry().GetDiscovery()
		if err != nil {
			return listed
		}
		reg, err := d.GetRegistry()
		if err != nil {
			return listed
		}
		ur, ok := reg.(interface {
			GetUnifiedModels(ctx context.Context) ([]*domain.UnifiedModel, error)
		})
		if !ok {
			return listed
		}
		ums, _ := ur.GetUnifiedModels(context.Background())
		for _, um := range ums {
			mine := false
			for _, a := range um.Aliases {
				if a.Name == listed {
					mine = true
				}
			}
			if !mine {
				continue
			}
			if spelling == "uid" {
				return um.ID
			}
			for _, a := range um.Aliases {
				if a.Name != listed && a.Name != um.ID {
					return a.Name
				}
			}
			return um.ID
		}
	}
	return listed
}

func verifOr(s, dflt string) string {
	if s == "" {
		return dflt
	}
	return s
}

func verifHas(xs []string, x string) bool {
	for _, y := range xs {
		if y == x {
			return true
		}
	}
	return false
}

// TestVerif_Routing: one request per TLC-enumerated (strategy, fallback, refresh, H, L) row through the
// fully assembled server configured with that routing strategy.
func TestVerif_Routing(t *testing.T) {
	tr := zzverif.OpenTrace()
	defer tr.Close()
	scns := zzverif.LoadScenarios()
	zzverif.Parallel(len(scns), 12, func(sn int) {
		var sc verifRoutingScn
		if err := json.Unmarshal(scns[sn], &sc); err != nil {
			panic(err)
		}
		b := tr.Block()
		defer b.Flush()
		names := []string{"e1", "e2", "e3"}
		listed := "m1"
		catalogued := sc.Spelling == "uid" || sc.Spelling == "alias"
		if catalogued {
			// a name the unifier has something to say about: the ollama endpoints list it in mixed case, the
			// lm-studio ones in lower case -- one model in olla's catalogue, with a unified id and two aliases
			listed = "Qwen2.5-Coder:7B-Instruct-q4_K_M"
		}
		opts := make([]verifEndpointOpt, len(names))
		for i, n := range names {
			opts[i].Models = []string{"m2"}
			if verifHas(sc.L, n) || verifHas(sc.D, n) {
				opts[i].Models = []string{listed, "m2"}
				if catalogued {
					opts[i].Type = "ollama"
					if i%2 == 1 {
						opts[i].Type = "lm-studio"
						opts[i].Models = []string{strings.ToLower(listed[:len(listed)-6]) + listed[len(listed)-6:], "m2"}
					}
				}
			}
		}
		stk, err := verifBoot("sherpa", "round-robin", "auto", opts, func(c *config.Config) {
			c.ModelRegistry.EnableUnifier = sc.Unifier
			c.ModelRegistry.Unification.Enabled = sc.Unifier
			c.ModelRegistry.RoutingStrategy.Type = sc.Strategy
			c.ModelRegistry.RoutingStrategy.Options.FallbackBehavior = sc.Fallback
			c.ModelRegistry.RoutingStrategy.Options.DiscoveryRefreshOnMiss = sc.Refresh
			c.ModelRegistry.RoutingStrategy.Options.DiscoveryTimeout = time.Second
		})
		if err != nil {
			b.Emit("Reset", "scn", sn, "booted", false, "err", err.Error(), "strategy", sc.Strategy, "fallback", sc.Fallback,
				"refresh", sc.Refresh, "H", []string{}, "L", []string{}, "unifier", sc.Unifier, "route", sc.Route, "D", []string{}, "spelling", "exact")
			return
		}
		defer stk.Close()
		var mu sync.Mutex
		emit := func(name string, kv ...any) {
			mu.Lock()
			defer mu.Unlock()
			b.Emit(name, kv...)
		}
		// endpoints in D re-list with the model swapped for another one (same size): a listing is refreshed
		// when an endpoint recovers, so take them through unhealthy -> healthy
		if len(sc.D) > 0 {
			for _, be := range stk.backends {
				if verifHas(sc.D, be.Name) {
					if sc.Relist == "empty" {
						be.SetModelsOpenAI([]string{})
					} else {
						be.SetModelsOpenAI([]string{"m3", "m2"})
					}
					be.HealthStatus.Store(503)
				}
			}
			stk.healthRound()
			for _, be := range stk.backends {
				if verifHas(sc.D, be.Name) {
					be.HealthStatus.Store(200)
				}
			}
			var relisted sync.WaitGroup
			for _, be := range stk.backends {
				if verifHas(sc.D, be.Name) {
					be := be
					relisted.Add(1)
					var once sync.Once
					be.OnAux = func(kind string, r *zzverif.Recv) {
						if kind == "models" {
							once.Do(relisted.Done)
						}
					}
				}
			}
			stk.healthRound()
			done := make(chan struct{})
			go func() { relisted.Wait(); close(done) }()
			select {
			case <-done:
			case <-time.After(5 * time.Second):
			}
			time.Sleep(150 * time.Millisecond) // registration (and asynchronous unification) after the listing was fetched
		}
		// every endpoint was healthy at boot, so its listing is known; now make the ones outside H unhealthy
		for _, be := range stk.backends {
			if !verifHas(sc.H, be.Name) {
				be.HealthStatus.Store(503)
			}
			be := be
			be.OnAttempt = func(r *zzverif.Recv) zzverif.Plan {
				emit("BackendRecv", "e", be.Name, "target", r.Target)
				return zzverif.Plan{Kind: "ok", Status: 200, N: 2}
			}
		}
		stk.healthRound()
		st := stk.statuses()
		hObs := []string{}
		for n, s := range st {
			if s == "healthy" {
				hObs = append(hObs, n)
			}
		}
		sort.Strings(hObs)
		emit("Reset", "scn", sn, "booted", true, "strategy", sc.Strategy, "fallback", sc.Fallback, "refresh", sc.Refresh,
			"H", hObs, "L", sc.L, "unifier", sc.Unifier, "route", sc.Route, "D", sc.D, "chunked", sc.Chunked, "spelling", verifOr(sc.Spelling, "exact"))
		asked := verifRoutingAsk(stk, sc.Spelling, listed)
		target, hdrs, body := verifRequestFor(sc.Route, fmt.Sprintf("q%d", sn), asked)
		switch sc.CType {
		case "oddpath":
			// a path no profile declares (a newer API of the backend): the body still names its model
			target = strings.Replace(target, "/v1/chat/completions", "/v1/verif/newer-api", 1)
		case "bigjson":
			// a body beyond the 1 MiB the inspector looks at (a long conversation, an inlined image): still a request
			// that names its model, first thing
			body = strings.Replace(body, `"content":"hello `, `"content":"`+strings.Repeat("lorem ipsum ", 140000)+` hello `, 1)
		case "form", "none":
			kept := hdrs[:0:0]
			for _, h := range hdrs {
				if !strings.HasPrefix(strings.ToLower(h), "content-type:") {
					kept = append(kept, h)
				}
			}
			hdrs = kept
			if sc.CType == "form" {
				hdrs = append(hdrs, "Content-Type: application/x-www-form-urlencoded")
			}
		}
		emit("ClientSend", "route", sc.Route, "listed", listed, "asked", asked, "ctype", verifOr(sc.CType, "json"))
		res := zzverif.Do(stk.addr, &zzverif.Req{Method: "POST", Target: target, Headers: hdrs, Body: []byte(body), Chunked: sc.Chunked, ChunkSz: 13, Timeout: 20 * time.Second})
		stc := res.Status
		if res.NoResp {
			stc = 0
		}
		emit("ClientDone", "st", stc, "hs", res.Header.Get("X-Olla-Routing-Strategy"), "hd", res.Header.Get("X-Olla-Routing-Decision"),
			"hr", res.Header.Get("X-Olla-Routing-Reason"), "xb", res.Header.Get("X-Backend"))
	})
}
