//go:build verif

package app

import (
	"encoding/json"
	"fmt"
	"sort"
	"sync"
	"testing"
	"time"

	"github.com/thushan/olla/internal/config"
	"github.com/thushan/olla/internal/zzverif"
)

type verifRoutingScn struct {
	Strategy string   `json:"strategy"`
	Fallback string   `json:"fallback"`
	Refresh  bool     `json:"refresh"`
	H        []string `json:"H"`
	L        []string `json:"L"`
	Unifier  bool     `json:"unifier"`
	Route    string   `json:"route"`
	D        []string `json:"D"`
	Relist   string   `json:"relist"`
	Chunked  bool     `json:"chunked"`
}

func verifHas(xs []string, x string) bool {
	for _, y := range xs {
		if y == x {
			return true
		}
	}
	return false
}

// TestVerif_Routing: one request per TLC-enumerated (strategy, fallback, refresh, H, L) row through the
// fully assembled server configured with that routing strategy.
func TestVerif_Routing(t *testing.T) {
	tr := zzverif.OpenTrace()
	defer tr.Close()
	scns := zzverif.LoadScenarios()
	zzverif.Parallel(len(scns), 12, func(sn int) {
		var sc verifRoutingScn
		if err := json.Unmarshal(scns[sn], &sc); err != nil {
			panic(err)
		}
		b := tr.Block()
		defer b.Flush()
		names := []string{"e1", "e2", "e3"}
		opts := make([]verifEndpointOpt, len(names))
		for i, n := range names {
			opts[i].Models = []string{"m2"}
			if verifHas(sc.L, n) || verifHas(sc.D, n) {
				opts[i].Models = []string{"m1", "m2"}
			}
		}
		stk, err := verifBoot("sherpa", "round-robin", "auto", opts, func(c *config.Config) {
			c.ModelRegistry.EnableUnifier = sc.Unifier
			c.ModelRegistry.Unification.Enabled = sc.Unifier
			c.ModelRegistry.RoutingStrategy.Type = sc.Strategy
			c.ModelRegistry.RoutingStrategy.Options.FallbackBehavior = sc.Fallback
			c.ModelRegistry.RoutingStrategy.Options.DiscoveryRefreshOnMiss = sc.Refresh
			c.ModelRegistry.RoutingStrategy.Options.DiscoveryTimeout = time.Second
		})
		if err != nil {
			b.Emit("Reset", "scn", sn, "booted", false, "err", err.Error(), "strategy", sc.Strategy, "fallback", sc.Fallback,
				"refresh", sc.Refresh, "H", []string{}, "L", []string{})
			return
		}
		defer stk.Close()
		var mu sync.Mutex
		emit := func(name string, kv ...any) {
			mu.Lock()
			defer mu.Unlock()
			b.Emit(name, kv...)
		}
		// endpoints in D re-list with the model swapped for another one (same size): a listing is refreshed
		// when an endpoint recovers, so take them through unhealthy -> healthy
		if len(sc.D) > 0 {
			for _, be := range stk.backends {
				if verifHas(sc.D, be.Name) {
					if sc.Relist == "empty" {
						be.SetModelsOpenAI([]string{})
					} else {
						be.SetModelsOpenAI([]string{"m3", "m2"})
					}
					be.HealthStatus.Store(503)
				}
			}
			stk.healthRound()
			for _, be := range stk.backends {
				if verifHas(sc.D, be.Name) {
					be.HealthStatus.Store(200)
				}
			}
			var relisted sync.WaitGroup
			for _, be := range stk.backends {
				if verifHas(sc.D, be.Name) {
					be := be
					relisted.Add(1)
					var once sync.Once
					be.OnAux = func(kind string, r *zzverif.Recv) {
						if kind == "models" {
							once.Do(relisted.Done)
						}
					}
				}
			}
			stk.healthRound()
			done := make(chan struct{})
			go func() { relisted.Wait(); close(done) }()
			select {
			case <-done:
			case <-time.After(5 * time.Second):
			}
			time.Sleep(150 * time.Millisecond) // registration (and asynchronous unification) after the listing was fetched
		}
		// every endpoint was healthy at boot, so its listing is known; now make the ones outside H unhealthy
		for _, be := range stk.backends {
			if !verifHas(sc.H, be.Name) {
				be.HealthStatus.Store(503)
			}
			be := be
			be.OnAttempt = func(r *zzverif.Recv) zzverif.Plan {
				emit("BackendRecv", "e", be.Name, "target", r.Target)
				return zzverif.Plan{Kind: "ok", Status: 200, N: 2}
			}
		}
		stk.healthRound()
		st := stk.statuses()
		hObs := []string{}
		for n, s := range st {
			if s == "healthy" {
				hObs = append(hObs, n)
			}
		}
		sort.Strings(hObs)
		emit("Reset", "scn", sn, "booted", true, "strategy", sc.Strategy, "fallback", sc.Fallback, "refresh", sc.Refresh,
			"H", hObs, "L", sc.L, "unifier", sc.Unifier, "route", sc.Route, "D", sc.D, "chunked", sc.Chunked)
		target, hdrs, body := verifRequestFor(sc.Route, fmt.Sprintf("q%d", sn), "m1")
		emit("ClientSend", "route", sc.Route)
		res := zzverif.Do(stk.addr, &zzverif.Req{Method: "POST", Target: target, Headers: hdrs, Body: []byte(body), Chunked: sc.Chunked, ChunkSz: 13, Timeout: 20 * time.Second})
		stc := res.Status
		if res.NoResp {
			stc = 0
		}
		emit("ClientDone", "st", stc, "hs", res.Header.Get("X-Olla-Routing-Strategy"), "hd", res.Header.Get("X-Olla-Routing-Decision"),
			"hr", res.Header.Get("X-Olla-Routing-Reason"), "xb", res.Header.Get("X-Backend"))
	})
}
