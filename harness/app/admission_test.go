//go:build verif

package app

import (
	"bufio"
	"bytes"
	"encoding/json"
	"fmt"
	"io"
	"net"
	"net/http"
	"strings"
	"sync"
	"testing"
	"time"

	"github.com/thushan/olla/internal/config"
	"github.com/thushan/olla/internal/zzverif"
)

type verifAdmScn struct {
	Kind      string `json:"kind"`
	Rate      int    `json:"rate"`
	Burst     int    `json:"burst"`
	Behaviour string `json:"behaviour"`
	Size      string `json:"size"`
	LenMode   string `json:"lenmode"`
	Route     string `json:"route"`
	Global    int    `json:"global"`
}

// verifAdmBody: a valid chat request of exactly n bytes.
func verifAdmBody(route, id string, n int) []byte {
	head := `{"model":"m1","messages":[{"role":"user","content":"` + id + ` `
	if route == "anthropic" {
		head = `{"model":"m1","max_tokens":8,"messages":[{"role":"user","content":"` + id + ` `
	}
	tail := `"}]}`
	pad := n - len(head) - len(tail)
	if pad < 0 {
		pad = 0
	}
	return []byte(head + strings.Repeat("x", pad) + tail)
}

// verifKeepAliveConn sends requests one after another on one TCP connection.
type verifKeepAliveConn struct {
	c  net.Conn
	br *bufio.Reader
}

func verifDialKA(addr, localIP string) (*verifKeepAliveConn, error) {
	d := net.Dialer{Timeout: 3 * time.Second}
	if localIP != "" {
		d.LocalAddr = &net.TCPAddr{IP: net.ParseIP(localIP)}
	}
	c, err := d.Dial("tcp", addr)
	if err != nil {
		return nil, err
	}
	return &verifKeepAliveConn{c: c, br: bufio.NewReader(c)}, nil
}

func (k *verifKeepAliveConn) do(target, id string, body []byte) (int, error) {
	var b bytes.Buffer
	fmt.Fprintf(&b, "POST %s HTTP/1.1\r\nHost: olla\r\nContent-Type: application/json\r\nX-Verif-Req: %s\r\nContent-Length: %d\r\n\r\n", target, id, len(body))
	b.Write(body)
	k.c.SetDeadline(time.Now().Add(10 * time.Second))
	if _, err := k.c.Write(b.Bytes()); err != nil {
		return 0, err
	}
	resp, err := http.ReadResponse(k.br, &http.Request{Method: "POST"})
	if err != nil {
		return 0, err
	}
	io.Copy(io.Discard, resp.Body)
	resp.Body.Close()
	return resp.StatusCode, nil
}

// TestVerif_Admission: rate-limit and size-limit scenarios against the assembled server.
func TestVerif_Admission(t *testing.T) {
	tr := zzverif.OpenTrace()
	defer tr.Close()
	scns := zzverif.LoadScenarios()
	zzverif.Parallel(len(scns), 8, func(sn int) {
		var sc verifAdmScn
		if err := json.Unmarshal(scns[sn], &sc); err != nil {
			panic(err)
		}
		b := tr.Block()
		defer b.Flush()
		const maxBodyCfg, maxMsgCfg = 2048, 4096
		maxBody, maxMsg := 0, 10<<20
		if sc.Kind == "size" {
			if sc.Route == "anthropic" {
				maxBody, maxMsg = 1<<20, maxMsgCfg
			} else if sc.Route == "anthropic_eq" {
				// the server-wide body limit equals the Anthropic message limit (the hardening the documentation recommends)
				maxBody, maxMsg = maxMsgCfg, maxMsgCfg
				sc.Route = "anthropic"
			} else {
				maxBody = maxBodyCfg
			}
		}
		opts := []verifEndpointOpt{{Models: []string{"m1"}}}
		stk, err := verifBoot("sherpa", "priority", "auto", opts, func(c *config.Config) {
			c.Server.RateLimits.PerIPRequestsPerMinute = sc.Rate
			c.Server.RateLimits.BurstSize = sc.Burst
			c.Server.RateLimits.GlobalRequestsPerMinute = sc.Global
			c.Server.RateLimits.HealthRequestsPerMinute = 0
			if sc.Behaviour == "drainwait" {
				// the limiter's housekeeping runs many times during the scenario: a bucket it forgets too early
				// comes back full
				c.Server.RateLimits.CleanupInterval = 150 * time.Millisecond
			}
			c.Server.RequestLimits.MaxBodySize = int64(maxBody)
			c.Translators.Anthropic.MaxMessageSize = int64(maxMsg)
			c.Translators.Anthropic.PassthroughEnabled = false
		})
		if err != nil {
			b.Emit("Reset", "scn", sn, "booted", false, "rate", 0, "burst", 0, "maxBody", 0, "maxMsg", 0)
			return
		}
		defer stk.Close()
		var mu sync.Mutex
		upLen := map[string]int{}
		stk.backends[0].OnAttempt = func(r *zzverif.Recv) zzverif.Plan {
			mu.Lock()
			upLen[r.ReqID] = len(r.Body) + 1 // +1: distinguishes "reached with empty body" from "not reached"
			mu.Unlock()
			if strings.Contains(string(r.Body), `"max_tokens"`) || strings.Contains(r.Target, "chat/completions") && strings.Contains(r.Header.Get("X-Verif-Req"), "anth") {
				return zzverif.Plan{Kind: "ok", Status: 200, Body: verifOpenAICompletion}
			}
			return zzverif.Plan{Kind: "ok", Status: 200, N: 1}
		}
		// with no per-IP limit the global limit is the one every client is held to
		effRate := sc.Rate
		if effRate == 0 {
			effRate = sc.Global
		}
		b.Emit("Reset", "scn", sn, "booted", true, "rate", effRate, "burst", sc.Burst, "maxBody", maxBody, "maxMsg", maxMsg, "kind", sc.Kind,
			"behaviour", sc.Behaviour)
		t0 := time.Now()
		ms := func() int64 { return time.Since(t0).Milliseconds() }
		var emu sync.Mutex
		// stamps: X-Backend of answers the clients received (written by the scripted backend itself)
		var stampMu sync.Mutex
		stamps := map[string]string{}
		stamp := func(id string, res *zzverif.Resp) {
			if res != nil && res.Header != nil {
				stampMu.Lock()
				stamps[id] = res.Header.Get("X-Backend")
				stampMu.Unlock()
			}
		}
		record := func(id, ip string, send, recv int64, st, size int, lenmode, route string) {
			mu.Lock()
			ul := upLen[id]
			mu.Unlock()
			emu.Lock()
			defer emu.Unlock()
			adm := ul > 0
			if adm {
				ul--
			}
			stampMu.Lock()
			xb := stamps[id]
			stampMu.Unlock()
			if !adm && st == 200 && xb != "" {
				// the answer carries the scripted backend's own stamp: it did reach the backend, only this
				// harness's note of it is missing (seen twice in ~120 runs under heavy parallel load) -- counted as admitted
				adm = true
			}
			b.Emit("Req", "r", id, "ip", ip, "send", send, "recv", recv, "st", st, "adm", adm, "size", size, "lenmode", lenmode,
				"route", route, "upLen", ul)
		}
		if sc.Kind == "size" {
			limit := maxBody
			if sc.Route == "anthropic" {
				limit = maxMsg
			}
			n := map[string]int{"max-1": limit - 1, "max": limit, "max+1": limit + 1, "5max": 5 * limit}[sc.Size]
			id := fmt.Sprintf("s%d", sn)
			if sc.Route == "anthropic" {
				id = fmt.Sprintf("anth%d", sn)
			}
			method, route := "POST", sc.Route
			if route == "provider_get" { // a body on a method that usually has none
				method, route = "GET", "provider"
			}
			target, hdrs, _ := verifRequestFor(route, id, "m1")
			body := verifAdmBody(route, id, n)
			send := ms()
			res := zzverif.Do(stk.addr, &zzverif.Req{Method: method, Target: target, Headers: hdrs, Body: body,
				Chunked: sc.LenMode == "chunked", ChunkSz: 512, Timeout: 15 * time.Second})
			st := res.Status
			if res.NoResp {
				st = 0
			}
			time.Sleep(30 * time.Millisecond)
			record(id, "127.0.0.1", send, ms(), st, len(body), sc.LenMode, sc.Route)
			b.Emit("End")
			return
		}
		// rate scenarios: send as fast as the behaviour allows for ~1.2 s (at most 40 requests per sender)
		target := "/olla/proxy/v1/chat/completions"
		deadline := t0.Add(1200 * time.Millisecond)
		var seq int
		var sm sync.Mutex
		nextID := func() string {
			sm.Lock()
			defer sm.Unlock()
			seq++
			return fmt.Sprintf("q%d-%d", sn, seq)
		}
		oneShot := func(ip string) {
			id := nextID()
			body := verifAdmBody("proxy", id, 120)
			send := ms()
			res := zzverif.Do(stk.addr, &zzverif.Req{Method: "POST", Target: target, LocalIP: ip,
				Headers: []string{"Content-Type: application/json", "X-Verif-Req: " + id}, Body: body, Timeout: 10 * time.Second})
			recv := ms()
			st := res.Status
			if res.NoResp {
				st = 0
			}
			stamp(id, res)
			record(id, ip, send, recv, st, len(body), "cl", "proxy")
		}
		ka := func(ip string, max int) {
			k, err := verifDialKA(stk.addr, ip)
			if err != nil {
				return
			}
			defer k.c.Close()
			for i := 0; i < max && time.Now().Before(deadline); i++ {
				id := nextID()
				body := verifAdmBody("proxy", id, 120)
				send := ms()
				st, err := k.do(target, id, body)
				recv := ms()
				if err != nil {
					record(id, ip, send, recv, 0, len(body), "cl", "proxy")
					return
				}
				record(id, ip, send, recv, st, len(body), "cl", "proxy")
			}
		}
		// the same client on three different doors to the same backends: the proxy route, a provider route, the
		// translated Anthropic route
		mixShot := func(ip string, i int) {
			route := []string{"proxy", "provider", "anthropic"}[i%3]
			id := nextID()
			if route == "anthropic" {
				id += "anth"
			}
			tgt, hdrs, _ := verifRequestFor(route, id, "m1")
			body := verifAdmBody(route, id, 120)
			send := ms()
			res := zzverif.Do(stk.addr, &zzverif.Req{Method: "POST", Target: tgt, LocalIP: ip, Headers: hdrs, Body: body, Timeout: 10 * time.Second})
			recv := ms()
			st := res.Status
			if res.NoResp {
				st = 0
			}
			stamp(id, res)
			record(id, ip, send, recv, st, len(body), "cl", "mix")
		}
		switch sc.Behaviour {
		case "mixhealth":
			// health-endpoint requests between the proxied ones: they neither use up nor hand out proxy tokens
			for i := 0; i < 40 && time.Now().Before(deadline); i++ {
				if i%2 == 1 {
					zzverif.Do(stk.addr, &zzverif.Req{Method: "GET", Target: "/internal/health", Timeout: 5 * time.Second})
					continue
				}
				oneShot("127.0.0.1")
			}
		case "drainwait":
			// use up the burst, stay silent across several housekeeping sweeps, come back
			for round := 0; round < 2; round++ {
				for i := 0; i < 2*(sc.Burst+1); i++ {
					oneShot("127.0.0.1")
				}
				if round == 0 {
					time.Sleep(700 * time.Millisecond)
				}
			}
		case "mixpaths":
			for i := 0; i < 45 && time.Now().Before(deadline); i++ {
				mixShot("127.0.0.1", i)
			}
		case "keepalive1":
			ka("127.0.0.1", 40)
		case "newconn":
			for i := 0; i < 40 && time.Now().Before(deadline); i++ {
				oneShot("127.0.0.1")
			}
		case "conns4":
			var wg sync.WaitGroup
			for g := 0; g < 4; g++ {
				wg.Add(1)
				go func() { defer wg.Done(); ka("127.0.0.1", 12) }()
			}
			wg.Wait()
		case "burst":
			var wg sync.WaitGroup
			for g := 0; g < 2*(sc.Burst+2); g++ {
				wg.Add(1)
				go func() { defer wg.Done(); oneShot("127.0.0.1") }()
			}
			wg.Wait()
		case "twoips":
			for i := 0; i < 40 && time.Now().Before(deadline); i++ {
				oneShot([]string{"127.0.0.1", "127.0.0.2"}[i%2])
			}
		}
		time.Sleep(20 * time.Millisecond)
		b.Emit("End")
	})
}
