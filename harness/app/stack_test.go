//go:build verif

package app

import (
	"context"
	"fmt"
	"io"
	"log/slog"
	"net"
	"os"
	"path/filepath"
	"strings"
	"sync"
	"testing"
	"time"

	"github.com/thushan/olla/internal/app/services"
	"github.com/thushan/olla/internal/config"
	"github.com/thushan/olla/internal/core/domain"
	"github.com/thushan/olla/internal/core/ports"
	"github.com/thushan/olla/internal/logger"
	"github.com/thushan/olla/internal/zzverif"
)

var verifChdirOnce sync.Once

// verifChdirRoot makes ./config/profiles (the shipped YAML) resolvable: tests run in the package dir.
func verifChdirRoot() {
	verifChdirOnce.Do(func() {
		wd, _ := os.Getwd()
		for d := wd; d != "/"; d = filepath.Dir(d) {
			if _, err := os.Stat(filepath.Join(d, "go.mod")); err == nil {
				_ = os.Chdir(d)
				if os.Getenv("VERIF_CUSTOM_PROFILES") == "1" {
					verifCustomProfiles(d)
				}
				return
			}
		}
	})
}

// verifCustomProfiles: a deployment may add profiles of its own next to the shipped ones. Work from a scratch
// directory whose config/profiles holds the shipped YAML plus two derived from vllm.yaml:
//
//	verifoff  a backend kind whose profile has an anthropic_support block that is switched OFF
//	verifnoc  a backend kind that does NOT declare OpenAI compatibility
//
// Everything that depends on the profiles (native support, allowed types of a prefix) is read from the same
// directory by the harness, so the expectations follow.
func verifCustomProfiles(root string) {
	// scratch directories of earlier runs are swept here (this process cannot remove its own: it lives in it)
	if old, _ := filepath.Glob(filepath.Join(os.TempDir(), "verif-profiles-*")); old != nil {
		for _, o := range old {
			if st, err := os.Stat(o); err == nil && time.Since(st.ModTime()) > 10*time.Minute {
				_ = os.RemoveAll(o)
			}
		}
	}
	dir, err := os.MkdirTemp("", "verif-profiles-")
	if err != nil {
		panic(err)
	}
	dst := filepath.Join(dir, "config", "profiles")
	if err := os.MkdirAll(dst, 0o755); err != nil {
		panic(err)
	}
	files, _ := filepath.Glob(filepath.Join(root, "config", "profiles", "*.yaml"))
	for _, f := range files {
		b, err := os.ReadFile(f)
		if err != nil {
			panic(err)
		}
		if err := os.WriteFile(filepath.Join(dst, filepath.Base(f)), b, 0o644); err != nil {
			panic(err)
		}
	}
	base, err := os.ReadFile(filepath.Join(root, "config", "profiles", "vllm.yaml"))
	if err != nil {
		panic(err)
	}
	derive := func(name string, edits ...string) {
		y := string(base)
		y = strings.Replace(y, "name: vllm\n", "name: "+name+"\n", 1)
		y = strings.Replace(y, "    - vllm\n", "    - "+name+"\n", 1)
		for i := 0; i+1 < len(edits); i += 2 {
			if !strings.Contains(y, edits[i]) {
				panic("custom profile: vllm.yaml no longer contains " + edits[i])
			}
			y = strings.Replace(y, edits[i], edits[i+1], 1)
		}
		if err := os.WriteFile(filepath.Join(dst, name+".yaml"), []byte(y), 0o644); err != nil {
			panic(err)
		}
	}
	derive("verifoff", "  anthropic_support:\n    enabled: true", "  anthropic_support:\n    enabled: false")
	derive("verifnoc", "  openai_compatible: true", "  openai_compatible: false")
	// a provider of its own whose name merely starts like the inclusive "openai" prefixes
	derive("openai-verif")
	if err := os.Chdir(dir); err != nil {
		panic(err)
	}
}

// verifStack is one fully assembled olla (the production object graph) plus its scripted backends.
type verifStack struct {
	mgr      *services.ServiceManager
	addr     string
	backends []*zzverif.Backend
	group    *zzverif.Group
	cancel   context.CancelFunc
	cfg      *config.Config
}

type verifEndpointOpt struct {
	Type         string
	Priority     int
	PreservePath bool
	BasePath     string
	Models       []string
	Boot         string // "" / "up", "sick" (health answers 503), "dead" (listener closed)
	CfgName      string // the name the endpoint has in olla's configuration ("" = the backend's own name)
}

func verifFreePort() int { return zzverif.FreePort() }

// verifBoot boots the real ServiceManager (stats, security, discovery + health checker + model
// discovery, proxy engine, HTTP server) against n scripted backends.
func verifBoot(engine, lb, profile string, eps []verifEndpointOpt, mod func(*config.Config)) (*verifStack, error) {
	verifChdirRoot()
	st := &verifStack{group: zzverif.NewGroup()}
	cfg := config.DefaultConfig()
	cfg.Server.Host = "127.0.0.1"
	cfg.Server.RequestLogging = false
	cfg.Server.RateLimits.GlobalRequestsPerMinute = 0
	cfg.Server.RateLimits.PerIPRequestsPerMinute = 0
	cfg.Server.RateLimits.HealthRequestsPerMinute = 0
	cfg.Proxy.Engine = engine
	cfg.Proxy.LoadBalancer = lb
	cfg.Proxy.Profile = profile
	cfg.Proxy.ConnectionTimeout = 2 * time.Second
	cfg.Proxy.ResponseTimeout = 20 * time.Second
	cfg.Proxy.ReadTimeout = 10 * time.Second
	cfg.Discovery.ModelDiscovery.Interval = time.Hour
	cfg.Discovery.ModelDiscovery.Timeout = 3 * time.Second
	cfg.Discovery.ModelDiscovery.RetryAttempts = 1
	cfg.Discovery.ModelDiscovery.RetryBackoff = 10 * time.Millisecond
	cfg.Discovery.Static.Endpoints = nil
	for i, o := range eps {
		b := zzverif.NewBackend(fmt.Sprintf("e%d", i+1), st.group)
		if o.Models != nil {
			b.SetModelsOpenAI(o.Models)
		}
		st.backends = append(st.backends, b)
		switch o.Boot {
		case "sick":
			b.HealthStatus.Store(503)
		case "dead":
			b.SetDown(true)
		}
		typ := o.Type
		if typ == "" {
			typ = "openai-compatible"
		}
		if typ == "untyped" { // an endpoint whose configuration does not say what it is
			typ = ""
		}
		prio := o.Priority
		if prio == 0 {
			prio = 100
		}
		p := prio
		cfg.Discovery.Static.Endpoints = append(cfg.Discovery.Static.Endpoints, config.EndpointConfig{
			Name: verifOrName(o.CfgName, b.Name), URL: b.URL() + o.BasePath, Type: typ, Priority: &p,
			HealthCheckURL: "/health", ModelURL: "/v1/models",
			CheckInterval: 30 * time.Minute, CheckTimeout: 3 * time.Second, PreservePath: o.PreservePath, // only forced rounds (healthRound) probe: the periodic loop must not interfere on a slow machine
		})
		b.HealthPath = o.BasePathJoin("/health")
		b.ModelsPath = o.BasePathJoin("/v1/models")
	}
	if mod != nil {
		mod(cfg)
	}
	st.cfg = cfg
	lg := logger.NewPlainStyledLogger(slog.New(slog.NewTextHandler(io.Discard, nil)))
	var lastErr error
	for try := 0; try < 5; try++ {
		cfg.Server.Port = verifFreePort()
		ctx, cancel := context.WithCancel(context.Background())
		mgr, err := CreateAndStartServiceManager(ctx, cfg, lg)
		if err != nil {
			cancel()
			lastErr = err
			continue
		}
		st.mgr, st.cancel = mgr, cancel
		st.addr = fmt.Sprintf("127.0.0.1:%d", cfg.Server.Port)
		// wait for the listener
		for i := 0; i < 200; i++ {
			c, err := net.DialTimeout("tcp", st.addr, 200*time.Millisecond)
			if err == nil {
				c.Close()
				return st, nil
			}
			time.Sleep(5 * time.Millisecond)
		}
		lastErr = fmt.Errorf("listener did not come up")
		st.Close()
	}
	return nil, lastErr
}

func (o verifEndpointOpt) BasePathJoin(p string) string {
	if o.BasePath == "" || o.BasePath == "/" {
		return p
	}
	bp := o.BasePath
	for len(bp) > 0 && bp[len(bp)-1] == '/' {
		bp = bp[:len(bp)-1]
	}
	return bp + p
}

func (s *verifStack) Close() {
	if s.mgr != nil {
		ctx, c := context.WithTimeout(context.Background(), 3*time.Second)
		_ = s.mgr.Stop(ctx)
		c()
	}
	if s.cancel != nil {
		s.cancel()
	}
	for _, b := range s.backends {
		b.Close()
	}
}

func (s *verifStack) collector() ports.StatsCollector {
	ss, err := s.mgr.GetRegistry().GetStats()
	if err != nil {
		panic(err)
	}
	c, err := ss.GetCollector()
	if err != nil {
		panic(err)
	}
	return c
}

func (s *verifStack) repo() domain.EndpointRepository {
	d, err := s.mgr.GetRegistry().GetDiscovery()
	if err != nil {
		panic(err)
	}
	r, err := d.GetEndpointRepository()
	if err != nil {
		panic(err)
	}
	return r
}

// statuses returns name -> stored status.
// statuses: repository status per BACKEND (resolved through the URL: configured names need not be unique)
func (s *verifStack) statuses() map[string]string {
	all, _ := s.repo().GetAll(context.Background())
	out := map[string]string{}
	for _, e := range all {
		name := e.Name
		for _, be := range s.backends {
			if strings.HasPrefix(e.URLString, be.URL()) {
				name = be.Name
			}
		}
		out[name] = string(e.Status)
	}
	return out
}

func verifOrName(cfg, own string) string {
	if cfg != "" {
		return cfg
	}
	return own
}

// healthRound forces a full health round (RunHealthCheck, as the scheduler would do when due).
func (s *verifStack) healthRound() {
	d, _ := s.mgr.GetRegistry().GetDiscovery()
	hc, err := d.GetHealthChecker()
	if err != nil {
		panic(err)
	}
	ctx, c := context.WithTimeout(context.Background(), 10*time.Second)
	defer c()
	_ = hc.RunHealthCheck(ctx, false)
}

func (s *verifStack) gaugeOf(b *zzverif.Backend) int64 {
	cs := s.collector().GetConnectionStats()
	for u, v := range cs {
		if len(u) >= len(b.URL()) && u[:len(b.URL())] == b.URL() {
			return v
		}
	}
	return 0
}

// gaugeOthers is the sum of the in-flight gauges of every backend but b; gaugeSum of all of them.
func (s *verifStack) gaugeOthers(b *zzverif.Backend) int64 {
	var n int64
	for _, o := range s.backends {
		if o != b {
			n += s.gaugeOf(o)
		}
	}
	return n
}

func (s *verifStack) gaugeSum() int64 { return s.gaugeOthers(nil) }

// verifStreamSSE is an OpenAI chat-completion stream cut into one chunk per event (n content deltas).
func verifStreamSSE(n int) [][]byte {
	out := make([][]byte, 0, n+2)
	for i := 0; i < n; i++ {
		out = append(out, []byte(fmt.Sprintf("data: {\"id\":\"c1\",\"object\":\"chat.completion.chunk\",\"model\":\"m1\",\"choices\":[{\"index\":0,\"delta\":{\"content\":\"w%d \"},\"finish_reason\":null}]}\n\n", i)))
	}
	out = append(out, []byte("data: {\"id\":\"c1\",\"object\":\"chat.completion.chunk\",\"model\":\"m1\",\"choices\":[{\"index\":0,\"delta\":{},\"finish_reason\":\"stop\"}]}\n\n"))
	out = append(out, []byte("data: [DONE]\n\n"))
	return out
}

var _ = testing.Short
