//go:build verif

package app

import (
	"context"
	"encoding/json"
	"fmt"
	"github.com/thushan/olla/internal/config"
	"os"
	"path/filepath"
	"sort"
	"strings"
	"sync"
	"testing"
	"time"

	"gopkg.in/yaml.v3"

	"github.com/thushan/olla/internal/verifhook"
	"github.com/thushan/olla/internal/zzverif"
)

type verifProviderScn struct {
	Prefix string            `json:"prefix"`
	Types  map[string]string `json:"types"`
	H      []string          `json:"H"`
	Refuse []string          `json:"refuse"` // healthy when the request arrives, but their listener is closed
	Flip   []string          `json:"flip"`   // endpoints that turn unhealthy while olla re-lists the backends for this request
	Strat  string            `json:"strat"`  // "plain" | "disc_all" (discovery strategy, fallback all, refresh on miss; unknown model)
	Drop   []string          `json:"drop"`   // endpoints that re-list WITHOUT the shared model m1 after boot (through a recovery)
}

type verifProfileYAML struct {
	Name    string `yaml:"name"`
	Routing struct {
		Prefixes []string `yaml:"prefixes"`
	} `yaml:"routing"`
	API struct {
		OpenAICompatible bool `yaml:"openai_compatible"`
		AnthropicSupport *struct {
			Enabled bool `yaml:"enabled"`
		} `yaml:"anthropic_support"`
	} `yaml:"api"`
}

var (
	verifProfilesOnce sync.Once
	verifProfiles     []verifProfileYAML
)

// verifShippedProfiles reads config/profiles/*.yaml (the shipped table the property refers to).
func verifShippedProfiles() []verifProfileYAML {
	verifProfilesOnce.Do(func() {
		verifChdirRoot()
		files, _ := filepath.Glob("config/profiles/*.yaml")
		for _, f := range files {
			b, err := os.ReadFile(f)
			if err != nil {
				continue
			}
			var p verifProfileYAML
			if yaml.Unmarshal(b, &p) == nil && p.Name != "" {
				verifProfiles = append(verifProfiles, p)
			}
		}
	})
	return verifProfiles
}

// verifAllowedTypes: endpoint types a provider prefix may be served by, per the shipped YAML.
func verifAllowedTypes(prefix string) []string {
	set := map[string]bool{}
	openai := prefix == "openai" || prefix == "openai-compatible"
	for _, p := range verifShippedProfiles() {
		for _, px := range p.Routing.Prefixes {
			if px == prefix {
				set[p.Name] = true
			}
		}
		if openai && p.API.OpenAICompatible {
			set[p.Name] = true
		}
	}
	out := []string{}
	for k := range set {
		out = append(out, k)
	}
	sort.Strings(out)
	return out
}

// TestVerif_Provider: provider-scoped routes against mixes of endpoint types.
// what to do when the routing strategy is about to refresh for a given model name (hook point routing.refresh)
var verifProviderFlips sync.Map

func TestVerif_Provider(t *testing.T) {
	verifhook.Set(func(name, key string) {
		if name == "routing.refresh" {
			if f, ok := verifProviderFlips.Load(key); ok {
				f.(func())()
			}
		}
	})
	defer verifhook.Set(nil)
	tr := zzverif.OpenTrace()
	defer tr.Close()
	scns := zzverif.LoadScenarios()
	zzverif.Parallel(len(scns), 12, func(sn int) {
		var sc verifProviderScn
		if err := json.Unmarshal(scns[sn], &sc); err != nil {
			panic(err)
		}
		b := tr.Block()
		defer b.Flush()
		names := make([]string, 0, len(sc.Types))
		for n := range sc.Types {
			names = append(names, n)
		}
		sort.Strings(names)
		opts := make([]verifEndpointOpt, len(names))
		modelsOf := map[string][]string{}
		for i, n := range names {
			opts[i].Type = sc.Types[n]
			// one shared model and one exclusive model per endpoint; the exclusive names are far apart so that
			// model unification cannot fold them into one catalogue entry
			opts[i].Models = []string{"m1", []string{"alphaone", "bravotwo", "charliethree", "deltafour"}[i%4]}
			modelsOf[n] = opts[i].Models
		}
		var mod func(*config.Config)
		if sc.Strat == "disc_all" {
			mod = func(c *config.Config) {
				c.ModelRegistry.RoutingStrategy.Type = "discovery"
				c.ModelRegistry.RoutingStrategy.Options.FallbackBehavior = "all"
				c.ModelRegistry.RoutingStrategy.Options.DiscoveryRefreshOnMiss = true
				c.ModelRegistry.RoutingStrategy.Options.DiscoveryTimeout = time.Second
			}
		}
		stk, err := verifBoot("sherpa", "round-robin", "auto", opts, mod)
		if err != nil {
			b.Emit("Reset", "scn", sn, "booted", false, "err", err.Error(), "prefix", sc.Prefix, "allowed", []string{}, "types", sc.Types, "H", []string{}, "refuse", []string{}, "strat", sc.Strat)
			return
		}
		defer stk.Close()
		var mu sync.Mutex
		emit := func(name string, kv ...any) {
			mu.Lock()
			defer mu.Unlock()
			b.Emit(name, kv...)
		}
		for _, be := range stk.backends {
			if !verifHas(sc.H, be.Name) {
				be.HealthStatus.Store(503)
			}
			be := be
			be.OnAttempt = func(r *zzverif.Recv) zzverif.Plan {
				emit("BackendRecv", "e", be.Name, "target", r.Target)
				return zzverif.Plan{Kind: "ok", Status: 200, N: 2}
			}
		}
		stk.healthRound()
		if len(sc.Drop) > 0 {
			// the endpoints in Drop go away, come back and list only their exclusive model: what a provider's
			// listing shows must follow
			for _, be := range stk.backends {
				if verifHas(sc.Drop, be.Name) {
					modelsOf[be.Name] = modelsOf[be.Name][1:]
					be.SetModelsOpenAI(modelsOf[be.Name])
					be.HealthStatus.Store(503)
				}
			}
			stk.healthRound()
			for _, be := range stk.backends {
				if verifHas(sc.Drop, be.Name) && verifHas(sc.H, be.Name) {
					be.HealthStatus.Store(200)
				}
			}
			stk.healthRound()
			// re-discovery and the catalogue update are asynchronous: wait until olla knows the new listings
			deadline := time.Now().Add(3 * time.Second)
			for time.Now().Before(deadline) {
				settled := true
				if d, err := stk.mgr.GetRegistry().GetDiscovery(); err == nil {
					if reg, err := d.GetRegistry(); err == nil {
						for _, be := range stk.backends {
							if verifHas(sc.Drop, be.Name) && verifHas(sc.H, be.Name) {
								ms, _ := reg.GetModelsForEndpoint(context.Background(), be.URL())
								for _, m := range ms {
									if m.Name == "m1" {
										settled = false
									}
								}
							}
						}
					}
				}
				if settled {
					break
				}
				time.Sleep(10 * time.Millisecond)
			}
			time.Sleep(100 * time.Millisecond) // the unified catalogue follows the base registry asynchronously
		}
		hObs := []string{}
		for n, s := range stk.statuses() {
			if s == "healthy" {
				hObs = append(hObs, n)
			}
		}
		sort.Strings(hObs)
		// what olla's catalogue knows per endpoint (sanity for the reader of the trace)
		known := map[string][]string{}
		if d, err := stk.mgr.GetRegistry().GetDiscovery(); err == nil {
			if reg, err := d.GetRegistry(); err == nil {
				for _, be := range stk.backends {
					ms, _ := reg.GetModelsForEndpoint(context.Background(), be.URL())
					for _, m := range ms {
						known[be.Name] = append(known[be.Name], m.Name)
					}
				}
			}
		}
		emit("Reset", "scn", sn, "booted", true, "prefix", sc.Prefix, "allowed", verifAllowedTypes(sc.Prefix), "types", sc.Types,
			"H", hObs, "known", known, "refuse", append([]string{}, sc.Refuse...), "strat", sc.Strat)
		for _, be := range stk.backends {
			if verifHas(sc.Refuse, be.Name) {
				be.SetDown(true)
			}
		}
		if len(sc.Flip) > 0 {
			// the gate (hook point routing.refresh, keyed by the model the request names): between the handler's read of
			// the healthy set and the routing strategy's own re-read the endpoints in Flip are probed unhealthy
			var once sync.Once
			verifProviderFlips.Store(fmt.Sprintf("mx-unlisted-%d", sn), func() {
				once.Do(func() {
					for _, o := range stk.backends {
						if verifHas(sc.Flip, o.Name) {
							o.HealthStatus.Store(503)
						}
					}
					stk.healthRound()
					emit("Flip", "flip", append([]string{}, sc.Flip...), "st", stk.statuses())
				})
			})
			defer verifProviderFlips.Delete(fmt.Sprintf("mx-unlisted-%d", sn))
		}
		emit("ClientSend")
		// no model named: this check is about endpoint KIND, model routing is C09's business
		body := fmt.Sprintf(`{"messages":[{"role":"user","content":"p%d"}]}`, sn)
		if sc.Strat == "disc_all" {
			body = fmt.Sprintf(`{"model":"mx-unlisted-%d","messages":[{"role":"user","content":"p%d"}]}`, sn, sn)
		}
		res := zzverif.Do(stk.addr, &zzverif.Req{Method: "POST", Target: "/olla/" + sc.Prefix + "/v1/chat/completions",
			Headers: []string{"Content-Type: application/json", fmt.Sprintf("X-Verif-Req: p%d", sn)}, Body: []byte(body), Timeout: 20 * time.Second})
		st := res.Status
		if res.NoResp {
			st = 0
		}
		emit("ClientDone", "st", st, "xb", res.Header.Get("X-Backend"))
		for _, be := range stk.backends {
			if verifHas(sc.Refuse, be.Name) {
				be.SetDown(false)
			}
		}
		// model listing under the prefix (OpenAI format)
		lr := zzverif.Do(stk.addr, &zzverif.Req{Method: "GET", Target: "/olla/" + sc.Prefix + "/v1/models", Timeout: 10 * time.Second})
		ids := []string{}
		var parsed struct {
			Data []struct {
				ID string `json:"id"`
			} `json:"data"`
		}
		if json.Unmarshal(lr.Body, &parsed) == nil {
			for _, d := range parsed.Data {
				ids = append(ids, strings.TrimSpace(d.ID))
			}
		}
		emit("Listing", "st", lr.Status, "ids", ids, "models", modelsOf)
	})
}
