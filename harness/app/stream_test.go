//go:build verif

package app

import (
	"bytes"
	"crypto/sha256"
	"encoding/json"
	"fmt"
	"math/rand"
	"os"
	"runtime"
	"sync"
	"sync/atomic"
	"testing"
	"time"

	"github.com/thushan/olla/internal/config"
	"github.com/thushan/olla/internal/zzverif"
)

type verifStreamScn struct {
	Kind    string `json:"kind"`
	Engine  string `json:"engine"`
	Profile string `json:"profile"`
	CT      string `json:"ct"`
	Chunk   int    `json:"chunk"`
	N       int    `json:"n"`
	At      string `json:"at"`
	Gap     int    `json:"gap"`
	Reps    int    `json:"reps"`
	RT      int    `json:"rt"` // read_timeout of this scenario's stack in ms (0: the default)
	Route   string `json:"route"`
	Shape   string `json:"shape"`
	Rsp     int    `json:"rsp"` // response_timeout of this scenario's stack in ms (0: 30 s)
}

// verifStreamTranslatedChunks: an OpenAI stream, one chunk per event, and for each chunk the marker the client
// must have seen (in the translated Anthropic stream) before the NEXT chunk is released ("" = none).
func verifStreamTranslatedChunks(shape string) (chunks [][]byte, markers []string) {
	ev := func(delta, finish string) []byte {
		return []byte(fmt.Sprintf("data: {\"id\":\"c1\",\"object\":\"chat.completion.chunk\",\"model\":\"m1\",\"choices\":[{\"index\":0,\"delta\":%s,\"finish_reason\":%s}]}\n\n", delta, finish))
	}
	add := func(b []byte, m string) { chunks = append(chunks, b); markers = append(markers, m) }
	add(ev(`{"role":"assistant","content":""}`, "null"), "")
	add(ev(`{"content":"alphaA "}`, "null"), "alphaA")
	if shape == "tool" {
		add(ev(`{"tool_calls":[{"index":0,"id":"call_1","type":"function","function":{"name":"get_weather","arguments":""}}]}`, "null"), "get_weather")
		add(ev(`{"tool_calls":[{"index":0,"function":{"arguments":"{\"city\": \"betaB"}}]}`, "null"), "betaB")
		add(ev(`{"tool_calls":[{"index":0,"function":{"arguments":" gammaC"}}]}`, "null"), "gammaC")
		add(ev(`{"tool_calls":[{"index":0,"function":{"arguments":" deltaD\"}"}}]}`, "null"), "deltaD")
		add(ev(`{}`, `"tool_calls"`), "")
	} else {
		add(ev(`{"content":"betaB "}`, "null"), "betaB")
		add(ev(`{"content":"gammaC "}`, "null"), "gammaC")
		add(ev(`{"content":"deltaD"}`, "null"), "deltaD")
		add(ev(`{}`, `"stop"`), "")
	}
	add([]byte("data: [DONE]\n\n"), "")
	return chunks, markers
}

// verifStreamAbortPlan: what the backend does in an abort / leak scenario.
func verifStreamAbortPlan(sc verifStreamScn) zzverif.Plan {
	if sc.At == "prehdr" {
		return zzverif.Plan{Kind: "stall_pre"}
	}
	k := 0
	if sc.At == "chunk1" {
		k = 1
	}
	p := zzverif.Plan{Kind: "stall_after", Status: 200, Chunked: true, CT: sc.CT, N: 3, K: k}
	if sc.At == "flowing" {
		// keeps sending for ~3 s: whenever the client goes away, the proxy holds a chunk it wants to deliver
		p = zzverif.Plan{Kind: "ok", Status: 200, Chunked: true, CT: sc.CT, N: 20000}
	}
	if sc.Route == "anthropic" {
		p.CT = "text/event-stream"
		p.Chunks = verifStreamSSE(p.N)
	}
	return p
}

func verifStreamReqFor(sc verifStreamScn, id string) *zzverif.Req {
	if sc.Route != "anthropic" {
		return verifStreamReq(id)
	}
	body := fmt.Sprintf(`{"model":"m1","max_tokens":64,"stream":true,"messages":[{"role":"user","content":"%s"}]}`, id)
	return &zzverif.Req{Method: "POST", Target: "/olla/anthropic/v1/messages",
		Headers: []string{"Content-Type: application/json", "anthropic-version: 2023-06-01", "X-Verif-Req: " + id}, Body: []byte(body), Timeout: 12 * time.Second}
}

func (sc verifStreamScn) rt() int {
	if sc.RT > 0 {
		return sc.RT
	}
	return verifStreamRT
}

const verifStreamRT = 1000 // read_timeout in ms for these stacks

func verifStreamBoot(sc verifStreamScn) (*verifStack, error) {
	return verifBoot(sc.Engine, "priority", sc.Profile, []verifEndpointOpt{{Models: []string{"m1"}}}, func(c *config.Config) {
		c.Proxy.ReadTimeout = time.Duration(sc.rt()) * time.Millisecond
		c.Proxy.ResponseTimeout = 30 * time.Second
		if sc.Rsp > 0 {
			c.Proxy.ResponseTimeout = time.Duration(sc.Rsp) * time.Millisecond
		}
	})
}

func verifStreamReq(id string) *zzverif.Req {
	body := fmt.Sprintf(`{"model":"m1","stream":true,"messages":[{"role":"user","content":"%s"}]}`, id)
	return &zzverif.Req{Method: "POST", Target: "/olla/proxy/v1/chat/completions",
		Headers: []string{"Content-Type: application/json", "X-Verif-Req: " + id}, Body: []byte(body), Timeout: 12 * time.Second}
}

// TestVerif_Stream: timed streaming scenarios; the harness only measures, TLC judges (Stream.tla).
func TestVerif_Stream(t *testing.T) {
	tr := zzverif.OpenTrace()
	defer tr.Close()
	scns := zzverif.LoadScenarios()
	rnd := rand.New(rand.NewSource(zzverif.Seed()))
	var rmu sync.Mutex
	// timed scenarios: modest parallelism so that scheduling noise stays far below the slack
	width := 6
	if os.Getenv("VERIF_PAR") == "1" { // the leak scenarios count the process's goroutines: one stack at a time
		width = 1
	}
	zzverif.Parallel(len(scns), width, func(sn int) {
		var sc verifStreamScn
		if err := json.Unmarshal(scns[sn], &sc); err != nil {
			panic(err)
		}
		b := tr.Block()
		defer b.Flush()
		stk, err := verifStreamBoot(sc)
		if err != nil {
			b.Emit("Reset", "scn", sn, "booted", false)
			return
		}
		defer stk.Close()
		be := stk.backends[0]
		b.Emit("Reset", "scn", sn, "booted", true, "kind", sc.Kind, "engine", sc.Engine, "profile", sc.Profile, "ct", sc.CT)
		base := []any{"engine", sc.Engine, "profile", sc.Profile, "ct", sc.CT, "rt", sc.rt()}
		id := fmt.Sprintf("st%d", sn)
		switch sc.Kind {
		case "flow":
			chunks := make([][]byte, sc.N)
			rmu.Lock()
			for i := range chunks {
				chunks[i] = make([]byte, sc.Chunk)
				for j := range chunks[i] {
					chunks[i][j] = byte('a' + rnd.Intn(26))
				}
			}
			rmu.Unlock()
			want := sha256.Sum256(bytes.Join(chunks, nil))
			// gate only where the documented detection rule says the response is streamed; a buffered
			// response would otherwise be stalled by the gate itself
			gated := sc.Profile == "streaming" || (sc.Profile == "auto" &&
				(sc.CT == "text/event-stream" || sc.CT == "application/x-ndjson" || sc.CT == "text/plain"))
			var acked atomic.Int64 // number of whole chunks the client has seen
			var stuck atomic.Bool
			be.OnAttempt = func(r *zzverif.Recv) zzverif.Plan {
				return zzverif.Plan{Kind: "ok", Status: 200, Chunked: true, CT: sc.CT, Chunks: chunks, Gate: func(i int) {
					if !gated {
						return
					}
					// causally gated: chunk i is written only after the client has seen chunks 0..i-1
					dl := time.Now().Add(3 * time.Second)
					for acked.Load() < int64(i) {
						if time.Now().After(dl) {
							stuck.Store(true)
							return
						}
						time.Sleep(time.Millisecond)
					}
				}}
			}
			rq := verifStreamReq(id)
			rq.OnChunk = func(n, total int) { acked.Store(int64(total / sc.Chunk)) }
			res := zzverif.Do(stk.addr, rq)
			got := sha256.Sum256(res.Body)
			kv := append([]any{"n", sc.N, "chunk", sc.Chunk, "seen", len(res.Body) / sc.Chunk, "stuck", stuck.Load(), "complete", res.Complete,
				"whole", got == want, "ms", res.Elapsed.Milliseconds(), "st", res.Status, "gated", gated}, base...)
			b.Emit("Flow", kv...)
		case "tflow":
			chunks, markers := verifStreamTranslatedChunks(sc.Shape)
			var seenMu sync.Mutex
			seenSoFar := map[string]bool{}
			has := func(m string) bool { seenMu.Lock(); defer seenMu.Unlock(); return seenSoFar[m] }
			var stuck atomic.Bool
			var passed atomic.Int64 // gates passed because the client had seen the previous chunk's event
			gates := 0
			for _, m := range markers[:len(markers)-1] {
				if m != "" {
					gates++
				}
			}
			be.OnAttempt = func(r *zzverif.Recv) zzverif.Plan {
				return zzverif.Plan{Kind: "ok", Status: 200, Chunked: true, CT: "text/event-stream", Chunks: chunks, Gate: func(i int) {
					if i == 0 || markers[i-1] == "" {
						return
					}
					dl := time.Now().Add(3 * time.Second)
					for !has(markers[i-1]) {
						if time.Now().After(dl) {
							stuck.Store(true)
							return
						}
						time.Sleep(time.Millisecond)
					}
					passed.Add(1)
				}}
			}
			rq := verifStreamReqFor(sc, id)
			rq.OnData = func(sofar []byte) {
				seenMu.Lock()
				for _, m := range markers {
					if m != "" && !seenSoFar[m] && bytes.Contains(sofar, []byte(m)) {
						seenSoFar[m] = true
					}
				}
				seenMu.Unlock()
			}
			res := zzverif.Do(stk.addr, rq)
			whole := bytes.Contains(res.Body, []byte("message_stop"))
			for _, m := range markers {
				whole = whole && (m == "" || bytes.Contains(res.Body, []byte(m)))
			}
			kv := append([]any{"n", gates, "seen", passed.Load(), "stuck", stuck.Load(), "complete", res.Complete, "whole", whole,
				"ms", res.Elapsed.Milliseconds(), "st", res.Status, "gated", true, "route", sc.Route, "shape", sc.Shape}, base...)
			b.Emit("Flow", kv...)
		case "stall", "abort":
			var upstreamClosedAt atomic.Int64
			be.OnAttempt = func(r *zzverif.Recv) zzverif.Plan { return verifStreamAbortPlan(sc) }
			be.OnDone = func(r *zzverif.Recv, p zzverif.Plan, wrote int, peerGone bool) {
				if peerGone {
					upstreamClosedAt.Store(time.Now().UnixMilli())
				}
			}
			rq := verifStreamReqFor(sc, id)
			if sc.Kind == "stall" {
				res := zzverif.Do(stk.addr, rq)
				ended := res.Elapsed < 11*time.Second
				kv := append([]any{"at", sc.At, "rsp", sc.Rsp, "ended", ended, "ms", res.Elapsed.Milliseconds(), "st", res.Status}, base...)
				b.Emit("Stall", kv...)
				return
			}
			// abort: the client goes away 200 ms into the stall
			rq.Timeout = 200 * time.Millisecond
			if sc.At == "chunk1" || sc.At == "flowing" {
				rq.AbortAfter = 1
				rq.Timeout = 2 * time.Second
			}
			zzverif.Do(stk.addr, rq)
			left := time.Now().UnixMilli()
			dl := time.Now().Add(6 * time.Second)
			for upstreamClosedAt.Load() == 0 && time.Now().Before(dl) {
				time.Sleep(5 * time.Millisecond)
			}
			closed := upstreamClosedAt.Load()
			ms := int64(6000)
			if closed != 0 {
				ms = closed - left
				if ms < 0 {
					ms = 0
				}
			}
			kv := append([]any{"at", sc.At, "route", sc.Route, "upstreamClosed", closed != 0, "ms", ms}, base...)
			b.Emit("Abort", kv...)
		case "pause":
			be.OnAttempt = func(r *zzverif.Recv) zzverif.Plan {
				if sc.RT > 0 {
					// a burst of chunks 100 ms apart (together shorter than a quarter of the read timeout), then ONE
					// pause just below the timeout, then the rest: whatever clock the engine keeps for the stall must
					// have been restarted by the last chunk of the burst
					return zzverif.Plan{Kind: "ok", Status: 200, Chunked: true, CT: sc.CT, N: 3, Gate: func(i int) {
						if i == 1 {
							time.Sleep(400 * time.Millisecond)
						}
						if i == 2 {
							time.Sleep(time.Duration(sc.Gap) * time.Millisecond)
						}
					}}
				}
				return zzverif.Plan{Kind: "ok", Status: 200, Chunked: true, CT: sc.CT, N: 3, GapMs: sc.Gap}
			}
			res := zzverif.Do(stk.addr, verifStreamReq(id))
			runs, junk := zzverif.Attribute(res.Body)
			whole := junk == 0 && len(runs) == 1 && runs[0].N == 3
			kv := append([]any{"gap", sc.Gap, "rsp", sc.Rsp, "complete", res.Complete, "whole", whole, "ms", res.Elapsed.Milliseconds()}, base...)
			b.Emit("Pause", kv...)
		case "leak":
			be.OnAttempt = func(r *zzverif.Recv) zzverif.Plan { return verifStreamAbortPlan(sc) }
			once := func(i int) {
				rq := verifStreamReqFor(sc, fmt.Sprintf("%s-%d", id, i))
				rq.AbortAfter = 1
				rq.Timeout = 2 * time.Second
				zzverif.Do(stk.addr, rq)
			}
			settle := func() int {
				last, stable := runtime.NumGoroutine(), time.Now()
				dl := time.Now().Add(6 * time.Second)
				for time.Now().Before(dl) && time.Since(stable) < 400*time.Millisecond {
					time.Sleep(20 * time.Millisecond)
					if n := runtime.NumGoroutine(); n != last {
						last, stable = n, time.Now()
					}
				}
				return last
			}
			once(0) // warm-up: lazily started goroutines are not a leak
			before := settle()
			for i := 1; i <= sc.Reps; i++ {
				once(i)
			}
			after := settle()
			kv := append([]any{"reps", sc.Reps, "at", sc.At, "route", sc.Route, "before", before, "after", after}, base...)
			b.Emit("Leak", kv...)
		}
	})
}
