//go:build verif

package filter

import (
	"context"
	"encoding/json"
	"fmt"
	"strings"
	"testing"

	"github.com/thushan/olla/internal/core/domain"
	"github.com/thushan/olla/internal/zzverif"
)

type c10Lookup struct {
	N   []string   `json:"n"`
	Inc [][]string `json:"inc"`
	Exc [][]string `json:"exc"`
}

func c10Pats(ps [][]string) []string {
	out := make([]string, 0, len(ps))
	for _, p := range ps {
		out = append(out, strings.Join(p, ""))
	}
	return out
}

// TestVerif_GlobLookup replays TLC-generated lookup sequences on ONE filter instance obtained
// the way the discovery service obtains it (filter.NewGlobFilter) and records every answer.
// Two thirds of the lookups go through Matches, one third through Apply on a one-item list
// (the call the discovery service makes).
func TestVerif_GlobLookup(t *testing.T) {
	tr := zzverif.OpenTrace()
	defer tr.Close()
	ctx := context.Background()
	for sn, raw := range zzverif.LoadScenarios() {
		var qs []c10Lookup
		if err := json.Unmarshal(raw, &qs); err != nil {
			t.Fatalf("scenario %d: %v", sn, err)
		}
		f := NewGlobFilter()
		tr.Emit("Reset", "scn", sn)
		for i, q := range qs {
			if q.Inc == nil {
				q.Inc = [][]string{}
			}
			if q.Exc == nil {
				q.Exc = [][]string{}
			}
			if q.N == nil {
				q.N = []string{}
			}
			cfg := &domain.FilterConfig{Include: c10Pats(q.Inc), Exclude: c10Pats(q.Exc)}
			name := strings.Join(q.N, "")
			var res bool
			via := "matches"
			func() {
				defer func() {
					if p := recover(); p != nil {
						tr.Emit("Panic", "msg", fmt.Sprint(p))
					}
				}()
				if i%3 == 2 {
					via = "apply"
					r, err := f.Apply(ctx, cfg, []string{name}, func(x interface{}) string { return x.(string) })
					if err != nil {
						tr.Emit("ApplyError", "msg", err.Error())
						return
					}
					res = len(r.Accepted) == 1
				} else {
					res = f.Matches(cfg, name)
				}
				tr.Emit("Lookup", "n", q.N, "inc", q.Inc, "exc", q.Exc, "res", res, "via", via)
			}()
		}
	}
}
