//go:build verif

package anthropic

// Harness for property C13 (spec/AnthropicStream*.tla).  It concretises a TLC-generated scenario into
// the bytes an OpenAI-compatible backend would send, feeds them to the real TransformStreamingResponse
// through a pipe in the scenario's read sizes, runs the same completion through TransformResponse, and
// records what came out.  The output bytes are only TOKENISED here (strict SSE framing, JSON decode);
// whether the event sequence is a well-formed Anthropic message that lost nothing is decided by TLC
// (AnthropicStreamTrace).

import (
	"bytes"
	"context"
	"encoding/json"
	"fmt"
	"io"
	"log/slog"
	"math"
	"net/http"
	"os"
	"strconv"
	"strings"
	"testing"
	"time"
	"unicode/utf8"

	"github.com/thushan/olla/internal/config"
	"github.com/thushan/olla/internal/logger"
	"github.com/thushan/olla/internal/zzverif"
)

type verifStreamScn struct {
	Shape  []string `json:"shape"`
	Cls    string   `json:"cls"`
	Nf     int      `json:"nf"`
	Hdr    string   `json:"hdr"`
	Fin    string   `json:"fin"`
	FinPos string   `json:"finpos"`
	Usage  string   `json:"usage"`
	Chunk  string   `json:"chunk"`
	Noise  string   `json:"noise"`
	Both   bool     `json:"both"`
	Mal    string   `json:"mal"`
	MalPos int      `json:"malpos"`
	Arb    bool     `json:"arb"`
	Strict bool     `json:"strict"`
}

// one item of the completion, as the backend means it
type verifStreamItem struct {
	K    string `json:"k"` // "text" | "tool"
	Text string `json:"text"`
	ID   string `json:"id"`
	Name string `json:"name"`
	Args string `json:"args"`
}

const (
	verifStreamUin  = 37
	verifStreamUout = 11
)

// verifStreamWatchdog is how long a call may take before it is recorded as "Hang". A scenario needs
// milliseconds; the default is generous so that a loaded machine cannot turn slowness into an alarm.
func verifStreamWatchdog() time.Duration {
	if s := os.Getenv("VERIF_C13_WATCHDOG_S"); s != "" {
		if n, err := strconv.Atoi(s); err == nil && n > 0 {
			return time.Duration(n) * time.Second
		}
	}
	return 30 * time.Second
}

// verifStreamEnc maps a string to pure ASCII, injectively and compatibly with concatenation
// (enc(a+b) = enc(a)+enc(b)), so that TLC compares exactly what Go saw whatever the JVM's charset is.
func verifStreamEnc(s string) string {
	q := strconv.QuoteToASCII(s)
	return q[1 : len(q)-1]
}

func verifStreamEncItems(in []verifStreamItem) []verifStreamItem {
	out := make([]verifStreamItem, len(in))
	for i, it := range in {
		out[i] = verifStreamItem{K: it.K, Text: verifStreamEnc(it.Text), ID: verifStreamEnc(it.ID),
			Name: verifStreamEnc(it.Name), Args: verifStreamEnc(it.Args)}
	}
	return out
}

// verifStreamSplit cuts s into n pieces at rune boundaries (pieces may be empty when s is short).
func verifStreamSplit(s string, n int) []string {
	if n <= 1 {
		return []string{s}
	}
	var cuts []int
	for i := range s {
		cuts = append(cuts, i)
	}
	cuts = append(cuts, len(s))
	out := make([]string, 0, n)
	prev := 0
	for k := 1; k <= n; k++ {
		ci := len(cuts) - 1
		if k < n {
			ci = (len(cuts) - 1) * k / n
		}
		p := cuts[ci]
		if p < prev {
			p = prev
		}
		out = append(out, s[prev:p])
		prev = p
	}
	return out
}

func verifStreamCanon(v any) string {
	b, err := json.Marshal(v)
	if err != nil {
		panic(err)
	}
	return string(b)
}

// verifStreamItems builds the concrete completion of a scenario.
func verifStreamItems(sc verifStreamScn) []verifStreamItem {
	items := make([]verifStreamItem, 0, len(sc.Shape))
	for j, k := range sc.Shape {
		if k == "T" {
			var t string
			switch sc.Cls {
			case "ascii":
				t = fmt.Sprintf("Hello from item %d, plain text. ", j)
			case "uni":
				// (with terminal colour codes, a bell, a vertical tab, DEL and a private-use code point: legal in a JSON
				// string, and whatever olla writes around them must still be JSON)
				t = fmt.Sprintf("héllo %d ✓ 世界 \U0001F600 \"quoted\" back\\slash\nnewline\ttab \x1b[1mbold\x1b[0m \x07\x0b\x7f \U000F0000 ", j)
			case "empty":
				t = ""
			case "ws":
				// nothing but whitespace (a blank preamble before a tool call is a real thing)
				t = []string{"\n\n", " ", "\t\n "}[j%3]
			case "big":
				t = strings.Repeat(fmt.Sprintf("lorem %d ipsum ", j), 5200) // ~ 72 KiB
			}
			items = append(items, verifStreamItem{K: "text", Text: t})
			continue
		}
		it := verifStreamItem{K: "tool", ID: fmt.Sprintf("call_%d_x9", j), Name: fmt.Sprintf("get_thing_%d", j)}
		switch sc.Cls {
		case "ascii":
			it.Args = verifStreamCanon(map[string]any{"city": fmt.Sprintf("Paris %d", j), "days": j + 2,
				"order": json.Number("9007199254740993"), // an integer no float64 holds
				"opts":  map[string]any{"units": []any{"c", "f"}, "deep": true}})
		case "uni":
			it.Args = verifStreamCanon(map[string]any{"q": fmt.Sprintf("café %d ✓ 世界 \U0001F600 \"q\" a\\b\nline \x1b[31mred\x1b[0m \x07\x0b\x7f", j)})
		case "empty":
			it.Args = ""
		case "ws":
			it.Args = verifStreamCanon(map[string]any{"blank": " \n"})
		case "big":
			it.Args = verifStreamCanon(map[string]any{"data": strings.Repeat(fmt.Sprintf("blob%d ", j), 12000)}) // ~ 72 KiB
		}
		items = append(items, it)
	}
	return items
}

type verifStreamChunk struct {
	raw string // complete data payload (JSON text)
}

func verifStreamChoice(delta map[string]any, fin any) map[string]any {
	return map[string]any{"index": 0, "delta": delta, "finish_reason": fin}
}

func verifStreamEnvelope(choices []any) map[string]any {
	return map[string]any{"id": "chatcmpl-verif", "object": "chat.completion.chunk", "created": 1700000000,
		"model": "verif-model", "choices": choices}
}

// verifStreamRender builds the data payloads of the OpenAI SSE rendering of the completion.
func verifStreamRender(sc verifStreamScn, items []verifStreamItem) []string {
	type ch struct {
		delta   map[string]any
		content bool // carries completion content (candidate for finish_reason "last")
	}
	var chs []ch
	chs = append(chs, ch{delta: map[string]any{"role": "assistant", "content": ""}})
	toolIdx := 0
	var pendingText *string // text piece to ride on the next tool header (both)
	var lateFrags []ch      // arb: argument fragments emitted after all headers, interleaved
	var perTool [][]ch
	for j, it := range items {
		if it.K == "text" {
			frs := verifStreamSplit(it.Text, sc.Nf)
			for fi, fr := range frs {
				if sc.Both && fi == len(frs)-1 && j+1 < len(items) && items[j+1].K == "tool" {
					f := fr
					pendingText = &f
					continue
				}
				chs = append(chs, ch{delta: map[string]any{"content": fr}, content: true})
			}
			continue
		}
		frs := verifStreamSplit(it.Args, sc.Nf)
		fn := map[string]any{"name": it.Name, "arguments": ""}
		rest := frs
		if sc.Hdr == "joined" {
			fn["arguments"] = frs[0]
			rest = frs[1:]
		}
		d := map[string]any{"tool_calls": []any{map[string]any{"index": toolIdx, "id": it.ID, "type": "function", "function": fn}}}
		if sc.Hdr == "joined" {
			d["content"] = "" // Ollama style
		} else {
			d["content"] = nil // OpenAI style
		}
		if pendingText != nil {
			d["content"] = *pendingText
			pendingText = nil
		}
		chs = append(chs, ch{delta: d, content: true})
		var mine []ch
		for _, fr := range rest {
			mine = append(mine, ch{delta: map[string]any{"tool_calls": []any{map[string]any{"index": toolIdx,
				"function": map[string]any{"arguments": fr}}}}, content: true})
		}
		if sc.Arb {
			perTool = append(perTool, mine)
		} else {
			chs = append(chs, mine...)
		}
		toolIdx++
	}
	if sc.Arb {
		for r := 0; ; r++ {
			more := false
			for _, m := range perTool {
				if r < len(m) {
					lateFrags = append(lateFrags, m[r])
					more = true
				}
			}
			if !more {
				break
			}
		}
		chs = append(chs, lateFrags...)
	}
	usage := map[string]any{"prompt_tokens": verifStreamUin, "completion_tokens": verifStreamUout,
		"total_tokens": verifStreamUin + verifStreamUout}
	var out []string
	if sc.Noise == "azure" {
		out = append(out, verifStreamCanon(map[string]any{"id": "", "object": "", "created": 0, "model": "",
			"choices": []any{}, "prompt_filter_results": []any{map[string]any{"prompt_index": 0}}}))
	}
	lastContent := -1
	for i, c := range chs {
		if c.content {
			lastContent = i
		}
	}
	finOnLast := sc.FinPos == "last" && sc.Fin != "none" && lastContent >= 0
	for i, c := range chs {
		var fin any
		env := map[string]any(nil)
		if finOnLast && i == lastContent {
			fin = sc.Fin
			env = verifStreamEnvelope([]any{verifStreamChoice(c.delta, fin)})
			if sc.Usage == "fin" || sc.Usage == "running" {
				env["usage"] = usage
			}
		} else {
			env = verifStreamEnvelope([]any{verifStreamChoice(c.delta, nil)})
			if sc.Usage == "running" {
				// a backend that reports a running usage on every chunk (continuous usage stats): the LAST one counts
				env["usage"] = map[string]any{"prompt_tokens": verifStreamUin, "completion_tokens": 1 + i%5, "total_tokens": verifStreamUin + 1 + i%5}
			}
		}
		out = append(out, verifStreamCanon(env))
	}
	if sc.Fin != "none" && !finOnLast {
		env := verifStreamEnvelope([]any{verifStreamChoice(map[string]any{}, sc.Fin)})
		if sc.Usage == "fin" || sc.Usage == "running" {
			env["usage"] = usage
		}
		out = append(out, verifStreamCanon(env))
	}
	switch sc.Usage {
	case "own":
		env := verifStreamEnvelope([]any{verifStreamChoice(map[string]any{}, nil)})
		env["usage"] = usage
		out = append(out, verifStreamCanon(env))
	case "nochoices":
		env := verifStreamEnvelope([]any{})
		env["usage"] = usage
		out = append(out, verifStreamCanon(env))
	}
	return out
}

// verifStreamMalformed returns the injected line (complete, without line end) for a malformed kind.
func verifStreamMalformed(kind string) string {
	switch kind {
	case "nonjson":
		return `data: {"id":"chatcmpl-verif","choices":[{"index":0,"delta":{"content":"trunc`
	case "jsonarr":
		return `data: [1,2,3]`
	case "jsonnull":
		return `data: null`
	case "wrongtype":
		return `data: {"model":7,"choices":[{"index":0,"delta":"oops","finish_reason":7}],"usage":"x"}`
	case "choicesobj":
		return `data: {"choices":{"0":{"delta":{"content":"x"}}}}`
	case "choicenum":
		return `data: {"choices":[42]}`
	case "contentnum":
		return `data: {"choices":[{"index":0,"delta":{"content":5,"tool_calls":null}}]}`
	case "toolstr":
		return `data: {"choices":[{"index":0,"delta":{"tool_calls":"x"}}]}`
	case "toolmix":
		return `data: {"choices":[{"index":0,"delta":{"tool_calls":[5,null,{"index":"a","function":7},{"index":-1,"id":7,"function":{"name":null,"arguments":{}}},{"index":1e300,"id":"z","function":{"name":"n","arguments":"{"}}]}}]}`
	case "orphan":
		return `data: {"choices":[{"index":0,"delta":{"tool_calls":[{"index":9,"function":{"arguments":"{\"x\":1}"}}]}}]}`
	case "negidx":
		return `data: {"choices":[{"index":0,"delta":{"tool_calls":[{"index":-3,"id":"neg","type":"function","function":{"name":"neg","arguments":"[1"}}]}}]}`
	case "usagebad":
		return `data: {"choices":[{"index":0,"delta":{}}],"usage":{"prompt_tokens":"x","completion_tokens":-7.5e30}}`
	case "binary":
		return "data: \x00\xff\xfe{\"choices\":[\x00]}"
	case "nospace":
		return `data:{"choices":[{"index":0,"delta":{"content":"nospace"}}]}`
	case "eventline":
		return `event: error`
	}
	return ": unknown malformed kind " + kind
}

// verifStreamBytes renders the whole input byte stream and returns it with the read boundaries.
func verifStreamBytes(sc verifStreamScn, payloads []string) ([]byte, []int) {
	nl := "\n"
	if sc.Noise == "crlf" {
		nl = "\r\n"
	}
	var lines []string // each entry is one SSE event (lines joined), without the terminating blank line
	field := "data: "
	if sc.Noise == "nospace" {
		field = "data:" // the space after the colon is optional in SSE
	}
	for _, p := range payloads {
		lines = append(lines, field+p)
	}
	truncated := false
	if sc.Mal != "none" {
		pos := sc.MalPos
		if pos > len(lines) {
			pos = len(lines)
		}
		switch sc.Mal {
		case "eof", "readerr":
			// the stream ends abruptly inside data line `pos` (or right at the end)
			if pos < len(lines) {
				l := lines[pos]
				lines = append(lines[:pos:pos], l[:len(l)/2])
			}
			truncated = true
		default:
			ml := verifStreamMalformed(sc.Mal)
			lines = append(lines[:pos:pos], append([]string{ml}, lines[pos:]...)...)
		}
	}
	var buf bytes.Buffer
	var evEnds, lineEnds []int
	for i, l := range lines {
		if sc.Noise == "comment" {
			buf.WriteString(": keep-alive ping" + nl)
			lineEnds = append(lineEnds, buf.Len())
		}
		buf.WriteString(l)
		if truncated && i == len(lines)-1 {
			break
		}
		buf.WriteString(nl)
		lineEnds = append(lineEnds, buf.Len())
		buf.WriteString(nl)
		lineEnds = append(lineEnds, buf.Len())
		evEnds = append(evEnds, buf.Len())
	}
	if !truncated && sc.Noise != "nodone" {
		buf.WriteString("data: [DONE]" + nl + nl)
		lineEnds = append(lineEnds, buf.Len())
		evEnds = append(evEnds, buf.Len())
	}
	if !truncated && sc.Noise == "afterdone" {
		// legal SSE after the terminator: a keep-alive comment the backend sends before it closes
		buf.WriteString(": keep-alive" + nl + nl)
		lineEnds = append(lineEnds, buf.Len())
		evEnds = append(evEnds, buf.Len())
	}
	b := buf.Bytes()
	var cuts []int
	fixed := func(n int) {
		for p := n; p < len(b); p += n {
			cuts = append(cuts, p)
		}
	}
	switch sc.Chunk {
	case "all":
	case "event":
		cuts = evEnds
	case "line":
		cuts = lineEnds
	case "byte":
		fixed(1)
	case "n7":
		fixed(7)
	case "n64":
		fixed(64)
	case "n1000":
		fixed(1000)
	}
	return b, cuts
}

// verifStreamRecorder is the client side: it keeps every byte written.
type verifStreamRecorder struct {
	hdr     http.Header
	buf     bytes.Buffer
	flushes int
	status  int
}

func (r *verifStreamRecorder) Header() http.Header         { return r.hdr }
func (r *verifStreamRecorder) Write(p []byte) (int, error) { return r.buf.Write(p) }
func (r *verifStreamRecorder) WriteHeader(code int)        { r.status = code }
func (r *verifStreamRecorder) Flush()                      { r.flushes++ }

func verifStreamIdx(v any) int {
	f, ok := v.(float64)
	if !ok || f < 0 || f != math.Trunc(f) || f > 1e6 {
		return 999999
	}
	return int(f)
}

func verifStreamStr(v any) string {
	s, _ := v.(string)
	return verifStreamEnc(s)
}

func verifStreamKind(t string) string {
	switch t {
	case "text", "text_delta":
		return "text"
	case "tool_use", "input_json_delta":
		return "tool"
	}
	return "other:" + t
}

// verifStreamTokenise turns the client's bytes into Out events. Framing is strict: every frame is
// "event: <name>\ndata: <one-line JSON object>" terminated by a blank line; anything else is recorded
// as t="unparseable".
func verifStreamTokenise(out []byte, emit func(kv ...any)) {
	s := string(out)
	for len(s) > 0 {
		end := strings.Index(s, "\n\n")
		if end < 0 {
			emit("t", "unparseable", "dt", "", "why", "unterminated frame")
			return
		}
		frame := s[:end]
		s = s[end+2:]
		lines := strings.Split(frame, "\n")
		if len(lines) != 2 || !strings.HasPrefix(lines[0], "event: ") || !strings.HasPrefix(lines[1], "data: ") || !utf8.ValidString(frame) {
			emit("t", "unparseable", "dt", "", "why", "bad frame")
			continue
		}
		name := strings.TrimPrefix(lines[0], "event: ")
		var d map[string]any
		if err := json.Unmarshal([]byte(strings.TrimPrefix(lines[1], "data: ")), &d); err != nil || d == nil {
			emit("t", "unparseable", "dt", "", "why", "data is not a JSON object")
			continue
		}
		dt, _ := d["type"].(string)
		kv := []any{"t", name, "dt", dt}
		switch dt {
		case "message_start":
			m, _ := d["message"].(map[string]any)
			u, _ := m["usage"].(map[string]any)
			kv = append(kv, "mtype", verifStreamStr(m["type"]), "role", verifStreamStr(m["role"]), "uin", verifStreamIdx(u["input_tokens"]))
		case "content_block_start":
			cb, _ := d["content_block"].(map[string]any)
			ty, _ := cb["type"].(string)
			kv = append(kv, "idx", verifStreamIdx(d["index"]), "bk", verifStreamKind(ty), "id", verifStreamStr(cb["id"]),
				"name", verifStreamStr(cb["name"]), "text", verifStreamStr(cb["text"]))
		case "content_block_delta":
			dl, _ := d["delta"].(map[string]any)
			ty, _ := dl["type"].(string)
			k := verifStreamKind(ty)
			payload := ""
			if k == "text" {
				payload = verifStreamStr(dl["text"])
			} else if k == "tool" {
				payload = verifStreamStr(dl["partial_json"])
			}
			kv = append(kv, "idx", verifStreamIdx(d["index"]), "dk", k, "d", payload)
		case "content_block_stop":
			kv = append(kv, "idx", verifStreamIdx(d["index"]))
		case "message_delta":
			dl, _ := d["delta"].(map[string]any)
			u, _ := d["usage"].(map[string]any)
			_, hasIn := u["input_tokens"]
			kv = append(kv, "stop", verifStreamStr(dl["stop_reason"]), "hasUin", hasIn,
				"uin", verifStreamIdx(u["input_tokens"]), "uout", verifStreamIdx(u["output_tokens"]))
		}
		emit(kv...)
	}
}

// verifStreamBuffered builds the buffered OpenAI response of the same completion.
func verifStreamBuffered(sc verifStreamScn, items []verifStreamItem) any {
	text := ""
	hasText := false
	var tcs []any
	for _, it := range items {
		if it.K == "text" {
			text += it.Text
			hasText = true
			continue
		}
		tcs = append(tcs, map[string]any{"id": it.ID, "type": "function",
			"function": map[string]any{"name": it.Name, "arguments": it.Args}})
	}
	msg := map[string]any{"role": "assistant"}
	if hasText {
		msg["content"] = text
	} else {
		msg["content"] = nil
	}
	if len(tcs) > 0 {
		msg["tool_calls"] = tcs
	}
	choice := map[string]any{"index": 0, "message": msg}
	if sc.Fin != "none" {
		choice["finish_reason"] = sc.Fin
	} else {
		choice["finish_reason"] = nil
	}
	resp := map[string]any{"id": "chatcmpl-verif", "object": "chat.completion", "created": 1700000000,
		"model": "verif-model", "choices": []any{choice}}
	if sc.Usage != "none" {
		resp["usage"] = map[string]any{"prompt_tokens": verifStreamUin, "completion_tokens": verifStreamUout,
			"total_tokens": verifStreamUin + verifStreamUout}
	}
	// malformed counterparts for the no-crash clause
	switch sc.Mal {
	case "none":
	case "choicesobj":
		resp["choices"] = map[string]any{"0": choice}
	case "choicenum":
		resp["choices"] = []any{42}
	case "wrongtype":
		choice["message"] = "oops"
		resp["usage"] = "x"
	case "contentnum":
		msg["content"] = 5
	case "toolstr":
		msg["tool_calls"] = "x"
	case "toolmix", "negidx", "orphan":
		msg["tool_calls"] = []any{5, nil, map[string]any{"id": 7, "function": 7},
			map[string]any{"id": nil, "function": map[string]any{"name": nil, "arguments": map[string]any{}}}}
	case "usagebad":
		resp["usage"] = map[string]any{"prompt_tokens": "x", "completion_tokens": -7.5e30}
	case "jsonarr":
		return []any{1, 2, 3}
	case "jsonnull":
		return nil
	default:
		resp["choices"] = []any{}
	}
	// what the handler does: the body is JSON-decoded into interface{} before translation
	var generic any
	if err := json.Unmarshal([]byte(verifStreamCanon(resp)), &generic); err != nil {
		panic(err)
	}
	return generic
}

func verifStreamRunBuffered(tr *Translator, sc verifStreamScn, items []verifStreamItem, b *zzverif.Block) {
	in := verifStreamBuffered(sc, items)
	type res struct {
		v     any
		err   error
		panic any
	}
	done := make(chan res, 1)
	go func() {
		var r res
		defer func() {
			if p := recover(); p != nil {
				r.panic = p
			}
			done <- r
		}()
		r.v, r.err = tr.TransformResponse(context.Background(), in, nil)
	}()
	var r res
	select {
	case r = <-done:
	case <-time.After(verifStreamWatchdog()):
		b.Emit("Hang", "where", "buffered")
		return
	}
	if r.panic != nil {
		b.Emit("Panic", "where", "buffered", "what", fmt.Sprint(r.panic))
		return
	}
	if r.err != nil {
		b.Emit("Buffered", "ok", false, "mtype", "", "role", "", "blocks", []verifStreamItem{}, "stop", "", "uin", 0, "uout", 0)
		return
	}
	// observe it the way the client does: as JSON
	raw, err := json.Marshal(r.v)
	var m map[string]any
	if err != nil || json.Unmarshal(raw, &m) != nil {
		b.Emit("Buffered", "ok", false, "mtype", "unmarshalable", "role", "", "blocks", []verifStreamItem{}, "stop", "", "uin", 0, "uout", 0)
		return
	}
	// (the content once more with numbers kept as written: a tool argument is these digits, not the nearest double)
	var mn map[string]any
	dn := json.NewDecoder(bytes.NewReader(raw))
	dn.UseNumber()
	_ = dn.Decode(&mn)
	blocks := []verifStreamItem{}
	cs, _ := mn["content"].([]any)
	wireOK := true // every block carries the field the Messages API requires of its kind, empty or not
	for _, c := range cs {
		cb, _ := c.(map[string]any)
		ty, _ := cb["type"].(string)
		if _, has := cb["input"]; ty == "tool_use" && !has {
			wireOK = false
		}
		if _, has := cb["text"]; ty == "text" && !has {
			wireOK = false
		}
		it := verifStreamItem{K: verifStreamKind(ty)}
		it.Text, _ = cb["text"].(string)
		it.ID, _ = cb["id"].(string)
		it.Name, _ = cb["name"].(string)
		if it.K == "tool" {
			if in, ok := cb["input"]; ok && in != nil {
				it.Args = verifStreamCanon(in)
			}
		}
		blocks = append(blocks, it)
	}
	u, _ := m["usage"].(map[string]any)
	b.Emit("Buffered", "ok", true, "wire", wireOK, "mtype", verifStreamStr(m["type"]), "role", verifStreamStr(m["role"]),
		"blocks", verifStreamEncItems(blocks), "stop", verifStreamStr(m["stop_reason"]),
		"uin", verifStreamIdx(u["input_tokens"]), "uout", verifStreamIdx(u["output_tokens"]))
}

func verifStreamRunStream(tr *Translator, sc verifStreamScn, items []verifStreamItem, b *zzverif.Block) {
	input, cuts := verifStreamBytes(sc, verifStreamRender(sc, items))
	pr, pw := io.Pipe()
	rec := &verifStreamRecorder{hdr: http.Header{}}
	fed := make(chan struct{}) // closed when the backend has delivered everything and closed its side
	go func() {                // the backend: delivers the bytes in the scenario's read sizes
		defer close(fed)
		prev := 0
		for _, c := range append(append([]int(nil), cuts...), len(input)) {
			if c <= prev {
				continue
			}
			if _, err := pw.Write(input[prev:c]); err != nil {
				return
			}
			prev = c
		}
		if sc.Mal == "readerr" {
			pw.CloseWithError(fmt.Errorf("verif: connection reset by peer"))
		} else {
			pw.Close()
		}
	}()
	type res struct {
		err   error
		panic any
	}
	done := make(chan res, 1)
	go func() {
		var r res
		defer func() {
			if p := recover(); p != nil {
				r.panic = p
			}
			done <- r
		}()
		req, _ := http.NewRequest(http.MethodPost, "http://verif.local/olla/anthropic/v1/messages", nil)
		r.err = tr.TransformStreamingResponse(context.Background(), pr, rec, req)
	}()
	var r res
	hung := false
	select {
	case r = <-done:
	case <-time.After(verifStreamWatchdog()):
		hung = true
	}
	// The handler couples the translator to the proxy through this unbuffered pipe and waits for the proxy
	// afterwards: a translator that comes back before the backend's side is drained leaves the proxy blocked
	// in its write for ever. drained = the backend got rid of all its bytes.
	drained := false
	if !hung {
		select {
		case <-fed:
			drained = true
		case <-time.After(300 * time.Millisecond):
		}
	}
	pr.CloseWithError(io.ErrClosedPipe) // release the feeder whatever happened
	if hung {
		b.Emit("Hang", "where", "stream")
		return
	}
	verifStreamTokenise(rec.buf.Bytes(), func(kv ...any) { b.Emit("Out", kv...) })
	if r.panic != nil {
		b.Emit("Panic", "where", "stream", "what", fmt.Sprint(r.panic))
		return
	}
	b.Emit("End", "err", r.err != nil, "drained", drained, "bytesIn", len(input), "reads", len(cuts)+1, "bytesOut", rec.buf.Len())
}

// TestVerif_AnthropicStream drives the real translator over TLC-enumerated scenarios.
func TestVerif_AnthropicStream(t *testing.T) {
	tr := zzverif.OpenTrace()
	defer tr.Close()
	lg := logger.NewPlainStyledLogger(slog.New(slog.NewTextHandler(io.Discard, &slog.HandlerOptions{Level: slog.Level(100)})))
	xl := NewTranslator(lg, config.AnthropicTranslatorConfig{Enabled: true, MaxMessageSize: 10 << 20})
	scns := zzverif.LoadScenarios()
	zzverif.Parallel(len(scns), 8, func(i int) {
		var sc verifStreamScn
		if err := json.Unmarshal(scns[i], &sc); err != nil {
			panic(fmt.Sprintf("scenario %d: %v", i, err))
		}
		items := verifStreamItems(sc)
		b := tr.Block()
		b.Emit("Reset", "scn", i, "strict", sc.Strict, "items", verifStreamEncItems(items), "fin", sc.Fin,
			"hasU", sc.Usage != "none", "uin", verifStreamUin, "uout", verifStreamUout,
			"usagePos", sc.Usage, "both", sc.Both, "desc", string(scns[i]))
		verifStreamRunBuffered(xl, sc, items, b)
		verifStreamRunStream(xl, sc, items, b)
		b.Flush()
	})
}
