//go:build verif

package eventbus

import (
	"context"
	"encoding/json"
	"testing"

	"github.com/thushan/olla/internal/zzverif"
)

// TestVerif_EventBus replays TLC-generated call sequences on the real EventBus[int] (buffer 3, no cleanup
// ticker) and records every result. No assertions: TLC judges the trace.
func TestVerif_EventBus(t *testing.T) {
	tr := zzverif.OpenTrace()
	defer tr.Close()
	scns := zzverif.LoadScenarios()
	zzverif.Parallel(len(scns), 8, func(sn int) {
		var steps []json.RawMessage
		if err := json.Unmarshal(scns[sn], &steps); err != nil {
			panic(err)
		}
		b := tr.Block()
		defer b.Flush()
		defer func() {
			if r := recover(); r != nil {
				b.Emit("Panic", "what", r)
			}
		}()
		bus := NewWithConfig[int](EventBusConfig{BufferSize: 3, CleanupPeriod: 0})
		defer bus.Shutdown()
		chans := map[string]<-chan int{}
		undo := map[string]func(){}
		n := 0
		b.Emit("Reset", "scn", sn)
		for _, s := range steps {
			name, args := zzverif.Tok(s)
			switch name {
			case "Subscribe":
				id := zzverif.Str(args[0])
				ch, cleanup := bus.Subscribe(context.Background())
				chans[id], undo[id] = ch, cleanup
				res := "open"
				select {
				case _, ok := <-ch:
					if !ok {
						res = "closed"
					} else {
						res = "spurious"
					}
				default:
				}
				b.Emit("Subscribe", "s", id, "res", res)
			case "Unsubscribe":
				id := zzverif.Str(args[0])
				undo[id]()
				b.Emit("Unsubscribe", "s", id)
			case "Publish":
				n++
				b.Emit("Publish", "n", n, "res", bus.Publish(n))
			case "Recv":
				id := zzverif.Str(args[0])
				got := 0
				select {
				case v, ok := <-chans[id]:
					if ok {
						got = v
					}
				default:
				}
				b.Emit("Recv", "s", id, "res", got)
			case "Shutdown":
				bus.Shutdown()
				b.Emit("Shutdown")
			case "Stats":
				st := bus.Stats()
				b.Emit("Stats", "subs", st.ActiveSubscribers, "drops", st.TotalDropped, "down", st.IsShutdown)
			default:
				panic("unknown step " + name)
			}
		}
	})
}
