//go:build verif

package security

import (
	"context"
	"encoding/json"
	"fmt"
	"io"
	"log/slog"
	"runtime"
	"sync"
	"sync/atomic"
	"testing"
	"time"

	"github.com/thushan/olla/internal/config"
	"github.com/thushan/olla/internal/core/ports"
	"github.com/thushan/olla/internal/logger"
	"github.com/thushan/olla/internal/zzverif"
)

type verifBucketScn struct {
	Kind  string `json:"kind"`
	Rate  int    `json:"rate"`
	Burst int    `json:"burst"`
	Rolls int    `json:"rolls"`
}

// TestVerif_Bucket: the per-IP limiter across reporting-window roll-overs. Only the window bookkeeping
// (windowStart / lastAccess) is rewound; the token bucket itself lives in real time, so the window bound
// in real time must keep holding.
func TestVerif_Bucket(t *testing.T) {
	tr := zzverif.OpenTrace()
	defer tr.Close()
	lg := logger.NewPlainStyledLogger(slog.New(slog.NewTextHandler(io.Discard, nil)))
	for sn, raw := range zzverif.LoadScenarios() {
		var sc verifBucketScn
		if json.Unmarshal(raw, &sc) != nil || sc.Kind != "bucket" {
			continue
		}
		rl := NewRateLimitValidator(config.ServerRateLimits{PerIPRequestsPerMinute: sc.Rate, BurstSize: sc.Burst}, nil, lg)
		tr.Emit("Reset", "scn", sn, "rate", sc.Rate, "burst", sc.Burst, "maxBody", 0, "maxMsg", 0, "kind", "bucket")
		t0 := time.Now()
		ms := func() int64 { return time.Since(t0).Milliseconds() }
		n := 0
		ask := func(ip string) {
			n++
			send := ms()
			res, err := rl.Validate(context.Background(), ports.SecurityRequest{ClientID: ip, Endpoint: "/olla/proxy/x", Method: "POST"})
			recv := ms()
			adm := err == nil && res.Allowed
			st := 429
			if adm {
				st = 200
			}
			tr.Emit("Req", "r", fmt.Sprintf("b%d-%d", sn, n), "ip", ip, "send", send, "recv", recv, "st", st, "adm", adm,
				"size", 10, "lenmode", "cl", "route", "proxy", "upLen", 10)
		}
		// first contact under contention: 32 callers of one address the limiter has never seen, released
		// together -- they must share ONE bucket (repeated for a few fresh addresses: the window is narrow)
		for f := 0; f < 4; f++ {
			ip := fmt.Sprintf("10.0.9.%d", f+1)
			var ready atomic.Int64
			var goFlag atomic.Bool
			var wg sync.WaitGroup
			type one struct {
				send, recv int64
				adm        bool
			}
			res := make([]one, 32)
			for k := range res {
				wg.Add(1)
				go func(k int) {
					defer wg.Done()
					ready.Add(1)
					for !goFlag.Load() {
					}
					send := ms()
					r, err := rl.Validate(context.Background(), ports.SecurityRequest{ClientID: ip, Endpoint: "/olla/proxy/x", Method: "POST"})
					res[k] = one{send, ms(), err == nil && r.Allowed}
				}(k)
			}
			for ready.Load() < int64(len(res)) {
				runtime.Gosched()
			}
			goFlag.Store(true)
			wg.Wait()
			for _, o := range res {
				n++
				st := 429
				if o.adm {
					st = 200
				}
				tr.Emit("Req", "r", fmt.Sprintf("b%d-%d", sn, n), "ip", ip, "send", o.send, "recv", o.recv, "st", st, "adm", o.adm,
					"size", 10, "lenmode", "cl", "route", "proxy", "upLen", 10)
			}
		}
		for round := 0; round <= sc.Rolls; round++ {
			for i := 0; i < sc.Burst+3; i++ {
				ask("10.0.0.1")
				ask("10.0.0.2")
			}
			// the one-minute reporting window rolls over (bookkeeping only)
			rl.ipLimiters.Range(func(_ string, info *ipLimiterInfo) bool {
				info.mu.Lock()
				info.windowStart = info.windowStart.Add(-61 * time.Second)
				info.mu.Unlock()
				return true
			})
		}
		tr.Emit("End")
		rl.Stop()
	}
}
