//go:build verif

package metrics

import (
	"context"
	"encoding/json"
	"fmt"
	"io"
	"log/slog"
	"math"
	"math/rand"
	"os"
	"path/filepath"
	"strings"
	"testing"

	"github.com/thushan/olla/internal/adapter/registry/profile"
	"github.com/thushan/olla/internal/logger"
	"github.com/thushan/olla/internal/zzverif"
)

type verifTailScn struct {
	Kind     string `json:"kind"`
	Field    string `json:"field"`
	Value    string `json:"value"`
	Provider string `json:"provider"`
}

func verifTailValue(cls string) string {
	switch cls {
	case "normal":
		return "1234"
	case "zero":
		return "0"
	case "negative":
		return "-5"
	case "huge":
		return "1e999"
	case "big": // finite as a float64, far beyond what a float32 holds
		return "1e100"
	case "hugeint":
		return "99999999999999999999999999999999"
	case "tiny":
		return "1e-999"
	case "nanstr":
		return `"NaN"`
	case "infstr":
		return `"Infinity"`
	case "null":
		return "null"
	case "bool":
		return "true"
	case "object":
		return `{"a":1}`
	case "array":
		return "[1,2]"
	case "string":
		return `"12ab"`
	}
	if strings.HasPrefix(cls, "mut") {
		return "1234" + cls[3:] // an ordinary number; the whole tail is mutated afterwards
	}
	return "1"
}

func verifKind(v float64) string {
	switch {
	case math.IsNaN(v):
		return "nan"
	case math.IsInf(v, 0):
		return "inf"
	default:
		return "finite"
	}
}

// TestVerif_MetricsTails: response tails whose numeric fields take hostile values, through the real
// extractor configured from the shipped profiles.
func TestVerif_MetricsTails(t *testing.T) {
	tr := zzverif.OpenTrace()
	defer tr.Close()
	// shipped profiles live under <module root>/config/profiles
	wd, _ := os.Getwd()
	for d := wd; d != "/"; d = filepath.Dir(d) {
		if _, err := os.Stat(filepath.Join(d, "go.mod")); err == nil {
			_ = os.Chdir(d)
			break
		}
	}
	lg := logger.NewPlainStyledLogger(slog.New(slog.NewTextHandler(io.Discard, nil)))
	pf, err := profile.NewFactoryWithDefaults()
	if err != nil {
		t.Fatalf("profiles: %v", err)
	}
	ex, err := NewExtractor(pf, lg)
	if err != nil {
		t.Fatalf("extractor: %v", err)
	}
	for _, name := range pf.GetAvailableProfiles() {
		if p, err := pf.GetProfile(name); err == nil {
			_ = ex.ValidateProfile(p)
		}
	}
	fields := []string{"prompt_eval_count", "eval_count", "total_duration", "load_duration", "prompt_eval_duration", "eval_duration"}
	for sn, raw := range zzverif.LoadScenarios() {
		var sc verifTailScn
		if json.Unmarshal(raw, &sc) != nil || sc.Kind != "metrics" {
			continue
		}
		tail := map[string]json.RawMessage{"model": json.RawMessage(`"m1"`), "done": json.RawMessage("true")}
		for _, f := range fields {
			tail[f] = json.RawMessage("1000000")
		}
		usage := map[string]json.RawMessage{"prompt_tokens": json.RawMessage("7"), "completion_tokens": json.RawMessage("9"), "total_tokens": json.RawMessage("16")}
		v := json.RawMessage(verifTailValue(sc.Value))
		switch sc.Field {
		case "all":
			for _, f := range fields {
				tail[f] = v
			}
			for k := range usage {
				usage[k] = v
			}
		case "usage":
			for k := range usage {
				usage[k] = v
			}
		default:
			tail[sc.Field] = v
		}
		ub, _ := json.Marshal(usage)
		tail["usage"] = ub
		// hand-rolled object: json.Marshal would refuse 1e999
		body := "{"
		first := true
		for k, val := range tail {
			if !first {
				body += ","
			}
			first = false
			body += fmt.Sprintf("%q:%s", k, string(val))
		}
		body += "}"
		if strings.HasPrefix(sc.Value, "mut") {
			// a well-formed tail (every number ordinary) with 1..4 byte-level accidents, seeded per scenario
			mr := rand.New(rand.NewSource(zzverif.Seed()*1000003 + int64(sn)))
			b := []byte(strings.ReplaceAll(body, "\"mut", "\"1"))
			special := []string{"\"", "{", "}", "[", "]", ",", ":", "\\", "\x00", "\xff", "null", "1e999", "-", "e", "."}
			for n := 1 + mr.Intn(4); n > 0 && len(b) > 8; n-- {
				i := mr.Intn(len(b))
				j := i + mr.Intn(len(b)-i)
				switch mr.Intn(5) {
				case 0:
					b[i] ^= byte(1 << uint(mr.Intn(8)))
				case 1:
					b = append(append([]byte{}, b[:i]...), b[j:]...)
				case 2:
					if j-i > 100 {
						j = i + 100
					}
					b = append(append(append([]byte{}, b[:j]...), b[i:j]...), b[j:]...)
				case 3:
					b = append(append(append([]byte{}, b[:i]...), special[mr.Intn(len(special))]...), b[i:]...)
				case 4:
					b = b[:i]
				}
			}
			body = string(b)
		}
		tr.Emit("Reset", "scn", sn, "kind", "metrics", "known", []string{"m1", "m2"})
		func() {
			defer func() {
				if r := recover(); r != nil {
					tr.Emit("Panic", "what", fmt.Sprint(r))
				}
			}()
			m := ex.ExtractFromChunk(context.Background(), []byte(body), sc.Provider)
			if m == nil {
				tr.Emit("Metrics", "provider", sc.Provider, "field", sc.Field, "value", sc.Value, "kinds", []string{"absent"})
				return
			}
			kinds := []string{verifKind(float64(m.TokensPerSecond)), verifKind(float64(m.InputTokens)), verifKind(float64(m.OutputTokens)),
				verifKind(float64(m.TotalTokens)), verifKind(float64(m.TTFTMs)), verifKind(float64(m.TotalMs)), verifKind(float64(m.PromptMs)),
				verifKind(float64(m.GenerationMs)), verifKind(float64(m.ModelLoadMs))}
			tr.Emit("Metrics", "provider", sc.Provider, "field", sc.Field, "value", sc.Value, "kinds", kinds, "tps", fmt.Sprint(m.TokensPerSecond))
		}()
	}
}
