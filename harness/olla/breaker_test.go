//go:build verif

package olla

import (
	"encoding/json"
	"sync"
	"sync/atomic"
	"testing"
	"time"

	"github.com/puzpuzpuz/xsync/v4"

	"github.com/thushan/olla/internal/zzverif"
)

const verifUnit = 100 * time.Millisecond

// TestVerif_EngineBreaker replays TLC-generated scenarios on the real olla.circuitBreaker
// (obtained the way the engine obtains it: Service.GetCircuitBreaker).
func TestVerif_EngineBreaker(t *testing.T) {
	tr := zzverif.OpenTrace()
	defer tr.Close()
	for i, raw := range zzverif.LoadScenarios() {
		var steps []json.RawMessage
		if err := json.Unmarshal(raw, &steps); err != nil {
			t.Fatalf("scenario %d: %v", i, err)
		}
		svc := &Service{circuitBreakers: *xsync.NewMap[string, *circuitBreaker]()}
		cb := svc.GetCircuitBreaker("e1")
		state := func() (int64, int64) {
			return atomic.LoadInt64(&cb.failures), atomic.LoadInt64(&cb.state)
		}
		tr.Emit("Reset", "scn", i)
		for _, s := range steps {
			name, args := zzverif.Tok(s)
			switch name {
			case "Ask":
				res := "admit"
				if cb.IsOpen() {
					res = "refuse"
				}
				f, st := state()
				tr.Emit("Ask", "res", res, "f", f, "st", st)
			case "Race":
				// n goroutines ask at once (released together)
				n := zzverif.Int(args[0])
				var admits atomic.Int64
				var wg sync.WaitGroup
				start := make(chan struct{})
				for k := 0; k < n; k++ {
					wg.Add(1)
					go func() {
						defer wg.Done()
						<-start
						if !cb.IsOpen() {
							admits.Add(1)
						}
					}()
				}
				close(start)
				wg.Wait()
				f, st := state()
				tr.Emit("Race", "n", n, "admits", admits.Load(), "f", f, "st", st)
			case "Fail":
				cb.RecordFailure()
				f, st := state()
				tr.Emit("Fail", "f", f, "st", st)
			case "Succ":
				cb.RecordSuccess()
				f, st := state()
				tr.Emit("Succ", "f", f, "st", st)
			case "Tick":
				d := zzverif.Int(args[0])
				if v := atomic.LoadInt64(&cb.lastFailure); v != 0 {
					atomic.StoreInt64(&cb.lastFailure, v-int64(time.Duration(d)*verifUnit))
				}
				tr.Emit("Tick", "d", d)
			default:
				t.Fatalf("unknown step %s", name)
			}
		}
	}
}
