//go:build verif

// Package zzverifc12 binds the abstract requests of spec/AnthropicReq.tla to concrete bytes
// (property C12).  Concretise turns an abstract request into an Anthropic Messages JSON body
// with seeded random strings / nested JSON; Project turns an OpenAI chat request (as produced by
// the code under test) back into tokens.  It never judges: what cannot be recognised is
// projected as -1 / "other" and the specification decides.
package zzverifc12

import (
	"bytes"
	"encoding/json"
	"fmt"
	"math/big"
	"math/rand"
	"reflect"
	"strconv"
	"strings"
	"unicode"
)

// ---- abstract request (JSON produced by TLC, echoed in the Reset event)

type Block struct {
	K string `json:"k"`
	I int    `json:"i"`
	C string `json:"c"`
}

type Msg struct {
	Role   string  `json:"role"`
	Form   string  `json:"form"`
	Blocks []Block `json:"blocks"`
}

type Cfg struct {
	Model  string `json:"model"`
	Maxtok string `json:"maxtok"`
	Temp   string `json:"temp"`
	Topp   string `json:"topp"`
	Stop   string `json:"stop"`
	Stream string `json:"stream"`
	Sys    string `json:"sys"`
	Tools  int    `json:"tools"`
	Tc     string `json:"tc"`
	Unk    string `json:"unk"`
	Body   string `json:"body"`
	Extra  string `json:"extra"`
}

type Req struct {
	Msgs []Msg `json:"msgs"`
	Cfg  Cfg   `json:"cfg"`
}

// ---- concretisation table

type Concrete struct {
	Body    []byte
	Model   string
	MaxTok  int
	Temp    *float64
	Topp    *float64
	Stops   []string
	Text    map[int]string // text token -> string
	Args    map[int]any    // argument token -> JSON value (decoded form)
	IDs     [3]string      // 1, 2
	Names   [3]string      // 1, 2
	Desc    string
	Schemas [3]any
}

var alphabet = []string{"a", "b", "Z", "q", "7", " ", " ", "\"", "\\", "\n", "\t", "<", ">", "&", "'", "é", "ß", "日本", "😀",
	" ", "{", "}", "[", "]", ":", ",", "/", "%s", "\r\n", "null", "\\n", " ", "İ"}

func randStr(r *rand.Rand, min, max int) string {
	n := min + r.Intn(max-min+1)
	var sb strings.Builder
	for i := 0; i < n; i++ {
		sb.WriteString(alphabet[r.Intn(len(alphabet))])
	}
	return sb.String()
}

func randAlnum(r *rand.Rand, n int) string {
	const cs = "abcdefghijklmnopqrstuvwxyzABCDEFGHIJKLMNOPQRSTUVWXYZ0123456789"
	b := make([]byte, n)
	for i := range b {
		b[i] = cs[r.Intn(len(cs))]
	}
	return string(b)
}

func tokText(r *rand.Rand, tok int) string {
	return fmt.Sprintf("⟦t%d:%s⟧", tok, randStr(r, 0, 24))
}

func randValue(r *rand.Rand, depth int) any {
	k := r.Intn(10)
	if depth <= 0 && k >= 7 {
		k = r.Intn(7)
	}
	switch k {
	case 0:
		return randStr(r, 0, 12)
	case 1:
		return float64(r.Int63n(1<<53)) * float64(1-2*r.Intn(2))
	case 2:
		return float64(r.Intn(2000)-1000) / 8
	case 3:
		return r.Float64() * 1e-7
	case 4:
		return r.Intn(2) == 0
	case 5:
		return nil
	case 6:
		return float64(r.Intn(100))
	case 7:
		n := r.Intn(4)
		a := make([]any, n)
		for i := range a {
			a[i] = randValue(r, depth-1)
		}
		return a
	default:
		return randObject(r, depth-1, r.Intn(4))
	}
}

func randObject(r *rand.Rand, depth, n int) map[string]any {
	m := map[string]any{}
	for i := 0; i < n; i++ {
		m[fmt.Sprintf("k%d_%s", i, randStr(r, 0, 5))] = randValue(r, depth)
	}
	return m
}

func randSchema(r *rand.Rand) map[string]any {
	props := map[string]any{}
	req := []any{}
	n := 1 + r.Intn(3)
	for i := 0; i < n; i++ {
		name := fmt.Sprintf("p%d_%s", i, randAlnum(r, 3))
		var p map[string]any
		switch r.Intn(4) {
		case 0:
			p = map[string]any{"type": "string", "description": randStr(r, 0, 16)}
		case 1:
			p = map[string]any{"type": "integer", "minimum": float64(r.Intn(10)), "default": float64(r.Intn(5))}
		case 2:
			p = map[string]any{"type": "array", "items": map[string]any{"type": "string", "enum": []any{randStr(r, 1, 4), randStr(r, 1, 4)}}}
		default:
			p = map[string]any{"type": "object", "properties": map[string]any{"inner": map[string]any{"type": "boolean"}},
				"additionalProperties": false}
		}
		props[name] = p
		if r.Intn(2) == 0 {
			req = append(req, name)
		}
	}
	return map[string]any{"type": "object", "properties": props, "required": req}
}

// normalise a Go value to what encoding/json decodes it to
func roundTrip(v any) any {
	b, err := json.Marshal(v)
	if err != nil {
		panic(err)
	}
	var out any
	if err := json.Unmarshal(b, &out); err != nil {
		panic(err)
	}
	return out
}

// roundTripNum is roundTrip with numbers kept as written (json.Number): an integer beyond 2^53 survives.
func roundTripNum(v any) any {
	b, err := json.Marshal(v)
	if err != nil {
		panic(err)
	}
	d := json.NewDecoder(bytes.NewReader(b))
	d.UseNumber()
	var out any
	if err := d.Decode(&out); err != nil {
		panic(err)
	}
	return out
}

// jsonNumEqual: JSON equality with numbers compared by VALUE, exactly (1.0 = 1 = 1e0, but
// 9007199254740993 # 9007199254740992).
func jsonNumEqual(a, b any) bool {
	rat := func(v any) (*big.Rat, bool) {
		switch x := v.(type) {
		case json.Number:
			r, ok := new(big.Rat).SetString(x.String())
			return r, ok
		case float64:
			r, ok := new(big.Rat).SetString(strconv.FormatFloat(x, 'g', -1, 64))
			return r, ok
		}
		return nil, false
	}
	if ra, ok := rat(a); ok {
		rb, ok2 := rat(b)
		return ok2 && ra.Cmp(rb) == 0
	}
	switch x := a.(type) {
	case map[string]any:
		y, ok := b.(map[string]any)
		if !ok || len(x) != len(y) {
			return false
		}
		for k, v := range x {
			w, ok := y[k]
			if !ok || !jsonNumEqual(v, w) {
				return false
			}
		}
		return true
	case []any:
		y, ok := b.([]any)
		if !ok || len(x) != len(y) {
			return false
		}
		for i := range x {
			if !jsonNumEqual(x[i], y[i]) {
				return false
			}
		}
		return true
	}
	return reflect.DeepEqual(a, b)
}

// ordered JSON object writer (key order is shuffled: it must not matter)
type kv struct {
	k string
	v any
}

func obj(r *rand.Rand, shuffle bool, kvs ...kv) json.RawMessage {
	if shuffle && r != nil {
		r.Shuffle(len(kvs), func(i, j int) { kvs[i], kvs[j] = kvs[j], kvs[i] })
	}
	var b bytes.Buffer
	b.WriteByte('{')
	for i, e := range kvs {
		if i > 0 {
			b.WriteByte(',')
		}
		kb, _ := json.Marshal(e.k)
		b.Write(kb)
		b.WriteByte(':')
		vb, err := json.Marshal(e.v)
		if err != nil {
			panic(err)
		}
		b.Write(vb)
	}
	b.WriteByte('}')
	return b.Bytes()
}

func Tok(m, b int) int { return m*10 + b }

// Concretise builds the JSON body for an abstract request. model is the model name to use for
// cfg.model = "ok".
func Concretise(q Req, r *rand.Rand, model string) *Concrete {
	c := &Concrete{Model: model, Text: map[int]string{}, Args: map[int]any{}}
	for i := 1; i <= 2; i++ {
		c.IDs[i] = "toolu_" + randAlnum(r, 10+r.Intn(10))
		c.Names[i] = []string{"get_", "Run-", "x"}[r.Intn(3)] + randAlnum(r, 1+r.Intn(12))
		c.Schemas[i] = roundTrip(randSchema(r))
	}
	for c.IDs[2] == c.IDs[1] || c.Names[2] == c.Names[1] { // the two ids / names stand for different things
		c.IDs[2] = "toolu_" + randAlnum(r, 12)
		c.Names[2] = "y" + randAlnum(r, 1+r.Intn(12))
	}
	c.Desc = "desc " + randStr(r, 1, 20)
	c.Args[0] = map[string]any{}
	text := func(tok int) string {
		s := tokText(r, tok)
		c.Text[tok] = s
		return s
	}
	cc := func(kvs []kv) []kv { // cache_control is legal on every content block and must not matter
		if r.Intn(4) == 0 {
			kvs = append(kvs, kv{"cache_control", map[string]any{"type": "ephemeral"}})
		}
		return kvs
	}
	var top []kv
	cfg := q.Cfg
	switch cfg.Model {
	case "ok":
		top = append(top, kv{"model", model})
	case "empty":
		top = append(top, kv{"model", ""})
	case "wrongtype":
		top = append(top, kv{"model", 12345})
	}
	switch cfg.Maxtok {
	case "ok":
		c.MaxTok = []int{1, 16, 1024, 4096, 200000}[r.Intn(5)]
		top = append(top, kv{"max_tokens", c.MaxTok})
	case "zero":
		top = append(top, kv{"max_tokens", 0})
	case "neg":
		top = append(top, kv{"max_tokens", -5})
	case "wrongtype":
		top = append(top, kv{"max_tokens", "100"})
	}
	fl := func(name, v string, hi, neg float64) *float64 {
		var x float64
		switch v {
		case "absent":
			return nil
		case "mid":
			x = float64(1+r.Intn(98)) / 100
		case "zero":
			x = 0
		case "one":
			x = 1
		case "hi":
			x = hi
		case "neg":
			x = neg
		}
		top = append(top, kv{name, x})
		return &x
	}
	c.Temp = fl("temperature", cfg.Temp, 2.5, -0.5)
	c.Topp = fl("top_p", cfg.Topp, 1.5, -0.1)
	switch cfg.Stop {
	case "empty":
		top = append(top, kv{"stop_sequences", []string{}})
	case "one":
		c.Stops = []string{"STOP" + randStr(r, 1, 6)}
		top = append(top, kv{"stop_sequences", c.Stops})
	case "two":
		c.Stops = []string{"STOP" + randStr(r, 1, 6), "\n\nHuman:" + randStr(r, 0, 3)}
		if r.Intn(2) == 0 {
			// stop sequences made of white space only are as good as any (a blank line ends many a completion)
			c.Stops = []string{[]string{"\n\n", "\n", "\t", " "}[r.Intn(4)], "STOP" + randStr(r, 1, 6)}
		}
		top = append(top, kv{"stop_sequences", c.Stops})
	case "seven":
		c.Stops = nil
		for i := 1; i <= 7; i++ {
			c.Stops = append(c.Stops, fmt.Sprintf("S%d-%s", i, randStr(r, 1, 5)))
		}
		top = append(top, kv{"stop_sequences", c.Stops})
	}
	switch cfg.Stream {
	case "true":
		top = append(top, kv{"stream", true})
	case "false":
		top = append(top, kv{"stream", false})
	}
	switch cfg.Sys {
	case "str":
		top = append(top, kv{"system", text(1)})
	case "b1":
		top = append(top, kv{"system", []any{obj(r, true, cc([]kv{{"type", "text"}, {"text", text(1)}})...)}})
	case "b2":
		top = append(top, kv{"system", []any{obj(r, true, cc([]kv{{"type", "text"}, {"text", text(1)}})...),
			obj(r, true, cc([]kv{{"type", "text"}, {"text", text(2)}})...)}})
	case "b0":
		top = append(top, kv{"system", []any{}})
	}
	if cfg.Tools > 0 {
		var tools []any
		for k := 1; k <= cfg.Tools; k++ {
			kvs := []kv{{"name", c.Names[k]}, {"input_schema", c.Schemas[k]}}
			if k == 1 {
				kvs = append(kvs, kv{"description", c.Desc})
			}
			if cfg.Extra == "toolcc" { // prompt-caching marker on a tool definition (legal for the Anthropic API)
				kvs = append(kvs, kv{"cache_control", map[string]any{"type": "ephemeral"}})
			}
			tools = append(tools, obj(r, true, kvs...))
		}
		top = append(top, kv{"tools", tools})
	}
	switch cfg.Tc {
	case "s_auto":
		top = append(top, kv{"tool_choice", "auto"})
	case "s_any":
		top = append(top, kv{"tool_choice", "any"})
	case "s_none":
		top = append(top, kv{"tool_choice", "none"})
	case "o_auto":
		top = append(top, kv{"tool_choice", map[string]any{"type": "auto"}})
	case "o_any":
		top = append(top, kv{"tool_choice", map[string]any{"type": "any"}})
	case "o_none":
		top = append(top, kv{"tool_choice", map[string]any{"type": "none"}})
	case "o_tool":
		top = append(top, kv{"tool_choice", map[string]any{"type": "tool", "name": c.Names[1]}})
	case "o_tool_noname":
		top = append(top, kv{"tool_choice", map[string]any{"type": "tool"}})
	}
	if cfg.Unk == "top" {
		top = append(top, kv{"verif_unknown_field", map[string]any{"a": 1}})
	}
	switch cfg.Extra {
	case "topk":
		top = append(top, kv{"top_k", 40})
	case "meta":
		top = append(top, kv{"metadata", map[string]any{"user_id": "u-" + randAlnum(r, 8)}})
	case "think":
		// extended thinking with a budget below max_tokens: max_tokens itself must travel unchanged
		budget := c.MaxTok / 2
		if budget < 1 {
			budget = 1
		}
		top = append(top, kv{"thinking", map[string]any{"type": "enabled", "budget_tokens": budget}})
	}
	// messages
	var msgs []any
	for mi, m := range q.Msgs {
		mno := mi + 1
		if m.Form == "null" {
			msgs = append(msgs, obj(r, true, kv{"role", m.Role}, kv{"content", nil}))
			continue
		}
		if m.Form == "absent" {
			msgs = append(msgs, obj(r, true, kv{"role", m.Role}))
			continue
		}
		if m.Form == "str" {
			s := ""
			if len(m.Blocks) > 0 && m.Blocks[0].K == "text" {
				s = text(Tok(mno, 1))
			}
			msgs = append(msgs, obj(r, true, kv{"role", m.Role}, kv{"content", s}))
			continue
		}
		var blocks []any
		for bi, b := range m.Blocks {
			tok := Tok(mno, bi+1)
			switch b.K {
			case "text":
				blocks = append(blocks, obj(r, true, cc([]kv{{"type", "text"}, {"text", text(tok)}})...))
			case "etext":
				blocks = append(blocks, obj(r, true, kv{"type", "text"}, kv{"text", ""}))
			case "image":
				blocks = append(blocks, obj(r, true, kv{"type", "image"}, kv{"source", map[string]any{
					"type": "base64", "media_type": "image/png", "data": "iVBORw0KGgoAAAANSUhEUg=="}}))
			case "use":
				var in any = map[string]any{}
				if b.C == "obj" {
					o := randObject(r, 3, 1+r.Intn(4))
					o["_tok"] = float64(tok) // makes every non-empty argument object distinct
					if r.Intn(3) == 0 {
						// integers no float64 holds: "JSON-equal arguments" means these digits, not the nearest double
						o["_big"] = json.Number("9007199254740993")
						o["_ns"] = []any{json.Number("1727500000123456789"), json.Number("-9223372036854775807")}
					}
					in = roundTripNum(o)
					c.Args[tok] = in
				}
				blocks = append(blocks, obj(r, true, cc([]kv{{"type", "tool_use"}, {"id", c.IDs[b.I]}, {"name", c.Names[b.I]}, {"input", in}})...))
			case "result":
				kvs := []kv{{"type", "tool_result"}, {"tool_use_id", c.IDs[b.I]}}
				switch b.C {
				case "str":
					kvs = append(kvs, kv{"content", text(tok)})
				case "blocks":
					kvs = append(kvs, kv{"content", []any{obj(r, true, kv{"type", "text"}, kv{"text", text(tok)}),
						obj(r, true, kv{"type", "text"}, kv{"text", text(100 + tok)})}})
				}
				if r.Intn(5) == 0 {
					kvs = append(kvs, kv{"is_error", r.Intn(2) == 0})
				}
				blocks = append(blocks, obj(r, true, cc(kvs)...))
			}
		}
		if blocks == nil {
			blocks = []any{}
		}
		msgs = append(msgs, obj(r, true, kv{"role", m.Role}, kv{"content", blocks}))
	}
	if len(msgs) > 0 {
		top = append(top, kv{"messages", msgs})
	} else if r.Intn(2) == 0 {
		top = append(top, kv{"messages", []any{}})
	}
	body := []byte(obj(r, true, top...))
	switch cfg.Body {
	case "trunc":
		body = body[:len(body)*2/3]
	case "notjson":
		body = []byte("model=" + model + "&this is not json")
	case "array":
		body = append(append([]byte("["), body...), ']')
	}
	c.Body = body
	return c
}

// ---- projection of an OpenAI chat request

type OutCall struct {
	ID   int `json:"id"`
	Nm   int `json:"nm"`
	Args int `json:"args"`
}

type OutMsg struct {
	Role  string    `json:"role"`
	Text  []int     `json:"text"`
	Calls []OutCall `json:"calls"`
	Ref   int       `json:"ref"`
}

type OutTool struct {
	Nm     int    `json:"nm"`
	Desc   string `json:"desc"`
	Schema string `json:"schema"`
}

type Out struct {
	Model  string    `json:"model"`
	Maxtok string    `json:"maxtok"`
	Stream string    `json:"stream"`
	Temp   string    `json:"temp"`
	Topp   string    `json:"topp"`
	Stop   []int     `json:"stop"`
	Msgs   []OutMsg  `json:"msgs"`
	Tools  []OutTool `json:"tools"`
	Tc     string    `json:"tc"`
}

// decompose a content string into known text tokens; whitespace between fragments is tolerated
// (how fragments are joined is not part of the property); anything else is -1.
func (c *Concrete) decompose(s string) []int {
	out := []int{}
	for {
		s = strings.TrimLeftFunc(s, unicode.IsSpace)
		if s == "" {
			return out
		}
		found := false
		for tok, ts := range c.Text {
			if strings.HasPrefix(s, ts) {
				out = append(out, tok)
				s = s[len(ts):]
				found = true
				break
			}
		}
		if !found {
			return append(out, -1)
		}
	}
}

// text of an OpenAI message content: string, array of parts (non-text parts are not text), null
func (c *Concrete) contentTokens(v any) []int {
	switch x := v.(type) {
	case nil:
		return []int{}
	case string:
		return c.decompose(x)
	case []any:
		out := []int{}
		for _, p := range x {
			pm, ok := p.(map[string]any)
			if !ok {
				out = append(out, -1)
				continue
			}
			if t, _ := pm["type"].(string); t == "text" {
				s, ok := pm["text"].(string)
				if !ok {
					out = append(out, -1)
					continue
				}
				out = append(out, c.decompose(s)...)
			}
		}
		return out
	default:
		return []int{-1}
	}
}

// text carried by a tool message: either the fragments themselves, or a JSON rendering of the
// Anthropic content blocks (their "text" members in order)
func (c *Concrete) toolTokens(v any) []int {
	toks := c.contentTokens(v)
	bad := false
	for _, t := range toks {
		if t < 0 {
			bad = true
		}
	}
	if !bad {
		return toks
	}
	if s, ok := v.(string); ok {
		var parsed any
		if json.Unmarshal([]byte(s), &parsed) == nil {
			out := []int{}
			var walk func(x any)
			walk = func(x any) {
				switch y := x.(type) {
				case []any:
					for _, e := range y {
						walk(e)
					}
				case map[string]any:
					if t, ok := y["text"].(string); ok {
						out = append(out, c.decompose(t)...)
					} else if inner, ok := y["content"]; ok {
						walk(inner)
					} else {
						out = append(out, -1)
					}
				case string:
					out = append(out, c.decompose(y)...)
				default:
					out = append(out, -1)
				}
			}
			walk(parsed)
			return out
		}
	}
	return toks
}

func (c *Concrete) idIndex(v any, tab [3]string) int {
	s, ok := v.(string)
	if !ok {
		return -1
	}
	for i := 1; i <= 2; i++ {
		if s == tab[i] {
			return i
		}
	}
	return -1
}

func (c *Concrete) argsToken(v any) int {
	s, ok := v.(string)
	if !ok {
		return -1
	}
	d := json.NewDecoder(strings.NewReader(s))
	d.UseNumber()
	var parsed any
	if err := d.Decode(&parsed); err != nil {
		return -1
	}
	for tok, a := range c.Args {
		if jsonNumEqual(parsed, a) {
			return tok
		}
	}
	return -1
}

func numEq(v any, want float64) bool {
	f, ok := v.(float64)
	return ok && f == want
}

// Project maps a decoded OpenAI chat request to its abstract form.
func (c *Concrete) Project(o map[string]any) Out {
	out := Out{Stop: []int{}, Msgs: []OutMsg{}, Tools: []OutTool{}}
	same := func(present bool, eq bool) string {
		if !present {
			return "absent"
		}
		if eq {
			return "same"
		}
		return "other"
	}
	v, ok := o["model"]
	out.Model = same(ok, v == c.Model)
	v, ok = o["max_tokens"]
	if !ok {
		v, ok = o["max_completion_tokens"]
	}
	out.Maxtok = same(ok, numEq(v, float64(c.MaxTok)))
	switch s := o["stream"].(type) {
	case nil:
		out.Stream = "absent"
		if _, present := o["stream"]; present {
			out.Stream = "other"
		}
	case bool:
		out.Stream = map[bool]string{true: "true", false: "false"}[s]
	default:
		out.Stream = "other"
	}
	v, ok = o["temperature"]
	out.Temp = same(ok, c.Temp != nil && numEq(v, *c.Temp))
	v, ok = o["top_p"]
	out.Topp = same(ok, c.Topp != nil && numEq(v, *c.Topp))
	stopIdx := func(s any) int {
		str, ok := s.(string)
		if !ok {
			return -1
		}
		for i, x := range c.Stops {
			if x == str {
				return i + 1
			}
		}
		return -1
	}
	switch s := o["stop"].(type) {
	case nil:
	case string:
		out.Stop = append(out.Stop, stopIdx(s))
	case []any:
		for _, e := range s {
			out.Stop = append(out.Stop, stopIdx(e))
		}
	default:
		out.Stop = append(out.Stop, -1)
	}
	msgs, _ := o["messages"].([]any)
	if _, present := o["messages"]; present && msgs == nil && o["messages"] != nil {
		out.Msgs = append(out.Msgs, OutMsg{Role: "other", Text: []int{-1}, Calls: []OutCall{}})
	}
	for _, mv := range msgs {
		om := OutMsg{Role: "other", Text: []int{}, Calls: []OutCall{}}
		m, ok := mv.(map[string]any)
		if !ok {
			om.Text = []int{-1}
			out.Msgs = append(out.Msgs, om)
			continue
		}
		role, _ := m["role"].(string)
		switch role {
		case "system", "developer":
			om.Role = "system"
		case "user", "assistant", "tool":
			om.Role = role
		}
		if om.Role == "tool" {
			om.Text = c.toolTokens(m["content"])
			om.Ref = c.idIndex(m["tool_call_id"], c.IDs)
		} else {
			om.Text = c.contentTokens(m["content"])
		}
		if tcs, present := m["tool_calls"]; present && tcs != nil {
			arr, ok := tcs.([]any)
			if !ok {
				om.Calls = append(om.Calls, OutCall{-1, -1, -1})
			}
			for _, tv := range arr {
				t, _ := tv.(map[string]any)
				fn, _ := t["function"].(map[string]any)
				call := OutCall{ID: c.idIndex(t["id"], c.IDs), Nm: c.idIndex(fn["name"], c.Names), Args: c.argsToken(fn["arguments"])}
				if ty, _ := t["type"].(string); ty != "function" {
					call.Nm = -1
				}
				om.Calls = append(om.Calls, call)
			}
		}
		out.Msgs = append(out.Msgs, om)
	}
	if tools, present := o["tools"]; present && tools != nil {
		arr, ok := tools.([]any)
		if !ok {
			out.Tools = append(out.Tools, OutTool{-1, "other", "other"})
		}
		for _, tv := range arr {
			t, _ := tv.(map[string]any)
			fn, _ := t["function"].(map[string]any)
			ot := OutTool{Nm: c.idIndex(fn["name"], c.Names), Desc: "other", Schema: "other"}
			if ty, _ := t["type"].(string); ty != "function" {
				ot.Nm = -1
			}
			d, dpresent := fn["description"]
			switch {
			case !dpresent || d == nil || d == "":
				ot.Desc = "absent"
			case d == c.Desc:
				ot.Desc = "same"
			}
			if ot.Nm >= 1 && reflect.DeepEqual(fn["parameters"], c.Schemas[ot.Nm]) {
				ot.Schema = "same"
			}
			out.Tools = append(out.Tools, ot)
		}
	}
	switch tc := o["tool_choice"].(type) {
	case nil:
		out.Tc = "absent"
		if _, present := o["tool_choice"]; present {
			out.Tc = "other"
		}
	case string:
		switch tc {
		case "auto":
			out.Tc = "auto"
		case "required":
			out.Tc = "any"
		case "none":
			out.Tc = "none"
		default:
			out.Tc = "other"
		}
	case map[string]any:
		out.Tc = "other"
		fn, _ := tc["function"].(map[string]any)
		if ty, _ := tc["type"].(string); ty == "function" {
			if i := c.idIndex(fn["name"], c.Names); i >= 1 {
				out.Tc = fmt.Sprintf("tool%d", i)
			}
		}
	default:
		out.Tc = "other"
	}
	return out
}

// ProjectBytes decodes an OpenAI request body and projects it; ok=false if it is not a JSON object.
func (c *Concrete) ProjectBytes(b []byte) (Out, bool) {
	var o map[string]any
	if err := json.Unmarshal(b, &o); err != nil || o == nil {
		return Out{}, false
	}
	return c.Project(o), true
}

// ErrorShape classifies an error response body.
func ErrorShape(body []byte) string {
	var v map[string]any
	if json.Unmarshal(body, &v) != nil {
		return "not_json"
	}
	if v["type"] == "error" {
		if e, ok := v["error"].(map[string]any); ok {
			t, tok := e["type"].(string)
			_, mok := e["message"].(string)
			if tok && mok && t != "" {
				return "anthropic_error"
			}
		}
	}
	if v["type"] == "message" {
		return "message"
	}
	if _, ok := v["error"]; ok {
		return "other_error"
	}
	return "json"
}
