//go:build verif

package anthropic

import (
	"bytes"
	"context"
	"encoding/json"
	"fmt"
	"io"
	"log/slog"
	"math/rand"
	"net/http"
	"runtime"
	"testing"
	"time"

	"github.com/thushan/olla/internal/adapter/translator"
	"github.com/thushan/olla/internal/config"
	"github.com/thushan/olla/internal/logger"
	"github.com/thushan/olla/internal/zzverif"
	"github.com/thushan/olla/internal/zzverifc12"
)

type verifReqResult struct {
	tr    *translator.TransformedRequest
	err   error
	panic any
}

// TestVerif_AnthropicReq concretises every TLC-enumerated abstract Anthropic request (seeded random
// strings, nested JSON arguments), runs it through the real Translator.TransformRequest and records
// the abstract projection of the OpenAI request that came out (or the refusal).
func TestVerif_AnthropicReq(t *testing.T) {
	tr := zzverif.OpenTrace()
	defer tr.Close()
	scns := zzverif.LoadScenarios()
	lg := logger.NewPlainStyledLogger(slog.New(slog.NewTextHandler(io.Discard, nil)))
	trn := NewTranslator(lg, config.AnthropicTranslatorConfig{Enabled: true, MaxMessageSize: 10 << 20})
	seed := zzverif.Seed()
	zzverif.Parallel(len(scns), runtime.NumCPU(), func(sn int) {
		b := tr.Block()
		defer b.Flush()
		defer b.Emit("End")
		var q zzverifc12.Req
		if err := json.Unmarshal(scns[sn], &q); err != nil {
			panic(fmt.Sprintf("scenario %d: %v", sn, err))
		}
		rnd := rand.New(rand.NewSource(seed*1000003 + int64(sn)))
		c := zzverifc12.Concretise(q, rnd, "claude-verif-"+fmt.Sprint(seed))
		b.Emit("Reset", "scn", sn, "req", q)
		done := make(chan verifReqResult, 1)
		go func() {
			var r verifReqResult
			defer func() {
				if p := recover(); p != nil {
					r.panic = p
				}
				done <- r
			}()
			hr, _ := http.NewRequest("POST", "http://olla.local/olla/anthropic/v1/messages", bytes.NewReader(c.Body))
			hr.Header.Set("Content-Type", "application/json")
			r.tr, r.err = trn.TransformRequest(context.Background(), hr)
		}()
		var r verifReqResult
		select {
		case r = <-done:
		case <-time.After(10 * time.Second):
			b.Emit("Hang", "what", "TransformRequest")
			return
		}
		switch {
		case r.panic != nil:
			b.Emit("Panic", "what", fmt.Sprint(r.panic))
		case r.err != nil:
			b.Emit("Translate", "ok", false, "out", "none", "err", r.err.Error())
		case r.tr == nil || r.tr.OpenAIRequest == nil:
			b.Emit("Translate", "ok", false, "out", "none", "err", "nil result without error")
		default:
			// the handler serialises OpenAIRequest with encoding/json; project what goes on the wire
			wire, err := json.Marshal(r.tr.OpenAIRequest)
			if err != nil {
				b.Emit("Translate", "ok", false, "out", "none", "err", "unserialisable: "+err.Error())
				return
			}
			out, ok := c.ProjectBytes(wire)
			if !ok {
				b.Emit("Translate", "ok", false, "out", "none", "err", "not a JSON object")
				return
			}
			b.Emit("Translate", "ok", true, "out", out, "path", r.tr.TargetPath)
		}
	})
}
