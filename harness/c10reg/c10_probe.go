//go:build verif

package registry

import (
	"sync"
	"sync/atomic"
	"time"

	"github.com/thushan/olla/internal/core/domain"
	"github.com/thushan/olla/internal/verifhook"
)

// VerifC10Probe lets the C10 harness (which lives in another package) learn when the
// asynchronous unification goroutines started by RegisterModels have finished.  It does not
// change what the registry does.
//
// Every successful UnifiedMemoryModelRegistry.RegisterModels starts exactly one goroutine running
// unifyModelsAsync; that function passes the instrumentation point "registry.unified" (key:
// endpoint URL) when it returns, after it released unificationMutex.  So "n registrations merged"
// <=> the point was passed n times for this registry's endpoint URLs.  Scenarios that run at the
// same time use disjoint endpoint URLs (one rig each), so the URL identifies the registry.
type VerifC10Probe struct {
	r    *UnifiedMemoryModelRegistry
	done atomic.Int64
}

var (
	verifC10Probes sync.Map // endpoint URL -> *VerifC10Probe
	verifC10Once   sync.Once
	verifC10Holds  sync.Map // endpoint URL -> chan struct{} (closed on release)
)

// VerifC10Hold makes background unifications of endpointURL wait at their start until the returned
// function is called.
func VerifC10Hold(endpointURL string) (release func()) {
	ch := make(chan struct{})
	verifC10Holds.Store(endpointURL, ch)
	return func() {
		verifC10Holds.Delete(endpointURL)
		close(ch)
	}
}

// VerifC10Instrument returns a probe for reg if it is the unified registry, nil otherwise.
func VerifC10Instrument(reg domain.ModelRegistry) *VerifC10Probe {
	r, ok := reg.(*UnifiedMemoryModelRegistry)
	if !ok {
		return nil
	}
	verifC10Once.Do(func() {
		verifhook.Set(func(name, key string) {
			if name == "registry.unify" {
				// gate: a background unification of this endpoint waits here while the harness holds it
				if ch, ok := verifC10Holds.Load(key); ok {
					<-ch.(chan struct{})
				}
				return
			}
			if name != "registry.unified" {
				return
			}
			if p, ok := verifC10Probes.Load(key); ok {
				p.(*VerifC10Probe).done.Add(1)
			}
		})
	})
	return &VerifC10Probe{r: r}
}

// Watch attributes unifications of endpointURL to this probe from now on.
func (p *VerifC10Probe) Watch(endpointURL string) {
	if p != nil {
		verifC10Probes.Store(endpointURL, p)
	}
}

// WaitMerged blocks until n unification goroutines have run to completion (or the timeout
// expires: false).
func (p *VerifC10Probe) WaitMerged(n int64, timeout time.Duration) bool {
	deadline := time.Now().Add(timeout)
	for p.done.Load() < n {
		if time.Now().After(deadline) {
			return false
		}
		time.Sleep(20 * time.Microsecond)
	}
	return p.done.Load() == n
}
