//go:build verif

package registry

import (
	"context"
	"sync/atomic"
	"time"

	"github.com/thushan/olla/internal/core/domain"
	"github.com/thushan/olla/internal/core/ports"
)

// VerifC10Probe lets the C10 harness (which lives in another package) learn when the
// asynchronous unification goroutines started by RegisterModels have finished.  It does not
// change what the registry does: the real unifier is called through a counting delegate.
//
// Every successful UnifiedMemoryModelRegistry.RegisterModels starts exactly one goroutine
// that takes unificationMutex, calls unifier.UnifyModels once, merges, and releases the
// mutex.  So "n registrations merged" <=> the delegate saw n UnifyModels calls and the mutex
// could be taken afterwards.
type VerifC10Probe struct {
	r     *UnifiedMemoryModelRegistry
	calls atomic.Int64
}

type verifC10Unifier struct {
	ports.ModelUnifier
	p *VerifC10Probe
}

func (u *verifC10Unifier) UnifyModels(ctx context.Context, models []*domain.ModelInfo, ep *domain.Endpoint) ([]*domain.UnifiedModel, error) {
	u.p.calls.Add(1)
	return u.ModelUnifier.UnifyModels(ctx, models, ep)
}

// VerifC10Instrument returns a probe for reg if it is the unified registry, nil otherwise.
func VerifC10Instrument(reg domain.ModelRegistry) *VerifC10Probe {
	r, ok := reg.(*UnifiedMemoryModelRegistry)
	if !ok {
		return nil
	}
	p := &VerifC10Probe{r: r}
	r.unifier = &verifC10Unifier{ModelUnifier: r.unifier, p: p}
	return p
}

// WaitMerged blocks until n unification goroutines have run to completion (or the timeout
// expires: false).
func (p *VerifC10Probe) WaitMerged(n int64, timeout time.Duration) bool {
	deadline := time.Now().Add(timeout)
	for p.calls.Load() < n {
		if time.Now().After(deadline) {
			return false
		}
		time.Sleep(20 * time.Microsecond)
	}
	// the goroutine that made the n-th call holds the mutex until it is done
	p.r.unificationMutex.Lock()
	p.r.unificationMutex.Unlock() //nolint:staticcheck
	return p.calls.Load() == n
}
