//go:build verif

package registry

import (
	"sync"
	"sync/atomic"
	"time"

	"github.com/thushan/olla/internal/core/domain"
	"github.com/thushan/olla/internal/verifhook"
)

// VerifC10Probe lets the C10 harness (which lives in another package) learn when the
// asynchronous unification goroutines started by RegisterModels have finished.  It does not
// change what the registry does.
//
// Every successful UnifiedMemoryModelRegistry.RegisterModels starts exactly one goroutine running
// unifyModelsAsync; that function passes the instrumentation point "registry.unified" (key:
// endpoint URL) when it returns, after it released unificationMutex.  So "n registrations merged"
// <=> the point was passed n times for this registry's endpoint URLs.  Scenarios that run at the
// same time use disjoint endpoint URLs (one rig each), so the URL identifies the registry.
type VerifC10Probe struct {
	r    *UnifiedMemoryModelRegistry
	done atomic.Int64
}

var (
	verifC10Probes sync.Map // endpoint URL -> *VerifC10Probe
	verifC10Once   sync.Once
	verifC10Holds  sync.Map // endpoint URL -> *verifC10HoldT
)

// VerifC10Hold makes background unifications of endpointURL wait at their start until the returned
// function is called.
func VerifC10Hold(endpointURL string) (release func()) {
	return verifC10HoldWith(endpointURL, false)
}

// VerifC10HoldFirst holds only the FIRST background unification of endpointURL that arrives; later ones run
// past it -- so that a newer listing is unified before an older one.
func VerifC10HoldFirst(endpointURL string) (release func()) {
	return verifC10HoldWith(endpointURL, true)
}

type verifC10HoldT struct {
	ch        chan struct{}
	firstOnly bool
	taken     atomic.Bool
}

func verifC10HoldWith(endpointURL string, firstOnly bool) (release func()) {
	h := &verifC10HoldT{ch: make(chan struct{}), firstOnly: firstOnly}
	verifC10Holds.Store(endpointURL, h)
	return func() {
		verifC10Holds.Delete(endpointURL)
		close(h.ch)
	}
}

// VerifC10Instrument returns a probe for reg if it is the unified registry, nil otherwise.
func VerifC10Instrument(reg domain.ModelRegistry) *VerifC10Probe {
	r, ok := reg.(*UnifiedMemoryModelRegistry)
	if !ok {
		return nil
	}
	verifC10Once.Do(func() {
		verifhook.Set(func(name, key string) {
			if name == "registry.unify" {
				// gate: a background unification of this endpoint waits here while the harness holds it
				if h, ok := verifC10Holds.Load(key); ok {
					hold := h.(*verifC10HoldT)
					if !hold.firstOnly || hold.taken.CompareAndSwap(false, true) {
						<-hold.ch
					}
				}
				return
			}
			if name != "registry.unified" {
				return
			}
			if p, ok := verifC10Probes.Load(key); ok {
				p.(*VerifC10Probe).done.Add(1)
			}
		})
	})
	return &VerifC10Probe{r: r}
}

// Watch attributes unifications of endpointURL to this probe from now on.
func (p *VerifC10Probe) Watch(endpointURL string) {
	if p != nil {
		verifC10Probes.Store(endpointURL, p)
	}
}

// Done is the number of unification goroutines that have run to completion so far.
func (p *VerifC10Probe) Done() int64 { return p.done.Load() }

// WaitMerged blocks until n unification goroutines have run to completion (or the timeout
// expires: false).
func (p *VerifC10Probe) WaitMerged(n int64, timeout time.Duration) bool {
	deadline := time.Now().Add(timeout)
	for p.done.Load() < n {
		if time.Now().After(deadline) {
			return false
		}
		time.Sleep(20 * time.Microsecond)
	}
	return p.done.Load() == n
}
